#!/venv/bin/python
"""Development helper: confirm and import the seeded changes written by one sub-agent.
usage: import_round.py <PROP> <suffix e.g. r3> <letter e.g. p> <round number>
Confirms each /tmp/wt/<PROP><suffix>.out/m<k> in the scratch worktree /tmp/wt/<PROP><suffix> (demo passes on the clean tree, fails with
the patch, py_compile, pinned pytest baseline unchanged), copies the confirmed ones to /verif/seeded/<PROP>-<letter><k>/ and removes the
worktree.  Nothing is applied to /repo."""
import json, os, shutil, subprocess, sys
VERIF = os.path.dirname(os.path.dirname(os.path.abspath(__file__)))
prop, suffix, letter, rnd = sys.argv[1:5]
WT, OUT = f"/tmp/wt/{prop}{suffix}", f"/tmp/wt/{prop}{suffix}.out"
base = subprocess.run(["git", "-C", WT, "rev-parse", "--short", "HEAD"], capture_output=True, text=True).stdout.strip()

def sh(*a, **k):
    return subprocess.run(*a, capture_output=True, text=True, **k)

def demo(m):
    r = sh(["/venv/bin/python", "-W", "ignore", os.path.join(m, "demo.py")], cwd=WT, env=dict(os.environ, PYTHONPATH=WT), timeout=600)
    return r.returncode

for k in sorted(os.listdir(OUT)):
    m = os.path.join(OUT, k)
    if not os.path.isfile(os.path.join(m, "patch.diff")):
        continue
    sh(["git", "-C", WT, "checkout", "-q", "--", "."]); sh(["git", "-C", WT, "clean", "-fdq"])
    try:
        c = demo(m)
    except subprocess.TimeoutExpired:
        c = "timeout"
    if sh(["git", "-C", WT, "apply", os.path.join(m, "patch.diff")]).returncode:
        print(prop, k, "NOAPPLY"); continue
    try:
        d = demo(m)
    except subprocess.TimeoutExpired:
        d = "timeout"
    files = sh(["git", "-C", WT, "diff", "--name-only"]).stdout.split()
    pc = sh(["/venv/bin/python", "-m", "py_compile"] + [os.path.join(WT, f) for f in files]).returncode
    b = sh(["/venv/bin/python", os.path.join(VERIF, "tools", "baseline_check.py"), WT]).stdout.splitlines()[0]
    sh(["git", "-C", WT, "checkout", "-q", "--", "."]); sh(["git", "-C", WT, "clean", "-fdq"])
    res = f"{prop} {k} clean_demo_exit={c} mutated_demo_exit={d} compile={pc} baseline: {b}"
    ok = c == 0 and d == 1 and pc == 0 and "missing=0" in b
    print(("CONFIRMED " if ok else "REJECTED  ") + res)
    if not ok:
        continue
    notes = json.load(open(os.path.join(m, "notes.json")))
    sid = f"{prop}-{letter}{k[1:]}"
    dst = os.path.join(VERIF, "seeded", sid)
    os.makedirs(dst, exist_ok=True)
    shutil.copy(os.path.join(m, "patch.diff"), dst); shutil.copy(os.path.join(m, "demo.py"), dst)
    meta = {"id": sid, "round": int(rnd), "property": prop, "breaks": notes.get("summary", ""), "needs_to_manifest": notes.get("needs", ""),
            "files": notes.get("files", []), "functions": notes.get("functions", []), "base_commit": base,
            "origin": "independent sub-agent, round %s (asked for near-equivalent refactorings, swapped near-synonyms, boundary cases, state leakage, "
                      "at least three different functions, not the textbook edits); given only the property text and a scratch worktree" % rnd,
            "confirmed": {"how": "tools/import_round.py in a scratch worktree: demo on clean tree, git apply, demo again, py_compile, pinned pytest "
                                 "baseline vs BASELINE.json", "result": res}}
    json.dump(meta, open(os.path.join(dst, "meta.json"), "w"), indent=1)
sh(["git", "-C", "/repo", "worktree", "remove", "--force", WT])
shutil.rmtree(OUT, ignore_errors=True)
try:
    os.remove(f"/tmp/wt/{prop}{suffix}.prompt.txt")
except OSError:
    pass
