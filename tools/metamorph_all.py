#!/venv/bin/python
"""Development helper: run the behaviour-preserving-variant sweep of every property (without the mutation sweep) and print alarms."""
import importlib, os, sys
sys.path.insert(0, os.path.dirname(os.path.dirname(os.path.abspath(__file__))))
from sa.engine import Analyzer, Report
from sa.model import Model
from sa.metamorph import metamorph
props = sys.argv[1:] or ["C01","C02","C03","C04","C05","C06","C07","C08","C09","C10","C11","C12","C13","C14","C15","C18","C19","C20"]
for p in props:
    mod = importlib.import_module(f"sa.props.{p}")
    an = Analyzer(Model(), opts=getattr(mod, "OPTS", {}))
    rep = Report(p, "quick", an)
    mod.check(rep, an, "quick")
    mm = metamorph(p, an, rep)
    print(p, "variants", mm["variants"], "silent", mm["silent"], "alarms", len(mm["alarms"]), "errors", len(mm["analysis_errors"]))
    for al in mm["alarms"]:
        print("   ALARM", al["variant"], al["new_violations"][:3])
    for er in mm["analysis_errors"]:
        print("   ERROR", er["variant"], er["error"])
