#!/venv/bin/python
"""Generate MANIFEST.json from the property modules present in sa/props and tools/manifest_meta.json."""
import json, os, importlib, sys
V = os.path.dirname(os.path.dirname(os.path.abspath(__file__)))
sys.path.insert(0, V)
meta = json.load(open(os.path.join(V, "tools", "manifest_meta.json")))
props = [json.loads(l) for l in open(os.path.join(V, "properties.jsonl"))]
checks, na = [], []
for p in props:
    pid = p["id"]
    m = meta["checks"].get(pid)
    if m and os.path.exists(os.path.join(V, "sa", "props", pid + ".py")):
        checks.append({
            "property_id": pid,
            "quick_cmd": f"bin/check {pid} --tier quick",
            "thorough_cmd": f"bin/check {pid} --tier thorough",
            "evidence_file": f"evidence/{pid}.json",
            "replay_cmd_template": f"bin/check {pid} --replay {{path}}",
            "engine": "sa",
            "level_claimed": {"category": "other", "text": m["text"], "design_ref": m.get("design_ref", f"DESIGN.md §4 {pid}")},
            "level_note": m.get("note", meta["default_note"]),
            "technique": m["technique"],
        })
    else:
        na.append({"property_id": pid, "reason": meta["not_applicable"].get(pid, "static check not built yet (see DESIGN.md §4)")})
man = {
    "version": 1,
    "setup_cmd": "true",
    "hooks": {"guard": "DREYE_VERIF", "enable": "none needed: the checks read /repo's source with ast and never execute dreye; no instrumentation exists",
              "baseline_off_cmd": "cd /repo && /venv/bin/python -m pytest -ra -q -p no:cacheprovider --timeout=900 --continue-on-collection-errors",
              "source_commits": [], "add_only": True},
    "engines": [{"name": "sa", "path": "sa/", "serves_properties": [c["property_id"] for c in checks],
                 "kind_free_text": "repository-specific abstract interpreter over Python ast (facets: constants, dependence, named-axis shapes, units+frames, sign, freshness, cvxpy expression trees) + rule families over its trace; pure static analysis"}],
    "checks": checks,
    "notes": meta["notes"],
    "not_applicable": na,
}
json.dump(man, open(os.path.join(V, "MANIFEST.json"), "w"), indent=1)
print(len(checks), "checks;", len(na), "not applicable")
