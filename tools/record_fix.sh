#!/bin/sh
# usage: record_fix.sh <PROP> "<what failed>"  -- after committing a fix: in /repo: builds the reverse patch into selftest/regress and records it
H=$(git -C /repo rev-parse --short HEAD)
git -C /repo show HEAD | sed -n '/^diff/,$p' > /tmp/fwd.diff
cd /tmp && rm -rf rv rv0 && mkdir rv rv0 && cp -r /repo/dreye rv/ && cp -r /repo/dreye rv0/ && (cd rv && patch -R -p1 -s < /tmp/fwd.diff) && diff -ru rv0/dreye rv/dreye | grep -v "^Only in" | sed 's#^--- rv0/#--- a/#; s#^+++ rv/#+++ b/#; s#^diff -ru rv0/\(\S*\) rv/\(\S*\)#diff --git a/\1 b/\2#' > /verif/selftest/regress/$H.diff; rm -rf rv rv0 /tmp/fwd.diff
echo "$H $(git -C /repo log -1 --format=%s | cut -c1-140)" >> /verif/selftest/regress/INDEX.txt
/venv/bin/python - "$1" "$H" "$2" <<'PY'
import json,sys
p='/verif/known_findings.json'; m=json.load(open(p))
m['fixed'].append(f"fixed: property={sys.argv[1]} {sys.argv[2]} {sys.argv[3]}")
json.dump(m,open(p,'w'),indent=1)
PY
echo recorded $H
