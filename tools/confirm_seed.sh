#!/bin/sh
# usage: confirm_seed.sh <PROP>   -- development helper: confirm the seeded changes of one property
# in its scratch worktree /tmp/wt/<PROP> (clean demo passes, mutated demo fails, baseline unchanged)
P=$1; WT=/tmp/wt/$P; OUT=/tmp/wt/$P.out
for m in $OUT/m*; do
  [ -f $m/patch.diff ] || continue
  k=$(basename $m)
  git -C $WT checkout -q -- . ; git -C $WT clean -fdq
  ( cd $WT && PYTHONPATH=$WT timeout 300 /venv/bin/python -W ignore $m/demo.py >/dev/null 2>&1 ); c=$?
  if ! git -C $WT apply $m/patch.diff 2>/dev/null; then echo "$P $k NOAPPLY"; continue; fi
  ( cd $WT && PYTHONPATH=$WT timeout 300 /venv/bin/python -W ignore $m/demo.py >/dev/null 2>&1 ); d=$?
  /venv/bin/python -m py_compile $(git -C $WT diff --name-only | sed "s#^#$WT/#") 2>/dev/null; pc=$?
  b=$(/venv/bin/python /tmp/wt/tools/baseline_check.py $WT | head -1)
  git -C $WT checkout -q -- . ; git -C $WT clean -fdq
  echo "$P $k clean_demo_exit=$c mutated_demo_exit=$d compile=$pc baseline: $b"
done
