#!/venv/bin/python
"""Development helper: run checks against patched scratch copies of /repo/dreye (never /repo itself).
usage: selftest.py [--props C05,C04] [--patches glob ...]  -> table patch x property -> exit code"""
import argparse, glob, json, os, shutil, subprocess, sys, tempfile, concurrent.futures as cf
VERIF = os.path.dirname(os.path.dirname(os.path.abspath(__file__)))
SMART = True
ALL = ["C01","C02","C03","C04","C05","C06","C07","C08","C09","C10","C11","C12","C13","C14","C15","C18","C19","C20"]

_REACH = {}


def reached_files(prop):
    """files whose functions the property's quick analysis reaches on the clean tree (cached in /tmp): a patch that touches none of
    them cannot change that check's outcome, so the pair is skipped"""
    if prop in _REACH:
        return _REACH[prop]
    cache = f"/tmp/st_reach_{prop}.json"
    import hashlib
    dig = hashlib.sha1(subprocess.run(["git", "-C", "/repo", "rev-parse", "HEAD"], capture_output=True, text=True).stdout.encode()
                       + subprocess.run(["git", "-C", VERIF, "rev-parse", "HEAD"], capture_output=True, text=True).stdout.encode()).hexdigest()
    try:
        d = json.load(open(cache))
        if d["dig"] == dig:
            files = d["files"]
            raise KeyError
    except KeyError:
        extra = {"C20": {"dreye/api/units/pint.py", "dreye/api/units/__init__.py"}, "C14": {"dreye/api/estimator.py"}}
        _REACH[prop] = set(files) | extra.get(prop, set()) | {"dreye/__init__.py", "dreye/api/__init__.py"}
        return _REACH[prop]
    except Exception:
        pass
    code = ("import sys, json; sys.path.insert(0, %r)\n"
            "import importlib\nfrom sa.engine import Analyzer, Report\nfrom sa.model import Model\n"
            "m = importlib.import_module('sa.props.%s'); an = Analyzer(Model('/repo'), opts=getattr(m, 'OPTS', {}))\n"
            "rep = Report(%r, 'quick', an); m.check(rep, an, 'quick')\n"
            "print(json.dumps(sorted({q.split(':')[0].replace('.', '/') + '.py' for q in an.funcs_reached})))" % (VERIF, prop, prop))
    r = subprocess.run(["/venv/bin/python", "-W", "ignore", "-c", code], capture_output=True, text=True)
    try:
        files = json.loads(r.stdout.strip().splitlines()[-1])
    except Exception:
        files = None
    if files is not None:
        json.dump({"dig": dig, "files": files}, open(cache, "w"))
    extra = {"C20": {"dreye/api/units/pint.py", "dreye/api/units/__init__.py"}, "C14": {"dreye/api/estimator.py"}}    # read as module / class tables
    _REACH[prop] = (set(files) | extra.get(prop, set()) | {"dreye/__init__.py", "dreye/api/__init__.py"}) if files is not None else None
    return _REACH[prop]


def touched(patch):
    out = set()
    for l in open(patch):
        if l.startswith(("+++ b/", "--- a/")):
            out.add(l[6:].split("\t")[0].strip())
    return out


def run_one(patch, props, tier):
    d = tempfile.mkdtemp(prefix="st_", dir="/tmp")
    try:
        shutil.copytree("/repo/dreye", os.path.join(d, "dreye"))
        if patch != "CLEAN":
            r = subprocess.run(["patch", "-p1", "-i", patch], cwd=d, capture_output=True, text=True)
            if r.returncode:
                return patch, {"*": "NOAPPLY " + r.stdout[:100]}
            import re as _re
            # a hunk that needed fuzz AND landed far from where it was written may have found look-alike lines of ANOTHER function
            far = [l for l in r.stdout.splitlines() if "fuzz" in l and any(int(n) >= 30 for n in _re.findall(r"offset -?(\d+) line", l))]
            if far:
                return patch, {"*": "NOAPPLY (misplaced) " + far[0][:80]}
        out = {}
        tf = touched(patch) if patch != "CLEAN" and SMART else None
        for p in props:
            if not os.path.exists(os.path.join(VERIF, "sa", "props", p + ".py")):
                continue
            if tf is not None:
                rf = reached_files(p)
                if rf is not None and not (tf & rf):
                    out[p] = (0, ["skipped: touches no file this check reads"])
                    continue
            env = dict(os.environ, VERIF_EVIDENCE_DIR=os.path.join(d, "ev"))
            r = subprocess.run([os.path.join(VERIF, "bin", "check"), p, "--tier", tier, "--repo", d], capture_output=True, text=True, env=env)
            lines = [l for l in r.stdout.splitlines() if l.startswith(("VIOLATION", "ANALYSIS-ERROR")) or ": R-" in l]
            out[p] = (r.returncode, lines[:3])
        return patch, out
    finally:
        shutil.rmtree(d, ignore_errors=True)

if __name__ == "__main__":
    ap = argparse.ArgumentParser()
    ap.add_argument("--props", default=",".join(ALL))
    ap.add_argument("--tier", default="quick")
    ap.add_argument("-v", action="store_true")
    ap.add_argument("--all-pairs", action="store_true", help="run every check on every patch (default: skip pairs whose files do not meet)")
    ap.add_argument("patches", nargs="*")
    a = ap.parse_args()
    SMART = not a.all_pairs
    patches = a.patches or (sorted(glob.glob(VERIF + "/selftest/regress/*.diff")) + sorted(glob.glob(VERIF + "/seeded/*/patch.diff")))
    patches = ["CLEAN"] + [os.path.abspath(p) for p in patches]
    props = a.props.split(",")
    tally = {"benign_silent": 0, "benign_alarm": 0, "breaking_reported": 0, "breaking_missed": 0, "noapply": 0, "error_only": 0}
    with cf.ThreadPoolExecutor(16) as ex:
        for patch, out in ex.map(lambda p: run_one(p, props, a.tier), patches):
            name = patch.replace(VERIF + "/", "")
            fired = [p for p, v in out.items() if isinstance(v, tuple) and v[0] == 1]
            err = [p for p, v in out.items() if isinstance(v, tuple) and v[0] == 2]
            if "*" in out:
                tally["noapply"] += 1
            elif name.startswith("benign/") or name == "CLEAN":
                tally["benign_alarm" if (fired or err) else "benign_silent"] += 1
            else:
                tally["breaking_reported" if fired else ("error_only" if err else "breaking_missed")] += 1
            print(f"{name:55s} fired={','.join(fired) or '-'} error={','.join(err) or '-'}" + (" " + str(out.get('*')) if '*' in out else ""))
            if a.v:
                for p, v in out.items():
                    if isinstance(v, tuple) and v[0]:
                        for l in v[1]:
                            print("      ", p, l[:230])
    print("SUMMARY " + " ".join(f"{k}={v}" for k, v in tally.items()))
    if tally["noapply"]:
        print("WARNING: some patches no longer apply to /repo HEAD — re-express them on the current tree (nothing was tested for them)")
