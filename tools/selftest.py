#!/venv/bin/python
"""Development helper: run checks against patched scratch copies of /repo/dreye (never /repo itself).
usage: selftest.py [--props C05,C04] [--patches glob ...]  -> table patch x property -> exit code"""
import argparse, glob, json, os, shutil, subprocess, sys, tempfile, concurrent.futures as cf
VERIF = os.path.dirname(os.path.dirname(os.path.abspath(__file__)))
ALL = ["C01","C02","C03","C04","C05","C06","C07","C08","C09","C10","C11","C12","C13","C14","C15","C18","C19","C20"]

def run_one(patch, props, tier):
    d = tempfile.mkdtemp(prefix="st_", dir="/tmp")
    try:
        shutil.copytree("/repo/dreye", os.path.join(d, "dreye"))
        if patch != "CLEAN":
            r = subprocess.run(["patch", "-p1", "-s", "-i", patch], cwd=d, capture_output=True, text=True)
            if r.returncode:
                return patch, {"*": "NOAPPLY " + r.stdout[:100]}
        out = {}
        for p in props:
            if not os.path.exists(os.path.join(VERIF, "sa", "props", p + ".py")):
                continue
            env = dict(os.environ, VERIF_EVIDENCE_DIR=os.path.join(d, "ev"))
            r = subprocess.run([os.path.join(VERIF, "bin", "check"), p, "--tier", tier, "--repo", d], capture_output=True, text=True, env=env)
            lines = [l for l in r.stdout.splitlines() if l.startswith(("VIOLATION", "ANALYSIS-ERROR")) or ": R-" in l]
            out[p] = (r.returncode, lines[:3])
        return patch, out
    finally:
        shutil.rmtree(d, ignore_errors=True)

if __name__ == "__main__":
    ap = argparse.ArgumentParser()
    ap.add_argument("--props", default=",".join(ALL))
    ap.add_argument("--tier", default="quick")
    ap.add_argument("-v", action="store_true")
    ap.add_argument("patches", nargs="*")
    a = ap.parse_args()
    patches = a.patches or (sorted(glob.glob(VERIF + "/selftest/regress/*.diff")) + sorted(glob.glob(VERIF + "/seeded/*/patch.diff")))
    patches = ["CLEAN"] + [os.path.abspath(p) for p in patches]
    props = a.props.split(",")
    with cf.ThreadPoolExecutor(16) as ex:
        for patch, out in ex.map(lambda p: run_one(p, props, a.tier), patches):
            name = patch.replace(VERIF + "/", "")
            fired = [p for p, v in out.items() if isinstance(v, tuple) and v[0] == 1]
            err = [p for p, v in out.items() if isinstance(v, tuple) and v[0] == 2]
            print(f"{name:55s} fired={','.join(fired) or '-'} error={','.join(err) or '-'}" + (" " + str(out.get('*')) if '*' in out else ""))
            if a.v:
                for p, v in out.items():
                    if isinstance(v, tuple) and v[0]:
                        for l in v[1]:
                            print("      ", p, l[:230])
