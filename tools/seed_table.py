#!/venv/bin/python
"""Development helper: markdown table 'seeded change -> caught by' from a selftest matrix file and seeded/*/meta.json.
usage: seed_table.py [matrix file] [--round m|n|p]"""
import json, os, re, sys
VERIF = os.path.dirname(os.path.dirname(os.path.abspath(__file__)))
mat = sys.argv[1] if len(sys.argv) > 1 and not sys.argv[1].startswith("--") else os.path.join(VERIF, "selftest", "matrix_latest.txt")
rnd = sys.argv[sys.argv.index("--round") + 1] if "--round" in sys.argv else None
rows = {}
for l in open(mat):
    m = re.match(r"seeded/(\S+)/patch.diff\s+fired=(\S+)\s+error=(\S+)", l)
    if m:
        rows[m.group(1)] = (m.group(2), m.group(3))
print("| seeded change | what it breaks (one line) | caught by |")
print("|---|---|---|")
for sid in sorted(rows):
    if rnd and not re.search(rf"-{rnd}\d+$", sid):
        continue
    meta = json.load(open(os.path.join(VERIF, "seeded", sid, "meta.json")))
    fired, err = rows[sid]
    own = sid.split("-")[0]
    if fired == "-":
        c = "**not caught**" + (f" (exit 2: {err})" if err != "-" else "")
    else:
        c = fired if own in fired.split(",") else fired + " (not by its own check)"
    b = " ".join(meta["breaks"].split())
    print(f"| {sid} | {b[:230]} | {c} |")
