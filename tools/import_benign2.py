#!/venv/bin/python
"""Development helper: re-confirm and archive the behaviour-preserving refactorings of one sub-agent (round 2: areas B1..B6).
usage: import_benign2.py <AREA>   -- reads /tmp/wt/<AREA>.out/r<k>, worktree /tmp/wt/<AREA>; re-runs equiv.py on both trees, the
pinned pytest baseline, archives under /verif/benign/<AREA>-r<k>/ and removes the worktree.  Nothing is applied to /repo."""
import json, os, shutil, subprocess, sys
VERIF = os.path.dirname(os.path.dirname(os.path.abspath(__file__)))
area = sys.argv[1]
WT, OUT = f"/tmp/wt/{area}", f"/tmp/wt/{area}.out"
def sh(*a, **k):
    return subprocess.run(*a, capture_output=True, text=True, **k)
def equiv(m):
    return sh(["/venv/bin/python", "-W", "ignore", os.path.join(m, "equiv.py")], cwd=WT, env=dict(os.environ, PYTHONPATH=WT), timeout=900).stdout
base = sh(["git", "-C", WT, "rev-parse", "--short", "HEAD"]).stdout.strip()
for k in sorted(os.listdir(OUT)):
    m = os.path.join(OUT, k)
    if not os.path.isfile(os.path.join(m, "patch.diff")):
        continue
    sh(["git", "-C", WT, "checkout", "-q", "--", "."]); sh(["git", "-C", WT, "clean", "-fdq"])
    a = equiv(m)
    if sh(["git", "-C", WT, "apply", os.path.join(m, "patch.diff")]).returncode:
        print(area, k, "NOAPPLY"); continue
    b = equiv(m)
    bl = sh(["/venv/bin/python", os.path.join(VERIF, "tools", "baseline_check.py"), WT]).stdout.splitlines()[0]
    sh(["git", "-C", WT, "checkout", "-q", "--", "."]); sh(["git", "-C", WT, "clean", "-fdq"])
    ok = a == b and len(a) > 50 and "missing=0" in bl
    print("CONFIRMED" if ok else "REJECTED ", area, k, "identical=%s lines=%d" % (a == b, a.count("\n")), bl)
    if not ok:
        continue
    dst = os.path.join(VERIF, "benign", f"{area}-{k}")
    os.makedirs(dst, exist_ok=True)
    for f in ("patch.diff", "equiv.py", "notes.json"):
        if os.path.exists(os.path.join(m, f)):
            shutil.copy(os.path.join(m, f), dst)
    json.dump({"id": f"{area}-{k}", "round": int(os.environ.get("BENIGN_ROUND", "2")), "base_commit": base, "equivalence_outputs_identical": True,
               "origin": "independent sub-agent (given the texts of three properties and a scratch worktree, nothing from /verif); behaviour-"
                         "preserving refactoring; equivalence script re-run on both trees by tools/import_benign2.py (byte-identical output, "
                         f"{a.count(chr(10))} lines) and pinned pytest baseline unchanged ({bl})"}, open(os.path.join(dst, "meta.json"), "w"), indent=1)
sh(["git", "-C", "/repo", "worktree", "remove", "--force", WT]); shutil.rmtree(OUT, ignore_errors=True)
try: os.remove(f"/tmp/wt/{area}.prompt.txt")
except OSError: pass
