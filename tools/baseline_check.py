#!/usr/bin/env python3
"""Development helper (not a deciding step): run the pinned pytest baseline in a
given checkout and compare with /root/.vp/BASELINE.json stable_pass."""
import json, subprocess, sys, tempfile, os, xml.etree.ElementTree as ET
repo = sys.argv[1] if len(sys.argv) > 1 else "/repo"
base = json.load(open("/root/.vp/BASELINE.json"))
with tempfile.TemporaryDirectory() as d:
    x = os.path.join(d, "j.xml")
    subprocess.run(["/venv/bin/python", "-m", "pytest", "-q", "-p", "no:cacheprovider", "--timeout=900",
                    "--continue-on-collection-errors", "--junitxml=" + x], cwd=repo,
                   stdout=subprocess.DEVNULL, stderr=subprocess.DEVNULL,
                   env=dict(os.environ, PYTHONPATH=repo))
    passed = set()
    for tc in ET.parse(x).getroot().iter("testcase"):
        if not any(c.tag in ("failure", "error", "skipped") for c in tc):
            passed.add(tc.get("classname") + "::" + tc.get("name"))
missing = sorted(set(base["stable_pass"]) - passed)
print(f"stable_pass={len(base['stable_pass'])} passed_now={len(passed)} missing={len(missing)}")
for m in missing:
    print("  MISSING", m)
new = sorted(passed - set(base["stable_pass"]))
print("newly passing:", len(new))
sys.exit(1 if missing else 0)
