#!/venv/bin/python
"""Development helper: archive behaviour-preserving refactorings produced by independent sub-agents under /verif/benign/."""
import glob, json, os, shutil, sys
for d in sorted(glob.glob('/tmp/wt/R*.out/r*')):
    if not os.path.exists(d + '/patch.diff'):
        continue
    area = os.path.basename(os.path.dirname(d)).split('.')[0]
    k = os.path.basename(d)
    dst = f'/verif/benign/{area}-{k}'
    os.makedirs(dst, exist_ok=True)
    shutil.copy(d + '/patch.diff', dst + '/patch.diff')
    for f in ('equiv.py', 'notes.json'):
        if os.path.exists(d + '/' + f):
            shutil.copy(d + '/' + f, dst + '/' + f)
    same = None
    if os.path.exists(d + '/out_clean.txt') and os.path.exists(d + '/out_refactored.txt'):
        same = open(d + '/out_clean.txt').read() == open(d + '/out_refactored.txt').read()
    meta = {"id": f"{area}-{k}", "equivalence_outputs_identical": same, "origin": "independent sub-agent; behaviour-preserving refactoring with an equivalence script run on both trees and the pinned pytest baseline unchanged"}
    json.dump(meta, open(dst + '/meta.json', 'w'), indent=1)
    print(dst, same)
