"""Transfer functions for the numpy / scipy / cvxpy / sklearn / pint / stdlib callables that the
anchored dreye code uses.  One small function per callable; unknown callables fall back to
TOP in every facet except DEPS (union of the arguments) and FRESH (may alias the array args).
This table is the trusted base of the analysis; its inventory is printed in the evidence."""
from __future__ import annotations
import ast

from .values import (Val, U, E, join, join_all, const, mk_term, Shape, S, POLY, ONE, umul, upow, ueq, ustr,
                     dim_mul)
from .extern import (mk, deps_of, is_cvx, alias_of, as_dim, shape_from_arg, broadcast_shapes, matmul_shape,
                     transpose_shape, reduce_shape, const_int, axis_arg, _is_lit)
from . import model as M

MODELS = {}

ALIASES = {
    "numpy.trapz": "numpy.trapezoid",
    "scipy.integrate.trapezoid": "numpy.trapezoid",
    "scipy.integrate.trapz": "numpy.trapezoid",
    "numpy.amin": "numpy.min", "numpy.amax": "numpy.max", "numpy.absolute": "numpy.abs",
    "numpy.around": "numpy.round", "numpy.round_": "numpy.round",
    "scipy.spatial.qhull.QhullError": "scipy.spatial.QhullError",
    "numpy.random.Generator": "numpy.random.Generator",
    "cvxpy.norm": "cvxpy.norm", "cvxpy.pnorm": "cvxpy.norm",
}


def canonical(d):
    return ALIASES.get(d, d)


def model(*names):
    def deco(f):
        for n in names:
            MODELS[n] = f
        return f
    return deco


def arg(args, kws, i, name, default=None):
    if name is not None and name in kws:
        return kws[name]
    if i is not None and i < len(args):
        return args[i]
    return default


def keep(out, src, *tags):
    for k in tags:
        if src.tag(k) is not None:
            out.tags[k] = src.tag(k)


LIN_TAGS = ("deg", "litfactor", "bary")


# =================================================================== constants
def ext_constant(I, e, dotted):
    d = canonical(dotted)
    if d in ("numpy.inf", "numpy.nan", "numpy.pi", "numpy.e", "numpy.newaxis"):
        if d == "numpy.newaxis":
            return const(None)
        v = Val(unit=POLY if d in ("numpy.inf", "numpy.nan") else ONE, shape=S(), sign="POS", fresh="FRESH",
                term=("extconst", d), tags={"isnum": True, "extconst": d})
        return v
    if d.startswith("cvxpy.") and d.split(".")[-1].isupper():
        return Val(tags={"solver_const": d.split(".")[-1], "ext": d}, term=("solver", d))
    if d in ("numpy.float64", "numpy.float32", "numpy.int64", "numpy.ndarray", "numpy.ufunc"):
        return Val(tags={"ext": d, "exttype": d}, term=("ext", d))
    return None


# =================================================================== numpy: conversion / construction
@model("numpy.asarray", "numpy.asanyarray", "numpy.ascontiguousarray")
def m_asarray(I, e, args, kws):
    x = args[0]
    if x.tag("kind") == "pintq" and not x.tag("pint_converted") and not x.tag("physical_constant"):
        I.emit("raw_magnitude", e, of=x)       # np.asarray(quantity) strips the unit (UnitStrippedWarning): the bare number in whatever unit
    if x.items is not None or x.tag("kind") == "list":
        return m_array(I, e, args, kws)
    out = x.copy(term=mk_term("asarray", x.term))
    out.items = None
    if x.known and _is_lit(x):
        out.const = x.const
    else:
        out.const = U
    if x.known and x.const is None:
        return x
    out.tags = dict(x.tags)
    out.tags["kind"] = "ndarray"
    if x.tag("isnum") and (x.shape is None or x.shape.rank == 0):
        # np.asarray(3.0) is a 0-d ndarray: no longer a numbers.Number for isinstance, ndim 0
        out.tags.pop("isnum", None)
        out.tags.pop("np_scalar", None)
        out.tags["ndim"] = 0
        out.tags["was_number"] = True
        out.shape = Shape(())
    out.tags["notstr"] = True
    if "dtype" in kws and x.fresh and x.fresh != "FRESH":
        # asarray(x, dtype=float) copies only when the dtype differs: may still alias
        out.fresh = x.fresh
    _dtype_cast(I, e, out, x, kws.get("dtype") or (args[1] if len(args) > 1 else None))
    return out


def _dtype_cast(I, e, out, x, dt, computed=False):
    """x is cast to a dtype that is derived from ANOTHER value (np.result_type(a, b), y.dtype): possible truncation.
    computed=True: the value is a freshly computed real-valued grid (linspace): ANY dtype taken from input arrays may be integer"""
    if dt is None:
        return
    f = dt.flat()
    if computed and dt.tag("dtype_of") and not dt.known:
        srcs = frozenset(f.data | f.shp)
        out.tags["dtype_from"] = srcs
        I.emit("dtype_cast", e, value=x, dtype_src=srcs, computed=True)
        return
    src = (f.data | f.shp) - {o for o in (x.flat().data | x.flat().shp)}
    if dt.tag("promotes") and x.term is not None and mk_term("dtype", x.term) in dt.tag("promotes"):
        return          # np.result_type(x.dtype, …): a promotion that includes x's own type never narrows x
    if src and not dt.tag("exttype") and not (dt.known):
        out.tags["dtype_from"] = frozenset(src)
        out.shp = out.shp | f.data | f.shp
        I.emit("dtype_cast", e, value=x, dtype_src=frozenset(src))


@model("numpy.array")
def m_array(I, e, args, kws):
    x = args[0]
    f = x.flat()
    out = mk([x], fresh="FRESH", term=mk_term("array", x.term), tags={"kind": "ndarray", "notstr": True})
    el = x.tag("elem")
    src = None
    if x.items is not None and x.items:
        src = join_all(x.items)
    elif el is not None:
        src = el
    if src is not None:
        sf = src.flat()
        out.unit, out.frame, out.sign = sf.unit, sf.frame, sf.sign
        n = None
        if x.items is not None:
            n = (f"#{len(x.items)}",) if len(x.items) != 1 else ()
        if sf.shape is not None and not sf.shape.ell:
            out.shape = Shape((n,) + tuple(sf.shape.axes))
        keep(out, sf, *LIN_TAGS)
    else:
        out.unit, out.frame, out.sign, out.shape = f.unit, f.frame, f.sign, (f.shape if x.items is None and x.tag("kind") != "list" else None)
        keep(out, f, *LIN_TAGS)
    lo = x.tag("listof")
    if lo is not None and lo.tag("product_of") is not None:
        out.shape = Shape([None, as_dim(lo.tag("product_of")[1])])
        out.tags["ndim"] = 2
        lits = lo.tag("product_of")[0]
        if lits is not None and sorted(float(c) for c in lits) == [0.0, 1.0]:
            out.tags["poly"] = {("corner",): 1}       # entries are the corner indicator t ∈ {0, 1}
            out.tags["corner_array"] = True
    rep = x.tag("n_repeat")
    if rep is not None and el is not None:
        d = as_dim(rep)
        es = el.flat().shape
        if es is not None and not es.ell:
            out.shape = Shape((d,) + tuple(es.axes))
    return out


@model("numpy.atleast_1d", "numpy.atleast_2d")
def m_atleast(I, e, args, kws):
    x = args[0]
    nd = 1 if "1d" in M.norm_text(e.func) else 2
    out = x.copy(term=mk_term("atleast", nd, x.term))
    out.items = None
    out.const = U
    out.tags = dict(x.tags, kind="ndarray", notstr=True)
    out.tags.pop("isnum", None)
    if x.known and _is_lit(x):
        out.shape = Shape([()] * nd)
        out.fresh = "FRESH"
        out.tags["ndim"] = nd
        out.unit = x.unit
        return out
    s = x.shape
    if s is not None and not s.ell:
        if len(s.axes) < nd:
            out.shape = Shape([()] * (nd - len(s.axes)) + list(s.axes))
        out.tags["ndim"] = max(nd, len(s.axes))
    elif x.tag("ndim") is not None:
        out.tags["ndim"] = max(nd, x.tag("ndim"))
        if x.tag("ndim") < nd:
            out.shape = None
    elif s is not None and s.ell:
        out.shape = s
    else:
        out.tags.pop("ndim", None)
    if x.tag("isnum"):
        out.shape = Shape([()] * nd)
        out.fresh = "FRESH"
    return out


def _filled(I, e, args, kws, unit, sign, zero=False):
    shp = arg(args, kws, 0, "shape")
    out = mk([shp] if shp is not None else [], fresh="FRESH", unit=unit, sign=sign,
             tags={"kind": "ndarray", "notstr": True})
    out.shp = out.shp | out.data
    out.data = E
    out.shape = shape_from_arg(shp)
    if zero:
        out.tags["zero_init"] = True
    if out.shape is not None:
        out.tags["ndim"] = len(out.shape.axes)
    dt = kws.get("dtype") or (args[1] if len(args) > 1 else None)
    if dt is not None and dt.tag("dtype_of") and not dt.known:
        # np.zeros(shape, dtype=B.dtype): the element type is inherited from another array
        out.tags["dtype_from"] = frozenset(dt.flat().data | dt.flat().shp)
    return out


@model("numpy.zeros", "numpy.empty")
def m_zeros(I, e, args, kws):
    return _filled(I, e, args, kws, POLY, "NONNEG", zero=True)


@model("numpy.ones")
def m_ones(I, e, args, kws):
    out = _filled(I, e, args, kws, ONE, "POS")
    out.tags["ones"] = True
    return out


@model("numpy.zeros_like", "numpy.ones_like", "numpy.empty_like")
def m_like(I, e, args, kws):
    x = args[0]
    nm = M.norm_text(e.func)
    out = Val(shp=x.flat().data | x.flat().shp, ctrl=x.flat().ctrl, shape=x.shape, fresh="FRESH",
              unit=POLY if ("zeros" in nm or "empty" in nm) else ONE, sign="NONNEG",
              tags={"kind": "ndarray", "zero_init": ("zeros" in nm or "empty" in nm)})
    shp = kws.get("shape")
    if shp is not None:
        out.shape = shape_from_arg(shp)
        out.shp |= shp.flat().data | shp.flat().shp
    if "dtype" not in kws:
        # the element type is inherited from the prototype array
        out.tags["dtype_from"] = frozenset(x.flat().data)
    elif kws["dtype"].tag("dtype_of") and not kws["dtype"].known:
        out.tags["dtype_from"] = frozenset(kws["dtype"].flat().data | kws["dtype"].flat().shp)
    return out


@model("numpy.eye", "numpy.identity")
def m_eye(I, e, args, kws):
    n = args[0]
    d = as_dim(n)
    out = Val(shp=n.flat().data | n.flat().shp, ctrl=n.flat().ctrl, shape=Shape([d, d]), unit=ONE, sign="NONNEG",
              fresh="FRESH", tags={"kind": "ndarray", "ndim": 2, "eye": d})
    return out


@model("numpy.pad")
def m_pad(I, e, args, kws):
    """np.pad(x, pad_width): zero rows before / after along the first axis"""
    x = args[0]
    out = mk([x] + args[1:], fresh="FRESH", unit=x.unit, sign=x.sign, tags={"kind": "ndarray", "notstr": True})
    out.frame = x.frame
    if x.shape is not None:
        out.shape = Shape((None,) + tuple(x.shape.axes[1:]), x.shape.ell) if x.shape.axes else None
    first = None
    if len(e.args) > 1:
        for n_ in ast.walk(e.args[1]):
            if isinstance(n_, ast.Tuple) and len(n_.elts) == 2 and not any(isinstance(k_, (ast.Tuple, ast.List)) for k_ in n_.elts):
                if first is None or (n_.lineno, n_.col_offset) < (first.lineno, first.col_offset):
                    first = n_
    if first is not None:
        before, after = I.ev(first.elts[0]), I.ev(first.elts[1])
        I.emit("np_pad", e, arr=x, before=before, after=after, result=out)
    return out


@model("numpy.kron")
def m_kron(I, e, args, kws):
    """np.kron(a, b): entry (i_a·rows_b + i_b, j_a·cols_b + j_b) = a[i_a, j_a]·b[i_b, j_b] — the FIRST factor is the major (block) index.
    kron(eye(k), ones((1, n))) sums k contiguous blocks of n; kron(ones((1, n)), eye(k)) sums entries k apart (interleaved)."""
    a, b = args[0], args[1]
    out = mk([a, b], fresh="FRESH", unit=umul(a.unit, b.unit, 1), tags={"kind": "ndarray", "ndim": 2})
    sa_, sb_ = a.shape, b.shape
    if sa_ is not None and sb_ is not None and not sa_.ell and not sb_.ell and len(sa_.axes) == 2 and len(sb_.axes) == 2 \
            and all(x is not None for x in sa_.axes + sb_.axes):
        out.shape = Shape([dim_mul(sa_.axes[0], sb_.axes[0]), dim_mul(sa_.axes[1], sb_.axes[1])])
    for first, (x, y) in ((True, (a, b)), (False, (b, a))):
        if x.tag("eye") is not None and y.tag("ones") and y.shape is not None and len(y.shape.axes) == 2 and y.shape.axes[0] == ():
            # a block-summation matrix: which index of the summed vector is the block (major) index?
            out.tags["group_sum"] = {"groups": x.tag("eye"), "per_group": y.shape.axes[1], "contiguous": first}
            I.emit("group_sum_matrix", e, groups=x.tag("eye"), per_group=y.shape.axes[1], contiguous=first, result=out)
    return out


@model("numpy.arange")
def m_arange(I, e, args, kws):
    out = mk(args, fresh="FRESH", tags={"kind": "ndarray", "ndim": 1})
    us = [a.unit for a in args if a.unit not in (POLY,)]
    out.unit = us[0] if us and all(u == us[0] for u in us) else None
    if len(args) == 1 and as_dim(args[0]) is not None:
        out.shape = Shape([as_dim(args[0])])
        out.unit = ONE
        out.shp |= out.data
        out.data = E
        out.tags["index_range"] = True
        out.tags["asc_range"] = args[0]                             # arange(n): 0, …, n-1
    else:
        out.shape = Shape([None])
    out.tags["arange"] = True
    if len(args) == 1 and args[0].tag("pow2_of") is not None:
        out.tags["pow2_range"] = args[0].tag("pow2_of")            # arange(2 ** n)
        out.shp |= out.data
        out.data = E
        out.unit = ONE
    if len(args) == 3 and all(a.known and a.const == -1 for a in args[1:]):
        de = args[0].tag("dimexpr")                                 # arange(n - 1, -1, -1): n-1, …, 0
        if de is not None and de[0] == "sub" and de[2].known and de[2].const == 1 and (as_dim(de[1]) is not None or de[1].tag("kind") == "int"):
            out.tags["desc_range"] = de[1]
            out.shape = Shape([as_dim(de[1])])
            out.shp |= out.data
            out.data = E
            out.unit = ONE
    return out


@model("numpy.linspace")
def m_linspace(I, e, args, kws):
    a, b = args[0], args[1]
    n = arg(args, kws, 2, "num")
    out = mk(args + list(kws.values()), fresh="FRESH", tags={"kind": "ndarray", "ndim": 1})
    ok, u = ueq(a.unit, b.unit) if (a.unit is not None and b.unit is not None) else (True, None)
    if not ok:
        I.type_error(e, "QTY", f"linspace between [{ustr(a.unit)}] and [{ustr(b.unit)}]")
        u = None
    out.unit = u
    out.shape = Shape([as_dim(n) if n is not None else None])
    ep = kws.get("endpoint")
    out.tags["linspace"] = "open" if (ep is not None and ep.known and ep.const is False) else ("closed" if ep is None or ep.known else None)
    out.tags["grid_ends"] = (a, b)
    I.emit("linspace", e, start=a, stop=b, num=n, result=out)
    dt = kws.get("dtype")
    if dt is not None and not (dt.known and dt.const is None):
        _dtype_cast(I, e, out, Val(data=a.flat().data | b.flat().data), dt, computed=True)
    rs = kws.get("retstep")
    if rs is not None and rs.known and rs.const:
        step = mk(args + list(kws.values()), unit=u, shape=S())
        return Val(items=[out, step], tags={"kind": "tuple"})
    return out


@model("numpy.broadcast_to")
def m_broadcast_to(I, e, args, kws):
    x, shp = args[0], arg(args, kws, 1, "shape")
    out = x.copy(term=mk_term("broadcast_to", x.term))
    out.const = U
    out.items = None
    out.shp = x.shp | shp.flat().data | shp.flat().shp
    out.shape = shape_from_arg(shp)
    out.tags = dict(x.tags, kind="ndarray", notstr=True)
    out.tags.pop("isnum", None)
    if out.shape is not None:
        out.tags["ndim"] = len(out.shape.axes)
        if x.shape is not None and not x.shape.ell:
            # the source must broadcast to the target: same axis role (or 1) on every aligned axis
            sa, ta = list(x.shape.axes)[::-1], list(out.shape.axes)[::-1]
            for i, d in enumerate(sa):
                if i < len(ta) and d not in ((), None) and ta[i] not in ((), None) and d != ta[i]:
                    I.type_error(e, "SHAPE", f"np.broadcast_to lays axis {'⊗'.join(d)} of {x.shape} along axis "
                                             f"{'⊗'.join(ta[i])} of {out.shape}", shapes=(x.shape, out.shape))
                    break
    if x.known:
        out.fresh = "FRESH"
    out.tags["readonly_view"] = True
    return out


@model("numpy.copy")
def m_copy(I, e, args, kws):
    x = args[0]
    out = x.copy(term=mk_term("copy", x.term), fresh="FRESH")
    out.items = None
    if isinstance(x.fresh, tuple) and x.fresh[1] and x.tag("kind") == "ndarray":
        out.tags["dtype_from"] = frozenset(x.fresh[1])        # a copy keeps the element type of the caller's array
        out.tags["dtype_copy"] = True
    return out


@model("numpy.astype")
def m_astype(I, e, args, kws):
    x = args[0]
    cp_ = kws.get("copy")
    aliasing = cp_ is not None and cp_.known and cp_.const is False      # astype(..., copy=False) returns the SAME array when the dtype matches
    out = x.copy(term=mk_term("astype", x.term), fresh=(x.fresh if aliasing else "FRESH"))
    out.items = None
    dt = args[1] if len(args) > 1 else kws.get("dtype")
    _dtype_cast(I, e, out, x, dt, computed=bool(x.tag("floating")))
    if dt is not None and (dt.tag("builtin") == "int" or dt.tag("exttype") in ("numpy.int64", "numpy.int32", "numpy.intp") or (dt.known and dt.const in ("int", "int64", "i8"))) and x.tag("sum_dim") is None and not x.tag("indices") and x.tag("kind") == "ndarray" \
            and not x.tag("boolarr"):
        out.tags["rounded"] = "trunc"          # truncation of a real-valued array: sums are not preserved
    if x.tag("boolarr") and dt is not None and not (dt.tag("builtin") == "bool" or (dt.known and dt.const in ("bool", "?"))
                                                    or dt.tag("exttype") in ("numpy.bool_", "numpy.bool")):
        # a boolean mask cast to numbers is the array of 0s and 1s: used as an index it selects positions 0 and 1, not the masked entries
        out.tags.pop("boolarr", None)
        out.tags["mask_as_numbers"] = True
    return out


@model("numpy.result_type", "numpy.promote_types", "numpy.common_type")
def m_result_type(I, e, args, kws):
    out = mk(args)
    out.shp |= out.data
    out.data = E
    out.tags["dtype_of"] = True
    out.tags["promotes"] = [a_.term for a_ in args if a_.term is not None]
    fl = {"float", "float64", "float32", "float16", "float_", "double", "longdouble", "complex128", "complex64", "complex"}
    if any((isinstance(a_, ast.Attribute) and a_.attr in fl) or (isinstance(a_, ast.Name) and a_.id in fl)
           or (isinstance(a_, ast.Constant) and isinstance(a_.value, (float, str)) and str(a_.value).lstrip("<=>|").startswith(("f", "d", "float", "c")))
           for a_ in e.args):
        # promoted with a floating type: the result is floating whatever the inputs are — not an inherited (possibly integer) dtype
        out.tags["dtype_of"] = False
        out.const = "floating-dtype"
    return out


@model("numpy.full")
def m_full(I, e, args, kws):
    shp = arg(args, kws, 0, "shape")
    fill = arg(args, kws, 1, "fill_value")
    out = mk([fill] if fill is not None else [], fresh="FRESH", tags={"kind": "ndarray"})
    if shp is not None:
        out.shp |= shp.flat().data | shp.flat().shp
        out.shape = shape_from_arg(shp)
    if fill is not None:
        out.unit, out.frame, out.sign = fill.unit, fill.frame, fill.sign
        if fill.tag("extremum") is not None:
            out.tags["filled_with_extremum"] = fill.tag("extremum")
            out.tags["extremum"] = fill.tag("extremum")
        if fill.tag("xsample"):
            out.tags["xsample"] = True
        dt = kws.get("dtype") or (args[2] if len(args) > 2 else None)
        if dt is None and not fill.known and not fill.tag("floating") and fill.flat().data:
            # np.full(shape, x) takes the element type of x: an integer x makes an integer buffer
            out.tags["dtype_from"] = frozenset(fill.flat().data)
    return out


@model("numpy.indices")
def m_indices(I, e, args, kws):
    """np.indices(dims): the coordinate grids of a box.  np.indices((2,) * n) enumerates the corners of the n-cube."""
    out = mk(args + list(kws.values()), fresh="FRESH", unit=ONE, sign="NONNEG", tags={"kind": "ndarray", "notstr": True})
    out.shp = out.shp | out.data
    out.data = E
    a0 = e.args[0] if e.args else None
    if isinstance(a0, ast.BinOp) and isinstance(a0.op, ast.Mult):
        tup, cnt = (a0.left, a0.right) if isinstance(a0.left, ast.Tuple) else (a0.right, a0.left)
        if isinstance(tup, ast.Tuple) and len(tup.elts) == 1 and isinstance(tup.elts[0], ast.Constant) and tup.elts[0].value == 2:
            out.tags["indices_grid"] = I.ev(cnt)
    return out


@model("numpy.gradient")
def m_gradient(I, e, args, kws):
    x = args[0]
    out = mk(args, fresh="FRESH", unit=x.unit, shape=x.shape, tags={"kind": "ndarray", "gradient_of": x})
    I.emit("np_gradient", e, arg=x)
    return out


@model("numpy.ravel", "numpy.flatten", "numpy.squeeze")
def m_ravel(I, e, args, kws):
    x = args[0]
    name = M.norm_text(e.func).split(".")[-1]
    out = x.copy(term=mk_term(name, x.term))
    out.items = None
    out.const = U
    if name == "flatten":
        out.fresh = "FRESH"
    s = x.shape
    od = kws.get("order") or (args[1] if len(args) > 1 and name != "squeeze" else None)
    if name != "squeeze" and od is not None and od.known and od.const in ("K", "A", "F") and (s is None or s.ell or len(s.axes) > 1):
        I.type_error(e, "SHAPE", (f"{name}(order={od.const!r}) flattens in an order that depends on the memory layout of the array (a "
                                  f"transposed view / Fortran-ordered input is legal): the sample-major stacking (row 0, row 1, …) is not "
                                  f"guaranteed") if od.const != "F" else
                                 f"{name}(order='F') flattens column-major: rows of different samples are interleaved", sub="stack")
    if name == "squeeze":
        out.shape = None
    elif s is not None and not s.ell:
        d = ()
        for a in s.axes:
            d = dim_mul(d, a)
        out.shape = Shape([d])
        out.tags["ravel_of"] = s            # row-major (C order) flattening of s
        out.tags["layout"] = "C"
    else:
        out.shape = Shape([None])
    out.tags["ndim"] = 1 if name != "squeeze" else None
    return out


@model("numpy.reshape")
def m_reshape(I, e, args, kws):
    x = args[0]
    if len(args) == 2:
        shp = args[1]
    else:
        shp = Val(items=list(args[1:]), tags={"kind": "tuple"})
    out = x.copy(term=mk_term("reshape", x.term))
    out.items = None
    out.const = U
    out.shp = x.shp | shp.flat().data | shp.flat().shp
    order = kws.get("order")
    layout = "C"
    if order is not None:
        layout = order.const if order.known else None
    news = None
    if shp.items is not None:
        dims = []
        for it in shp.items:
            c = const_int(it)
            if c == -1:
                dims.append("infer")
            else:
                dims.append(as_dim(it))
        # infer the -1 extent from the source size
        if "infer" in dims and x.shape is not None and not x.shape.ell and all(a is not None for a in x.shape.axes):
            total = ()
            for a in x.shape.axes:
                total = dim_mul(total, a)
            rest = ()
            okk = True
            for d in dims:
                if d == "infer":
                    continue
                if d is None:
                    okk = False
                    break
                rest = dim_mul(rest, d)
            if okk:
                t = list(total)
                for sdim in rest:
                    if sdim in t:
                        t.remove(sdim)
                    else:
                        okk = False
                        break
                dims = [tuple(t) if (d == "infer" and okk) else (None if d == "infer" else d) for d in dims]
            else:
                dims = [None if d == "infer" else d for d in dims]
        else:
            dims = [None if d == "infer" else d for d in dims]
        news = Shape(dims)
    out.shape = news
    ig = x.tag("indices_grid")
    if ig is not None:
        out.tags.pop("indices_grid", None)
        # np.indices((2,)*n).reshape(n, 2**n): row k holds the k-th binary digit of the column number — all 2^n columns
        if news is not None and len(news.axes) == 2 and as_dim(ig) is not None and news.axes[0] == as_dim(ig) and layout == "C" \
                and shp.items is not None and (shp.items[1].tag("pow2_of") is not None and shp.items[1].tag("pow2_of").term == ig.term
                                               or const_int(shp.items[1]) == -1):
            out.tags["indices_flat"] = ig
    out.tags["reshape_layout"] = layout
    out.tags["reshape_from"] = x.shape
    I.emit("np_reshape", e, src=x, shape=news, layout=layout)
    out.tags["ndim"] = len(news.axes) if news is not None else None
    return out


@model("numpy.linalg.svd", "scipy.linalg.svd", "numpy.linalg.eigh", "numpy.linalg.eig", "numpy.linalg.qr", "scipy.linalg.qr",
       "scipy.linalg.eigh")
def m_factorisation(I, e, args, kws):
    """orthogonal factors of a matrix: a row/column SLICE of one of them spans a proper subspace (rank truncation)"""
    name = M.norm_text(e.func).split(".")[-1]
    n = {"svd": 3, "eigh": 2, "eig": 2, "qr": 2}[name]
    cu = kws.get("compute_uv")
    if name == "svd" and cu is not None and cu.known and cu.const is False:
        return mk(args, fresh="FRESH", unit=args[0].unit, sign="NONNEG", tags={"kind": "ndarray"})
    items = []
    for i in range(n):
        it = mk(args, fresh="FRESH", tags={"kind": "ndarray", "basis_factor": True})
        if (name == "svd" and i == 1) or (name in ("eigh", "eig") and i == 0):
            it.tags.pop("basis_factor")
            it.unit = args[0].unit if name == "svd" else None
            if name == "svd":
                it.sign = "NONNEG"
        items.append(it)
    return mk(args, items=items, tags={"kind": "tuple"})


@model("numpy.transpose")
def m_transpose(I, e, args, kws):
    x = args[0]
    out = x.copy(term=mk_term("T", x.term))
    out.shape = transpose_shape(x.shape) if len(args) == 1 and not kws else None
    return out


@model("numpy.diag", "numpy.diagonal", "numpy.ndarray.diagonal")
def m_diag(I, e, args, kws):
    """np.diag / np.diagonal: the diagonal of a matrix (or the diagonal matrix of a vector) — same unit, fresh array"""
    x = args[0]
    out = mk([x], fresh="FRESH", unit=x.unit, sign=None, tags={"kind": "ndarray", "notstr": True, "diag_of": x})
    out.frame = x.frame
    sh = x.shape
    if sh is not None and len(sh.axes) == 2 and not sh.ell:
        out.shape = Shape((sh.axes[-1],))
    elif sh is not None and len(sh.axes) == 1 and not sh.ell and "diagonal" not in M.norm_text(e.func):
        out.shape = Shape((sh.axes[0], sh.axes[0]))
    nd_ = len(sh.axes) if (sh is not None and not sh.ell) else x.tag("ndim")
    if "diagonal" in M.norm_text(e.func) or nd_ == 2 or nd_ is None:
        # the diagonal of a matrix forgets its off-diagonal entries: what follows depends on the matrix only through that projection
        out = lossy(I, e, out, x, "diag")
    return out


# =================================================================== numpy: elementwise
def lossy(I, e, out, x, how):
    """a non-injective elementwise map (clamp, rounding) of x: what is computed from the result depends on x only THROUGH that map.
    The data origins of x are renamed o -> o|how, so that every rule demanding 'o reaches …' reports the detour."""
    xd = x.flat().data
    ren = frozenset(o if "|" in o or o.startswith(("sol#", "par#", "xsample@", "pick@", "entropy@")) else f"{o}|{how}" for o in xd)
    out.data = frozenset(o for o in out.data if o not in xd) | ren
    I.emit("lossy_map", e, of=x, how=how)
    return out


def _elementwise(I, e, xs, unit=None, sign=None, frame=None, lin_from=None):
    out = mk(xs, fresh="FRESH", tags={"kind": "ndarray", "notstr": True})
    out.shape = broadcast_shapes(I, e, xs)
    out.unit, out.sign, out.frame = unit, sign, frame
    if lin_from is not None:
        keep(out, lin_from, *LIN_TAGS)
    return out


@model("numpy.abs", "numpy.fabs")
def m_abs(I, e, args, kws):
    x = args[0]
    out = _elementwise(I, e, [x], unit=x.unit, sign="NONNEG", frame=None)
    if x.sign not in ("NONNEG", "POS") and x.tag("extremum") is not None:
        I.emit("abs_of_extremum", e, of=x, which=x.tag("extremum")[0])      # |min(…)| is −min(…) only while the minimum is non-positive
    if x.sign not in ("NONNEG", "POS") and x.tag("integrated"):
        # |∫ f| forgets the sign of the integral: the functional is no longer linear in its integrand
        lossy(I, e, out, x, "abs")
        I.emit("nonlinear_after_integration", e, of=x, how="abs")
    return out


@model("numpy.sqrt")
def m_sqrt(I, e, args, kws):
    x = args[0]
    u = None
    if isinstance(x.unit, dict) and all(v % 2 == 0 for v in x.unit.values()):
        u = {k: v // 2 for k, v in x.unit.items()}
    elif x.unit == POLY:
        u = POLY
    return _elementwise(I, e, [x], unit=u, sign="NONNEG")


@model("numpy.square")
def m_square(I, e, args, kws):
    x = args[0]
    return _elementwise(I, e, [x], unit=upow(x.unit, 2), sign="NONNEG")


@model("numpy.exp", "numpy.log", "numpy.log10", "numpy.log2", "numpy.floor", "numpy.ceil", "numpy.sign",
       "numpy.cos", "numpy.sin", "numpy.arccos", "numpy.arctan2", "numpy.tanh")
def m_transc(I, e, args, kws):
    name = M.norm_text(e.func).split(".")[-1]
    u = ONE
    if name in ("floor", "ceil"):
        u = args[0].unit
    out = _elementwise(I, e, args, unit=u)
    if name in ("floor", "ceil"):
        out.tags["rounded"] = "nearest" if (name == "floor" and args[0].tag("plus_half")) else name     # floor(x + 0.5)
    if name == "exp":
        out.sign = "POS"
    return out


@model("numpy.round", "numpy.rint", "numpy.trunc", "numpy.fix")
def m_round(I, e, args, kws):
    x = args[0]
    out = _elementwise(I, e, [x], unit=x.unit, sign=x.sign, frame=x.frame)
    nm = M.norm_text(e.func).split(".")[-1]
    out.tags["rounded"] = "nearest" if nm in ("round", "around", "round_", "rint") else "trunc"
    out.tags.pop("sum_dim", None)
    if x.tag("kind") == "ndarray" and not x.known:
        lossy(I, e, out, x, "round")          # a quantisation: different inputs, same output
    return out


@model("numpy.isfinite", "numpy.isnan", "numpy.isinf", "numpy.isneginf", "numpy.isposinf", "numpy.logical_not")
def m_pred(I, e, args, kws):
    out = _elementwise(I, e, args[:1], unit=ONE)
    out.tags["boolarr"] = True
    out.tags["pred"] = (M.norm_text(e.func).split(".")[-1], args[0])
    return out


@model("numpy.isclose")
def m_isclose(I, e, args, kws):
    a, b = args[0], args[1]
    out = _elementwise(I, e, [a, b], unit=ONE)
    out.tags["boolarr"] = True
    # an absolute tolerance applied to a dimensioned quantity: scale dependent
    dimd = [v for v in (a, b) if isinstance(v.unit, dict) and v.unit]
    I.emit("abs_tolerance", e, operands=(a, b), dimensioned=bool(dimd),
           atol=kws.get("atol"), rtol=kws.get("rtol"))
    return out


@model("numpy.allclose", "numpy.array_equal")
def m_allclose(I, e, args, kws):
    a, b = args[0], args[1]
    out = mk([a, b], tags={"kind": "bool"}, shape=S())
    if "allclose" in M.norm_text(e.func):
        dimd = [v for v in (a, b) if isinstance(v.unit, dict) and v.unit]
        I.emit("abs_tolerance", e, operands=(a, b), dimensioned=bool(dimd), atol=kws.get("atol"), rtol=kws.get("rtol"))
    return out


@model("numpy.minimum", "numpy.maximum", "numpy.fmin", "numpy.fmax")
def m_minmax2(I, e, args, kws):
    a, b = args[0], args[1]
    u = None
    if a.unit is not None and b.unit is not None:
        ok, u = ueq(a.unit, b.unit)
        if not ok:
            I.type_error(e, "QTY", f"{M.norm_text(e.func)} of [{ustr(a.unit)}] and [{ustr(b.unit)}]")
            u = None
    out = _elementwise(I, e, [a, b], unit=u, frame=a.frame if a.frame == b.frame else None)
    from .values import join_sign
    out.sign = join_sign(a.sign, b.sign)
    for x_, bound in ((a, b), (b, a)):
        ex = bound.tag("extremum")
        if ex is not None and (bound.shape is None or bound.shape.rank == 0) and ex[1].term is not None and ex[1].term == x_.term:
            # np.maximum(t, np.max(t)): every entry is lifted to the one extremum of the whole vector
            out.tags["filled_with_extremum"] = ex
    for x_, bound in ((a, b), (b, a)):
        if bound.known and _num_lit(bound.const) and not x_.known and x_.tag("kind") == "ndarray":
            lossy(I, e, out, x_, "clamp")          # np.maximum(x, 0): x clamped at a constant
    for acc, new in ((a, b), (b, a)):
        if acc.tag("zero_init") and acc.unit == POLY and new.tag("extremum") is not None:
            # a running extremum kept in a buffer that starts at 0: the value 0 takes part like a sample of its own
            name = M.norm_text(e.func).split(".")[-1]
            I.emit("extremum", e, name=name, arg=new.tag("extremum")[1], result=out, initial=acc)
    return out


def _num_lit(c):
    return isinstance(c, (int, float)) and not isinstance(c, bool)


@model("numpy.where")
def m_where(I, e, args, kws):
    if len(args) == 1:
        return mk(args, fresh="FRESH")
    c, a, b = args
    # the configuration decides the mask: np.where(np.isfinite(ub), ub, v) with ub declared all-finite / all-infinite
    pred = c.tag("pred")
    if pred is not None and pred[0] == "isfinite" and pred[1].tag("finite") in (True, False):
        pick = a if pred[1].tag("finite") else b
        out = _elementwise(I, e, [c, pick], unit=pick.unit, frame=pick.frame, sign=pick.sign)
        keep(out, pick, *LIN_TAGS)
        if pick.known and _num_lit(pick.const):
            out.tags["poly"] = {(): float(pick.const)}
            out.tags["deg"] = {}
        out.tags["where_decided"] = pred[1].tag("finite")
        return out
    u = None
    if a.unit is not None and b.unit is not None:
        ok, u = ueq(a.unit, b.unit)
        if not ok:
            u = None
    out = _elementwise(I, e, [c, a, b], unit=u, frame=a.frame if a.frame == b.frame else None)
    out.tags["row_select"] = True          # entries chosen by a mask: some rows are explicitly given another value
    # a selection ON THE CORNER INDICATOR t ∈ {0, 1}: np.where(t > 0, a, b) ≡ t·a + (1 − t)·b on those two literals — the affine facet of
    # the corner map is kept, so that "t = 0 ↦ lb, t = 1 ↦ ub" stays decidable when the map is written as a selection
    from .extern import poly_of, poly_binop
    cm = c.tag("cmp")
    if cm is not None and cm[1].tag("poly") == {("corner",): 1} and cm[2].known and isinstance(cm[2].const, (int, float)):
        import operator as _op
        f = {"Gt": _op.gt, "GtE": _op.ge, "Lt": _op.lt, "LtE": _op.le, "Eq": _op.eq, "NotEq": _op.ne}.get(cm[0])
        pa, pb = poly_of(a), poly_of(b)
        if f is not None and pa is not None and pb is not None and f(0, cm[2].const) != f(1, cm[2].const):
            t1 = f(1, cm[2].const)
            hi, lo = (pa, pb) if t1 else (pb, pa)          # value at t = 1, value at t = 0
            poly = dict(lo)
            for m_, c_ in hi.items():
                k_ = tuple(sorted(m_ + ("corner",)))
                poly[k_] = poly.get(k_, 0) + c_
            for m_, c_ in lo.items():
                k_ = tuple(sorted(m_ + ("corner",)))
                poly[k_] = poly.get(k_, 0) - c_
            out.tags["poly"] = {m_: c_ for m_, c_ in poly.items() if c_ != 0}
    # np.where(x > 0, x, nan) : positive-or-NaN mask idiom
    cmp_ = c.tag("cmp")
    if cmp_ is not None and cmp_[0] in ("Gt",) and cmp_[2].known and cmp_[2].const == 0 and cmp_[1].term == a.term \
            and b.tag("extconst") == "numpy.nan":
        out.sign = "POS"
        out.tags["pos_or_nan"] = True
    return out


@model("numpy.clip")
def m_clip(I, e, args, kws):
    x = args[0]
    for b in args[1:3]:
        if b.unit is not None and x.unit is not None:
            ok, _ = ueq(x.unit, b.unit)
            if not ok:
                I.type_error(e, "QTY", f"clip of [{ustr(x.unit)}] at a bound of [{ustr(b.unit)}]")
    out = _elementwise(I, e, args, unit=x.unit, frame=x.frame)
    if x.tag("kind") == "ndarray" and not x.known:
        lossy(I, e, out, x, "clamp")
    return out


@model("numpy.multiply")
def m_npmul(I, e, args, kws):
    from .extern import binop
    return binop(I, e, ast.Mult(), args[0], args[1])


@model("numpy.add")
def m_npadd(I, e, args, kws):
    from .extern import binop
    return binop(I, e, ast.Add(), args[0], args[1])


@model("numpy.subtract")
def m_npsub(I, e, args, kws):
    from .extern import binop
    return binop(I, e, ast.Sub(), args[0], args[1])


@model("numpy.divide", "numpy.true_divide")
def m_npdiv(I, e, args, kws):
    from .extern import binop
    return binop(I, e, ast.Div(), args[0], args[1])


@model("numpy.matmul", "numpy.dot")
def m_npmatmul(I, e, args, kws):
    from .extern import binop
    return binop(I, e, ast.MatMult(), args[0], args[1])


@model("numpy.tensordot")
def m_tensordot(I, e, args, kws):
    """np.tensordot(a, b, axes=([i], [j])): contract axis i of a with axis j of b; the remaining axes of a come first, then those of b.
    For a matrix operand this is a matrix product with that operand transposed where needed."""
    from .extern import binop, const_int
    a, b = args[0], args[1]
    ax = kws.get("axes") or (args[2] if len(args) > 2 else None)

    def one(v):
        if v is None:
            return None
        if v.items is not None and len(v.items) == 1:
            return const_int(v.items[0])
        return const_int(v)
    ia = ib = None
    if ax is not None and ax.items is not None and len(ax.items) == 2:
        ia, ib = one(ax.items[0]), one(ax.items[1])
    elif ax is not None and const_int(ax) == 1:
        ia, ib = -1, 0

    def as_last(v, i):
        """v with its contracted axis moved last (matrices only when a move is needed); None if not expressible"""
        r = v.shape.rank if v.shape is not None and not v.shape.ell else v.tag("ndim")
        if i is None:
            return None
        if i == -1 or (r is not None and i == r - 1):
            return v
        if r == 2 and i in (0, -2):
            t = v.copy(term=mk_term("T", v.term))
            t.shape = transpose_shape(v.shape)
            t.items = None
            return t
        return None

    def as_first(v, j):
        r = v.shape.rank if v.shape is not None and not v.shape.ell else v.tag("ndim")
        if j is None:
            return None
        if j == 0 or (r is not None and j == -r):
            return v if (r is None or r <= 2) else None
        if r == 2 and j in (1, -1):
            t = v.copy(term=mk_term("T", v.term))
            t.shape = transpose_shape(v.shape)
            t.items = None
            return t
        if r == 1 and j in (0, -1):
            return v
        return None
    la, fb = as_last(a, ia), as_first(b, ib)
    if la is not None and fb is not None:
        return binop(I, e, ast.MatMult(), la, fb)
    out = mk([a, b], fresh="FRESH", unit=umul(a.unit, b.unit, 1), tags={"kind": "ndarray", "notstr": True})
    # general rank: ALL remaining axes of a come before ALL remaining axes of b (no batch axes are paired, unlike `@`)
    if ia is not None and ib is not None and a.shape is not None and b.shape is not None and not a.shape.ell and not b.shape.ell \
            and -a.shape.rank <= ia < a.shape.rank and -b.shape.rank <= ib < b.shape.rank:
        aa, bb = list(a.shape.axes), list(b.shape.axes)
        ca, cb = aa.pop(ia), bb.pop(ib)
        if ca is not None and cb is not None and ca != cb and ca != () and cb != ():
            I.type_error(e, "SHAPE", f"np.tensordot contracts axis {dim_str(ca)} of {a.shape} with axis {dim_str(cb)} of {b.shape}")
        out.shape = Shape(tuple(aa) + tuple(bb))
    return out


@model("numpy.power")
def m_nppow(I, e, args, kws):
    from .extern import binop
    return binop(I, e, ast.Pow(), args[0], args[1])


# =================================================================== numpy: reductions
def _reduce(I, e, args, kws, unit_of=lambda x: x.unit, sign_of=lambda x: x.sign, frame_of=lambda x: x.frame,
            lin=True, axis_pos=1):
    x = args[0]
    ax = axis_arg(args, kws, axis_pos, None)
    kd = kws.get("keepdims")
    keep_ = bool(kd is not None and kd.known and kd.const)
    if kd is not None and not kd.known:
        keep_ = None
    extra = [v for k, v in kws.items() if k not in ("axis", "keepdims")] + list(args[1:])
    out = mk([x] + extra, fresh="FRESH", tags={"kind": "ndarray", "notstr": True})
    src = x
    if x.items is not None or x.tag("kind") == "list":
        src = m_array(I, e, [x], {})
    out.shape = reduce_shape(src.shape, ax, keep_) if keep_ is not None else None
    out.unit, out.sign, out.frame = unit_of(src), sign_of(src), frame_of(src)
    if lin:
        keep(out, src, *LIN_TAGS)
    out.tags["reduced_axis"] = ax
    out.tags["reduced_from"] = src.shape
    out.tags["keepdims"] = bool(keep_)
    if src.tag("floating"):
        out.tags["floating"] = True
    _xsample(I, e, out, src.shape, ax)
    return out


def _xsample(I, e, out, shape, ax):
    """A reduction that collapses the sample axis N mixes the rows of a call: taint the result."""
    if shape is None:
        return
    axes = list(shape.axes)
    hit = False
    if ax is None:
        hit = any(a is not None and "N" in a for a in axes)
    elif ax != "?":
        try:
            a = axes[ax] if (ax < 0 or not shape.ell) else None
            hit = a is not None and "N" in a
        except IndexError:
            hit = False
    if hit:
        out.data = out.data | {f"xsample@{I.fr.fn.module.relpath}:{e.lineno}"}
        out.tags["xsample"] = True


@model("numpy.sum", "numpy.nansum")
def m_sum(I, e, args, kws):
    out = _reduce(I, e, args, kws)
    x = args[0]
    if x.tag("simplex_rows") and axis_arg(args, kws, 1, None) in (-1, 1):
        out.tags["ones"] = True
    if axis_arg(args, kws, 1, None) in (-1, 1) and x.term is not None:
        out.tags["rowsum_of"] = (x.term, x.sign)
    return out


@model("numpy.mean", "numpy.median", "numpy.nanmean")
def m_mean(I, e, args, kws):
    return _reduce(I, e, args, kws)


@model("numpy.min", "numpy.max", "numpy.nanmin", "numpy.nanmax")
def m_minmax(I, e, args, kws):
    out = _reduce(I, e, args, kws, lin=False)
    src_ = args[0]
    if src_.tag("deg") is not None:
        out.tags["deg"] = dict(src_.tag("deg"))   # max/min are positively homogeneous of degree one
    # identity of this reduction: two clouds shifted by the *same* offset stay comparable
    out.tags["offset_id"] = ("off", I.fr.fn.qual, e.lineno, e.col_offset)
    name = M.norm_text(e.func).split(".")[-1]
    out.tags["extremum"] = (name, args[0])
    I.emit("extremum", e, name=name, arg=args[0], result=out, initial=kws.get("initial"))
    return out


@model("numpy.prod")
def m_prod(I, e, args, kws):
    return _reduce(I, e, args, kws, unit_of=lambda x: None, lin=False)


@model("numpy.var")
def m_var(I, e, args, kws):
    return _reduce(I, e, args, kws, unit_of=lambda x: upow(x.unit, 2), sign_of=lambda x: "NONNEG",
                   frame_of=lambda x: None, lin=False)


@model("numpy.std")
def m_std(I, e, args, kws):
    return _reduce(I, e, args, kws, sign_of=lambda x: "NONNEG", frame_of=lambda x: None, lin=False)


@model("numpy.all", "numpy.any")
def m_allany(I, e, args, kws):
    out = _reduce(I, e, args, kws, unit_of=lambda x: ONE, sign_of=lambda x: None, frame_of=lambda x: None, lin=False)
    out.tags["kind"] = "bool" if out.shape is not None and out.shape.rank == 0 else "ndarray"
    name = M.norm_text(e.func).split(".")[-1]
    out.tags["allany"] = (name, args[0])
    x = args[0]
    pred = x.tag("pred")
    if pred is not None and pred[1].tag("finite") == "mixed":
        # some entries finite, some +inf (a configuration the bound validation is expected to reject)
        if pred[0] in ("isfinite", "isposinf", "isinf"):
            out.const = (name == "any")
        elif pred[0] == "isneginf":
            out.const = False
    elif pred is not None and pred[0] == "isfinite" and pred[1].tag("finite") is not None:
        out.const = bool(pred[1].tag("finite"))
    elif pred is not None and pred[0] in ("isneginf", "isposinf", "isinf") and pred[1].tag("finite") is not None:
        out.const = not bool(pred[1].tag("finite")) if pred[1].tag("finite") else U
    pu = x.tag("pred_union")
    if pu is not None and pu[1].tag("finite") is not None:
        names, fin = pu[0], pu[1].tag("finite")
        covers = ("isfinite" in names) if fin is True else (bool({"isposinf", "isinf"} & names) if fin is False else
                                                            ("isfinite" in names and bool({"isposinf", "isinf"} & names)))
        if covers:
            out.const = True
    cmp_ = x.tag("cmp")
    if cmp_ is not None and name == "all" and cmp_[0] == "Eq" and cmp_[2].known and cmp_[2].const == 0 \
            and axis_arg(args, kws, 1, None) in (-1, 1):
        out.tags["zero_row_mask_of"] = cmp_[1].term        # rows that are entirely zero
    if cmp_ is not None and cmp_[0] in ("Eq", "NotEq") and cmp_[2].known and cmp_[2].const == 0 and axis_arg(args, kws, 1, None) in (-1, 1):
        # which rows a boolean row mask selects: all(x == 0) the all-zero rows, any(x != 0) their complement,
        # any(x == 0) rows with SOME zero coordinate, all(x != 0) rows without any
        out.tags["row_mask"] = ({("all", "Eq"): "zero_rows", ("any", "NotEq"): "nonzero_rows", ("any", "Eq"): "rows_with_a_zero",
                                 ("all", "NotEq"): "rows_without_zero"}[(name, cmp_[0])], cmp_[1].term)
        if out.tags["row_mask"][0] == "nonzero_rows":
            out.tags["zero_row_mask_of"] = cmp_[1].term
            out.tags["zero_row_mask_inverted"] = True
    if cmp_ is not None and name == "all" and cmp_[0] == "GtE" and cmp_[2].known and cmp_[2].const == 0:
        if cmp_[1].sign in ("NONNEG", "POS"):
            out.const = True
        out.tags["nonneg_test_of"] = cmp_[1]
    return out


@model("numpy.argmin", "numpy.argmax", "numpy.argsort", "numpy.flatnonzero", "numpy.nonzero")
def m_argx(I, e, args, kws):
    out = mk(args, fresh="FRESH", unit=ONE, tags={"kind": "ndarray", "indices": True})
    name = M.norm_text(e.func).split(".")[-1]
    if name in ("flatnonzero",):
        out.shape = Shape([None])
        out.tags["ndim"] = 1
    if name == "argsort" and args and args[0].term is not None:
        out.tags["argsort_of"] = args[0].term          # the permutation that sorts THIS array
        out.term = mk_term("argsort", args[0].term)
    return out


@model("numpy.take")
def m_take(I, e, args, kws):
    x, idx = args[0], (args[1] if len(args) > 1 else kws.get("indices"))
    out = mk([a_ for a_ in (x, idx) if a_ is not None], fresh="FRESH", unit=x.unit, sign=x.sign, tags={"kind": "ndarray", "notstr": True})
    out.frame = x.frame
    out.shape = x.shape if (idx is not None and idx.tag("argsort_of") is not None) else None
    if idx is not None and idx.tag("argsort_of") is not None:
        out.tags["reordered_by"] = idx.term
        if idx.tag("argsort_of") == x.term:
            out.tags["sorted"] = True
            out.tags["sorted_by"] = idx.term
    for k in ("point", "domain_id", "lives_on"):
        if x.tag(k) is not None:
            out.tags[k] = x.tag(k)
    return out


@model("numpy.cumsum")
def m_cumsum(I, e, args, kws):
    x = args[0]
    return mk(args, fresh="FRESH", unit=x.unit, shape=x.shape, sign=x.sign, tags={"kind": "ndarray"})


@model("numpy.diff")
def m_diff(I, e, args, kws):
    x = args[0]
    out = mk(args, fresh="FRESH", unit=x.unit, tags={"kind": "ndarray"})
    if x.tag("point"):
        out.tags["spacings_of"] = x          # the sample spacings of a coordinate array
    if x.tag("point") and not x.tag("sorted") and (x.shape is None or x.shape.rank == 1):
        # successive differences of coordinates AS STORED: for a descending / shuffled domain they are negative / arbitrary steps
        out.data = out.data | {f"pick@{I.fr.fn.module.relpath}:{e.lineno}"}
        I.emit("positional_pick", e, base=x, index="diff")
    if x.shape is not None and x.shape.axes:
        ax = axis_arg(args, kws, 2, -1)
        n_ = arg(args, kws, 1, "n")
        if ax in (None, "?") or (x.shape.ell and ax >= 0) or not (-len(x.shape.axes) <= ax < len(x.shape.axes)):
            out.shape = Shape(x.shape.axes[:-1] + (None,), x.shape.ell)
        else:
            a = list(x.shape.axes)
            a[ax] = _shortened(a[ax]) if n_ is None or (n_.known and n_.const == 1) else None
            out.shape = Shape(a, x.shape.ell)
    return out


def _shortened(d):
    """the extent n − 1 of a named axis n (np.diff, np.delete of one position): a name of its own, so that it is not laid along another axis"""
    if isinstance(d, tuple) and len(d) == 1 and isinstance(d[0], str) and not d[0].endswith("-1"):
        return (d[0] + "-1",)
    return None


@model("numpy.sort", "numpy.unique")
def m_sort(I, e, args, kws):
    x = args[0]
    if "sort" in M.norm_text(e.func) and x.items is not None and len(x.items) >= 2 and x.tag("kind") in ("list", "tuple") \
            and all(it.shape is not None and not it.shape.ell and it.shape.rank >= 1 for it in x.items):
        # np.sort([a, b]): the rows of the stack are sorted along `axis` (default: the LAST one, i.e. within each row). Within a row the
        # entries change places (row i is a re-ordered a / b: a lossy image); along axis 0 each position keeps its column (min / max pairs)
        ax = axis_arg(args, kws, 1, -1)
        rows = []
        for it in x.items:
            r_ = it.copy(term=mk_term("sort", it.term))
            r_.items = None
            r_.fresh = "FRESH"
            r_.tags["sorted"] = True
            if ax in (-1, it.shape.rank):
                lossy(I, e, r_, it, "sort")
            else:
                for o_ in x.items:
                    if o_ is not it:
                        f_ = o_.flat()
                        r_.data |= f_.data
                        r_.shp |= f_.shp
            rows.append(r_)
        out = mk(rows, fresh="FRESH", unit=x.items[0].unit, tags={"kind": "ndarray", "sorted": True})
        out.items = rows
        sh0 = x.items[0].shape
        out.shape = Shape((("#%d" % len(rows),),) + tuple(sh0.axes)) if all(it.shape == sh0 for it in x.items) else None
        return out
    out = mk(args + list(kws.values()), fresh="FRESH", unit=x.unit, frame=x.frame, sign=x.sign, tags={"kind": "ndarray"})
    out.tags["sorted"] = True
    if x.tag("point"):
        out.tags["point"] = True
    if "sort" in M.norm_text(e.func):
        out.shape = x.shape
    elif x.shape is not None and x.shape.axes and not x.shape.ell:
        out.shape = Shape((None,) + tuple(x.shape.axes[1:]))
    return out


@model("numpy.trapezoid")
def m_trapezoid(I, e, args, kws):
    y = args[0]
    xd = arg(args, kws, 1, "x")
    dx = arg(args, kws, 2, "dx")
    ax = axis_arg(args, kws, 3, -1)
    meas = xd if (xd is not None and not (xd.known and xd.const is None)) else dx
    if xd is not None and dx is not None and (xd.tag("maybe_absent") or dx.tag("maybe_absent")):
        # the keyword dictionary differs between paths: report the constant-step alternative as its own site
        I.emit("integrate", e, integrand=y, measure=dx, measure_kw="dx", axis=ax, result=None, kind="trapezoid", alt=True)
    out = mk([y] + ([meas] if meas is not None else []) + [v for k, v in kws.items() if k == "axis"], fresh="FRESH",
             tags={"kind": "ndarray", "notstr": True})
    out.shape = reduce_shape(y.shape, ax, False)
    mu = meas.unit if meas is not None else ONE
    out.unit = umul(y.unit, mu, 1)
    # homogeneous of degree one in the integrand and in the measure
    dy = y.tag("deg")
    dm = meas.tag("deg") if meas is not None else {}
    if dm is None and meas is not None and meas.data and len(meas.data) == 1 and not meas.known:
        dm = {next(iter(meas.data)): 1}
    if dy is not None and dm is not None:
        d = dict(dy)
        for k, v in dm.items():
            d[k] = d.get(k, 0) + v
        out.tags["deg"] = d
    if y.tag("litfactor") or (meas is not None and meas.known and _is_lit(meas) and meas.const != 1 and False):
        out.tags["litfactor"] = True
    I.emit("integrate", e, integrand=y, measure=meas, measure_kw=("x" if meas is xd else "dx") if meas is not None else None,
           axis=ax, result=out, kind="trapezoid")
    if meas is not None and xd is meas and y.shape is not None and meas.shape is not None and y.shape.axes and meas.shape.axes \
            and ax not in ("?", None):
        try:
            ya = y.shape.axes[ax]
            if ya is not None and meas.shape.axes[-1] is not None and ya != meas.shape.axes[-1] and meas.shape.rank == 1:
                I.type_error(e, "SHAPE", f"integration axis {ax} of {y.shape} has extent {'⊗'.join(ya)} but the "
                                          f"sample points have extent {'⊗'.join(meas.shape.axes[-1])}")
        except IndexError:
            pass
    out.tags["integrated"] = True
    return out


@model("numpy.einsum")
def m_einsum(I, e, args, kws):
    spec = args[0]
    ops = args[1:]
    out = mk(args, fresh="FRESH", tags={"kind": "ndarray"})
    u = ONE
    for o in ops:
        u = umul(u, o.unit, 1)
    out.unit = u
    if any(o.tag("floating") or o.tag("simplex_rows") or o.tag("unit_cube") for o in ops):
        out.tags["floating"] = True           # weights in [0, 1] / quotients: a real-valued result whatever the dtype of the other operand
    if spec.known and isinstance(spec.const, str) and "->" in spec.const:
        lhs, rhs = spec.const.replace(" ", "").split("->")
        ins = lhs.split(",")
        amap = {}
        okk = len(ins) == len(ops)
        if okk:
            for sub, o in zip(ins, ops):
                if o.shape is None or o.shape.ell or len(o.shape.axes) != len(sub):
                    if o.shape is not None and not o.shape.ell and len(o.shape.axes) != len(sub):
                        I.type_error(e, "SHAPE", f"einsum subscript '{sub}' does not match operand of shape {o.shape}")
                    okk = okk and False
                    continue
                for ch, d in zip(sub, o.shape.axes):
                    if ch in amap and amap[ch] is not None and d is not None and amap[ch] != d:
                        I.type_error(e, "SHAPE", f"einsum index '{ch}' ranges over {'⊗'.join(amap[ch])} and {'⊗'.join(d)}")
                    amap.setdefault(ch, d)
            out.shape = Shape([amap.get(ch) for ch in rhs])
        out.tags["einsum"] = (ins, rhs, ops)
        # convex combination: vertices (i,j,k) weighted by a simplex-row matrix (i,j) summed over j
        if len(ops) == 2 and len(ins) == 2:
            for a, b in ((0, 1), (1, 0)):
                w, v = ops[a], ops[b]
                sw, sv = ins[a], ins[b]
                if w.tag("simplex_rows") and len(sw) == 2 and len(sv) == 3 and sv[:2] == sw and rhs == sv[0] + sv[2]:
                    out.tags["convex_comb_of"] = v
                    out.unit = v.unit
                    out.frame = v.frame
    return out


@model("functools.partial")
def m_partial(I, e, args, kws):
    fn = args[0]
    out = mk(args + list(kws.values()), tags={"callable": True, "partial": (fn, list(args[1:]), dict(kws))})
    return out


@model("numpy.apply_along_axis")
def m_apply_along_axis(I, e, args, kws):
    fn = args[0]
    ax, arr = args[1], args[2]
    rest = args[3:]
    if fn.tag("partial") is not None:
        # np.apply_along_axis(partial(f, *a, **k), axis, arr, *rest, **kws): f(arr_1d, …) receives a / k as well
        pf, pa, pk = fn.tag("partial")
        if not pa:
            fn, kws = pf, dict(pk, **kws)
    # func1d(arr_1d, *rest, **kws)
    r = I.call_value(e, fn, [arr] + list(rest), kws)
    out = mk([r, ax, arr], fresh="FRESH", unit=r.flat().unit, tags={"kind": "ndarray"})
    I.emit("apply_along_axis", e, fn=fn, axis=ax, arr=arr, rest=rest, kws=kws)
    return out


# =================================================================== numpy: stacking
@model("numpy.concatenate", "numpy.vstack", "numpy.hstack", "numpy.stack", "numpy.column_stack")
def m_concat(I, e, args, kws):
    seq = args[0]
    name = M.norm_text(e.func).split(".")[-1]
    parts = []
    def flatten(v):
        if v.tag("parts") is not None:
            for p in v.tag("parts"):
                flatten(p)
        elif v.items is not None:
            for it in v.items:
                parts.append((it, None))
        else:
            parts.append((v.tag("elem"), v.tag("n_repeat")) if v.tag("elem") is not None else (v, "?"))
    flatten(seq)
    vals = [p[0] for p in parts if p[0] is not None]
    out = mk([seq] + list(kws.values()), fresh="FRESH", tags={"kind": "ndarray", "notstr": True})
    if vals:
        j = join_all([v.flat() for v in vals])
        ok_unit = True
        u = None
        for v in vals:
            vu = v.flat().unit
            if vu is None:
                ok_unit = False
                break
            if u is None or u == POLY:
                u = vu
            elif vu != POLY and vu != u:
                ok_unit = False
                break
        out.unit = u if ok_unit else None
        out.frame = j.frame
        out.sign = j.sign
        keep(out, j, "deg", "litfactor")
    # shape: concatenation of n copies of a 1-D vector of extent d -> n⊗d (sample-major)
    ax = axis_arg(args, kws, 1, 0)
    if len(vals) >= 2 and ax == 0 and name in ("concatenate", "hstack", "append") and vals[0].tag("prefix_slice") is not None \
            and not any(v.tag("suffix_slice") for v in vals[1:]):
        # np.concatenate([x[:k], <fill>]): the leading rows of x kept, its tail rebuilt explicitly from something else
        out.tags["tail_filled"] = "concatenate([x[:k], …])"
    if vals and ax == 0 and name in ("concatenate", "vstack") and all(v.flat().tag("simplex_rows") for v in vals):
        out.tags["simplex_rows"] = True          # blocks of probability vectors stacked row-wise are rows of probability vectors
    if name == "concatenate" and len(parts) >= 1 and ax == 0:
        total = None
        okk = True
        mono = []
        for v, rep in parts:
            if v is None:
                okk = False
                break
            s = v.flat().shape
            if s is None or s.ell or len(s.axes) != 1 or s.axes[0] is None:
                okk = False
                break
            d = s.axes[0]
            if rep is None:
                mono.append(d)
            elif rep == "?":
                okk = False
                break
            else:
                rd = as_dim(rep)
                if rd is None:
                    okk = False
                    break
                mono.append(dim_mul(rd, d))
        if okk and mono:
            # sum of extents: representable only when a single block (or padding blocks that are
            # declared with the same inner extent) — keep the first block's monomial and mark padding
            if len(mono) == 1:
                out.shape = Shape([mono[0]])
            else:
                out.shape = Shape([None])
                out.tags["concat_blocks"] = mono
            out.tags["stack_kind"] = "sample-major"
        else:
            out.shape = Shape([None]) if all(p[0] is not None and p[0].flat().shape is not None and p[0].flat().shape.rank == 1 for p in parts) else None
    elif name in ("vstack",) and vals:
        s0 = vals[0].flat().shape
        if s0 is not None and not s0.ell and all(v.flat().shape is not None and v.flat().shape.axes[-1:] == s0.axes[-1:] for v in vals):
            out.shape = Shape((None,) + tuple(s0.axes[-1:]))
    elif name in ("hstack",) and vals:
        s0 = vals[0].flat().shape
        if s0 is not None and not s0.ell and len(s0.axes) == 2:
            out.shape = Shape((s0.axes[0], None))
    return out


@model("numpy.repeat", "numpy.tile")
def m_repeat(I, e, args, kws):
    x = args[0]
    out = mk(args, fresh="FRESH", unit=x.unit, frame=x.frame, sign=x.sign, tags={"kind": "ndarray"})
    for r_ in list(args[1:]) + list(kws.values()):
        rf = r_.flat()
        out.data = (out.data - rf.data) | (x.flat().data & rf.data)
        out.shp |= rf.data | rf.shp
    name = M.norm_text(e.func).split(".")[-1]
    out.tags["repeat_kind"] = name
    reps = args[1] if len(args) > 1 else kws.get("repeats", kws.get("reps"))
    rd = as_dim(reps) if reps is not None else None
    if rd is None and reps is not None and reps.tag("dim_syms"):
        out.tags["stack_kind"] = "element-major" if name == "repeat" else "sample-major"
        out.tags["rep_syms"] = reps.tag("dim_syms")
    if reps is not None and reps.tag("sum_dim") is not None and name == "repeat" and "axis" not in kws and (
            x.shape is None or x.shape.rank == 1):
        out.shape = Shape([reps.tag("sum_dim")])     # one entry per counted item: Σ counts entries
    elif reps is not None and reps.tag("rounded") and name == "repeat":
        out.tags["rows_rounded"] = True
    if x.shape is not None and x.shape.rank == 1 and rd is not None and x.shape.axes[0] is not None \
            and "axis" not in kws:
        out.shape = Shape([dim_mul(rd, x.shape.axes[0])])
        out.tags["stack_kind"] = "element-major" if name == "repeat" else "sample-major"
    if isinstance(x.fresh, tuple) and x.fresh[1] and x.tag("kind") == "ndarray":
        out.tags["dtype_from"] = frozenset(x.fresh[1])      # np.tile / np.repeat of a caller array keep its element type
        out.tags["dtype_copy"] = True
    I.emit("np_repeat", e, name=name, src=x, reps=args[1] if len(args) > 1 else None)
    return out


@model("numpy.delete")
def m_delete(I, e, args, kws):
    x = args[0]
    out = mk(args + list(kws.values()), fresh="FRESH", unit=x.unit, frame=x.frame, sign=x.sign, tags={"kind": "ndarray"})
    ax = axis_arg(args, kws, 2, None)
    if x.shape is not None and not x.shape.ell and ax not in (None, "?"):
        a = list(x.shape.axes)
        idx_ = arg(args, kws, 1, "obj")
        try:
            a[ax] = _shortened(a[ax]) if (idx_ is not None and idx_.known and isinstance(idx_.const, int) and not isinstance(idx_.const, bool)) else None
            out.shape = Shape(a)
        except IndexError:
            pass
    elif x.shape is not None and ax is None:
        out.shape = Shape([None])
    return out


@model("numpy.isin", "numpy.in1d")
def m_isin(I, e, args, kws):
    x = args[0]
    return mk(args, fresh="FRESH", unit=ONE, shape=x.shape, tags={"kind": "ndarray", "boolarr": True})


@model("numpy.shape")
def m_npshape(I, e, args, kws):
    from .extern import attribute
    x = args[0]
    fake = ast.Attribute(value=e.args[0], attr="shape", ctx=ast.Load())
    ast.copy_location(fake, e)
    return attribute(I, fake, x)


@model("numpy.squeeze")
def m_squeeze(I, e, args, kws):
    """np.squeeze(x): every length-1 axis is removed (all of them without axis=) — what remains broadcasts from the LAST axis"""
    x = args[0]
    out = x.copy(term=mk_term("squeeze", x.term))
    out.items = None
    ax = axis_arg(args, kws, 1, None)
    if x.shape is not None and not x.shape.ell:
        axes = list(x.shape.axes)
        if ax is None:
            out.shape = Shape(tuple(a for a in axes if a != ())) if all(a is not None for a in axes) else None
        elif ax != "?" and -len(axes) <= ax < len(axes):
            axes.pop(ax)
            out.shape = Shape(tuple(axes))
        else:
            out.shape = None
        if out.shape is not None:
            out.tags["ndim"] = len(out.shape.axes)
    else:
        out.shape = None
    return out


@model("numpy.ndim")
def m_npndim(I, e, args, kws):
    # np.ndim(x) is x.ndim for arrays and 0 for plain numbers
    from .extern import attribute
    x = args[0]
    if x.tag("isnum") and x.shape is None:
        f = x.flat()
        return Val(const=0, shp=f.data | f.shp, ctrl=f.ctrl, tags={"kind": "int"}, unit=ONE)
    fake = ast.Attribute(value=e.args[0], attr="ndim", ctx=ast.Load())
    ast.copy_location(fake, e)
    return attribute(I, fake, x)


@model("numpy.finfo")
def m_finfo(I, e, args, kws):
    return Val(tags={"finfo": True}, unit=ONE, sign="POS", fresh="FRESH")


# =================================================================== numpy.linalg / scipy.linalg
@model("numpy.linalg.solve")
def m_solve(I, e, args, kws):
    A, b = args[0], args[1]
    out = mk(args, fresh="FRESH", tags={"kind": "ndarray", "floating": True})
    out.unit = umul(b.unit, A.unit, -1)
    sa, sb = A.shape, b.shape
    if sa is not None and sb is not None and not sa.ell and not sb.ell and len(sa.axes) == 2:
        if sb.axes and sa.axes[0] is not None and sb.axes[0] is not None and sa.axes[0] != sb.axes[0]:
            I.type_error(e, "SHAPE", f"solve: rows of {sa} vs right-hand side {sb}")
        out.shape = Shape((sa.axes[1],) + tuple(sb.axes[1:]))
    return out


@model("numpy.linalg.inv", "numpy.linalg.pinv")
def m_inv(I, e, args, kws):
    A = args[0]
    out = mk(args, fresh="FRESH", unit=upow(A.unit, -1), tags={"kind": "ndarray"})
    out.shape = transpose_shape(A.shape)
    return out


@model("numpy.linalg.det")
def m_det(I, e, args, kws):
    A = args[0]
    out = mk(args, fresh="FRESH", tags={"kind": "ndarray"})
    if A.shape is not None and len(A.shape.axes) >= 2:
        out.shape = Shape(A.shape.axes[:-2], A.shape.ell)
    # det of an n×n matrix of unit u has unit u^n: an opaque, scale-dependent dimension unless u is dimensionless
    if A.unit == ONE:
        out.unit = ONE
    elif isinstance(A.unit, dict):
        out.unit = {"det[" + ustr(A.unit) + "]": 1}
    return out


@model("numpy.linalg.norm", "scipy.linalg.norm")
def m_norm(I, e, args, kws):
    x = args[0]
    out = _reduce(I, e, [x], {k: v for k, v in kws.items() if k in ("axis", "keepdims")}, sign_of=lambda v: "NONNEG",
                  frame_of=lambda v: None, lin=False, axis_pos=2)
    if len(args) >= 3:
        ax = const_int(args[2])
        out.shape = reduce_shape(x.shape, ax if ax is not None else "?", False)
    o = arg(args, kws, 1, "ord")
    out.tags["norm_ord"] = o.const if (o is not None and o.known) else ("default" if o is None else None)
    if out.tags["norm_ord"] in (1, 2, -1, -2, float("inf"), float("-inf"), "nuc") and kws.get("axis") is None and len(args) < 3 \
            and x.shape is not None and not x.shape.ell and x.shape.rank == 2:
        # for a MATRIX and no axis, ord=1 / 2 / inf are operator norms (largest column sum, largest singular value, largest row sum),
        # not the entrywise vector norms
        out.tags["norm_ord"] = f"matrix-{out.tags['norm_ord']}"
    out.tags["norm_of"] = x.term
    if x.tag("deg") is not None:
        out.tags["deg"] = dict(x.tag("deg"))      # a norm is positively homogeneous of degree one
    for v in kws.values():
        f = v.flat()
        out.shp |= f.data | f.shp
    return out


@model("scipy.linalg.block_diag")
def m_block_diag(I, e, args, kws):
    # block_diag(*[A]*n) / block_diag(*([A]*n + [pad]))
    out = mk(args, fresh="FRESH", tags={"kind": "ndarray", "ndim": 2})
    blocks = []
    def walk(v):
        if v.tag("parts") is not None:
            for p in v.tag("parts"):
                walk(p)
        elif v.tag("elem") is not None and v.tag("kind") == "list":
            blocks.append((v.tag("elem"), v.tag("n_repeat"), v.items))
        else:
            blocks.append((v, None, None))
    for a in args:
        walk(a)
    vals = [b[0] for b in blocks if b[0] is not None]
    if vals:
        main = vals[0].flat()
        out.unit, out.frame, out.sign = main.unit, main.frame, main.sign
        for v in vals[1:]:
            vf = v.flat()
            if vf.unit not in (None, POLY) and out.unit not in (None, POLY) and vf.unit != out.unit:
                I.type_error(e, "QTY", "block_diag of blocks with different units")
    if len(blocks) == 1 and blocks[0][1] is not None:
        el, rep, _ = blocks[0]
        rd = as_dim(rep)
        s = el.flat().shape
        if s is not None and not s.ell and len(s.axes) == 2:
            out.shape = Shape([dim_mul(rd, s.axes[0]), dim_mul(rd, s.axes[1])])
            out.tags["block_diag_of"] = (el, rep)
            out.tags["stack_kind"] = "block-diagonal"
    elif blocks:
        out.shape = Shape([None, None])
        out.tags["block_diag_parts"] = blocks
        out.tags["stack_kind"] = "block-diagonal"
    return out


# =================================================================== stdlib
@model("itertools.product")
def m_product(I, e, args, kws):
    out = mk(args + list(kws.values()), tags={"kind": "product", "nonempty": True})
    rep = kws.get("repeat")
    lits = []
    for a in args:
        if a.items is not None and all(i.known for i in a.items):
            lits.append(tuple(i.const for i in a.items))
        else:
            lits = None
            break
    if rep is not None:
        out.shp |= rep.flat().data | rep.flat().shp
    elems = [I.iter_elem(a, None) for a in args]
    if rep is not None and len(args) == 1:
        el = elems[0]
        out.tags["iter_elem"] = Val(data=el.flat().data, shp=out.shp, unit=el.flat().unit, tags={"kind": "tuple", "elem": el},
                                    shape=Shape([as_dim(rep)]))
        out.tags["product_of"] = (lits[0] if lits else None, rep)
    else:
        out.tags["iter_elem"] = Val(items=elems, tags={"kind": "tuple"})
    return out


@model("itertools.combinations")
def m_combinations(I, e, args, kws):
    x, k = args[0], args[1]
    el = I.iter_elem(x, None)
    out = mk(args, tags={"kind": "combinations", "nonempty": True})
    out.tags["iter_elem"] = Val(data=el.flat().data, shp=el.flat().shp | k.flat().data | k.flat().shp, unit=el.flat().unit,
                                tags={"kind": "tuple", "elem": el})
    return out


@model("tqdm.tqdm", "tqdm.auto.tqdm")
def m_tqdm(I, e, args, kws):
    x = args[0]
    out = x.copy()
    return out


@model("warnings.warn")
def m_warn(I, e, args, kws):
    I.emit("warn", e, category=M.norm_text(e.args[1]) if len(e.args) > 1 else (M.norm_text(e.keywords[0].value) if e.keywords else None))
    return const(None)


@model("math.factorial", "scipy.special.factorial", "scipy.special.comb", "math.comb")
def m_factorial(I, e, args, kws):
    out = mk(args, unit=ONE, sign="POS", shape=S(), tags={"kind": "int"})
    out.shp |= out.data
    out.data = E
    return out


@model("inspect.getsource", "functools.wraps")
def m_opaque_std(I, e, args, kws):
    return mk(args)


# =================================================================== random
RNG_CTORS = {"numpy.random.default_rng", "numpy.random.RandomState", "numpy.random.Generator",
             "numpy.random.SeedSequence", "numpy.random.PCG64"}
GLOBAL_RNG = {"seed", "rand", "randn", "random", "randint", "choice", "normal", "uniform", "shuffle", "permutation",
              "standard_normal", "random_sample", "dirichlet", "multinomial", "beta", "gamma", "poisson", "binomial",
              "exponential", "sample", "ranf", "bytes"}


@model(*RNG_CTORS)
def m_default_rng(I, e, args, kws):
    seed = arg(args, kws, 0, "seed")
    out = mk([seed] if seed is not None else [], tags={"kind": "rng", "rng_site": (I.fr.fn.qual, e.lineno)})
    I.emit("rng_create", e, seed=seed, result=out)
    if seed is None or (seed.known and seed.const is None and not seed.data):
        # an unseeded generator: a fresh source of nondeterminism
        out.data |= {f"entropy@{I.fr.fn.module.relpath}:{e.lineno}"}
        out.tags["unseeded"] = True
    return out


def rng_method(I, e, base, attr, args, kws):
    out = mk([base] + args + list(kws.values()), fresh="FRESH", tags={"kind": "ndarray"})
    out.term = ("draw", I.fr.fn.qual, e.lineno, e.col_offset)
    out.tags["deg"] = {}
    I.emit("random_draw", e, gen=base, method=attr, args=args, kws=kws, result=out, via="method")
    k = base.tag("kind")
    if k == "rng":
        size = kws.get("size") or (args[1] if attr == "choice" and len(args) > 1 else (args[0] if attr in ("random", "standard_normal") and args else None))
        out.shape = shape_from_arg(size) if size is not None else None
        out.unit = ONE
        if attr == "choice":
            out.tags["indices"] = True
            out.tags["drawn_indices"] = True
            out.tags["kind"] = "ndarray"
        if attr in ("random", "dirichlet", "uniform"):
            out.sign = "NONNEG"
        if attr in ("random", "dirichlet", "uniform", "standard_normal", "normal", "beta", "gamma", "exponential"):
            out.tags["floating"] = True
        if attr == "dirichlet":
            out.tags["simplex_rows"] = True
    elif k == "qmc":
        n = args[0] if args else kws.get("n")
        d = base.tag("qmc_dim")
        out.shape = Shape([as_dim(n) if n is not None else None, d])
        out.unit = ONE
        out.sign = "NONNEG"
        out.tags["unit_cube"] = True
    elif k == "qmc_multinomial":
        out.shape = None
        out.unit = ONE
        out.sign = "NONNEG"
        out.tags["multinomial_counts"] = base.tag("n_trials")
        nt = base.tag("n_trials")
        if nt is not None and as_dim(nt) is not None:
            out.tags["sum_dim"] = as_dim(nt)        # every row of a multinomial draw sums to n_trials
    return out


@model("scipy.stats.dirichlet.rvs")
def m_dirichlet_rvs(I, e, args, kws):
    rs = kws.get("random_state")
    size = kws.get("size")
    alpha = arg(args, kws, 0, "alpha")
    out = mk(args + list(kws.values()), fresh="FRESH", unit=ONE, sign="NONNEG",
             tags={"kind": "ndarray", "simplex_rows": True, "ndim": 2})
    k = None
    if alpha is not None:
        rep = alpha.tag("n_repeat")
        if rep is not None:
            k = as_dim(rep) if as_dim(rep) is not None else None
            if k is None and rep.tag("dimexpr"):
                k = None
    out.shape = Shape([as_dim(size) if size is not None else None, k])
    if rs is None or (rs.known and rs.const is None):
        out.data |= {f"entropy@{I.fr.fn.module.relpath}:{e.lineno}"}       # scipy falls back to numpy's global RandomState
        out.tags["unseeded"] = True
    I.emit("random_draw", e, gen=rs, method="dirichlet.rvs", args=args, kws=kws, result=out, via="random_state")
    return out


@model("scipy.stats.qmc.Sobol", "scipy.stats.qmc.Halton", "scipy.stats.qmc.LatinHypercube",
       "scipy.stats.qmc.PoissonDisk")
def m_qmc_engine(I, e, args, kws):
    seed = kws.get("seed")
    d = arg(args, kws, 0, "d")
    out = mk(args + list(kws.values()), tags={"kind": "qmc", "qmc_dim": as_dim(d) if d is not None else None,
                                              "engine_cls": canonical_name(e)})
    I.emit("rng_create", e, seed=seed, result=out, qmc=True)
    if seed is None or (seed.known and seed.const is None and not seed.data):
        out.data |= {f"entropy@{I.fr.fn.module.relpath}:{e.lineno}"}
        out.tags["unseeded"] = True
    return out


def canonical_name(e):
    return M.norm_text(e.func)


@model("scipy.stats.qmc.MultinomialQMC")
def m_multinomial_qmc(I, e, args, kws):
    seed = kws.get("seed")
    eng = kws.get("engine")
    n = arg(args, kws, 1, "n_trials")
    out = mk(args + list(kws.values()), tags={"kind": "qmc_multinomial", "n_trials": n})
    I.emit("rng_create", e, seed=seed, engine=eng, result=out, qmc=True, multinomial=True)
    # scipy: when `engine` is given, `seed` is ignored: determinism rests on the engine's own seed
    det = eng if (eng is not None and not (eng.known and eng.const is None)) else seed
    if det is None or det.tag("unseeded") or (det.known and det.const is None and not det.data):
        out.data |= {f"entropy@{I.fr.fn.module.relpath}:{e.lineno}"}
        out.tags["unseeded"] = True
    if eng is not None and not (eng.known and eng.const is None):
        # drop the dependence on the ignored seed argument unless it also seeds the engine
        out.data = (eng.flat().data | (args[0].flat().data if args else E) | (n.flat().data if n is not None else E))
    return out


# =================================================================== scipy.spatial / sklearn / interpolate
@model("scipy.spatial.Delaunay", "scipy.spatial.ConvexHull")
def m_qhull(I, e, args, kws):
    pts = args[0]
    name = M.norm_text(e.func).split(".")[-1]
    kind = "delaunay" if "Delaunay" in name else "hull"
    out = mk(args + list(kws.values()), tags={"kind": kind, "points": pts, "isinstance": name})
    I.emit("qhull", e, cls=name, points=pts, kws=kws, args=args)
    return out


def object_method(I, e, base, attr, args, kws):
    k = base.tag("kind")
    out = mk([base] + args + list(kws.values()), fresh="FRESH")
    if k == "delaunay" and attr == "find_simplex":
        pts = base.tag("points")
        q = args[0]
        I.emit("membership", e, cloud=pts, query=q, how="find_simplex")
        tol = kws.get("tol") if "tol" in kws else (args[2] if len(args) > 2 else None)
        if tol is not None and not (tol.known and tol.const is None):
            # an explicit tolerance of the inside-simplex test (barycentric coordinates ≥ −tol; SciPy's default is 100·eps): points
            # outside the hull by up to tol of a simplex count as inside
            I.emit("membership_tolerance", e, query=q, cloud=pts, tol=tol)
        out.unit = ONE
        if q.shape is not None and q.shape.axes:
            out.shape = Shape(q.shape.axes[:-1], q.shape.ell)
        out.tags["indices"] = True
        return out
    if k == "nmf":
        if attr in ("fit", "fit_transform"):
            o = base.copy()
            f = args[0].flat()
            o.data |= f.data
            o.shp |= f.shp
            o.ctrl |= f.ctrl
            return o
    if k == "pca":
        if attr in ("fit_transform", "transform", "fit"):
            x = args[0]
            out.unit = x.unit
            if attr == "fit":
                return base
            return out
    if k == "interp":
        return out
    if k in ("pintq",):
        if attr == "to":
            return m_pint_to(I, e, [base] + args, kws)
        if attr == "check":
            return mk([base] + args, tags={"kind": "bool"})
        if attr == "astype":
            r = m_astype(I, e, [base] + args, kws)       # a Quantity forwards astype to its magnitude
            r.tags["kind"] = "pintq"
            return r
    I.emit("opaque_method", e, base=base, attr=attr, args=args, kws=kws)
    return out


@model("sklearn.preprocessing.normalize")
def m_normalize(I, e, args, kws):
    x = args[0]
    out = mk(args + list(kws.values()), fresh="FRESH", unit=ONE, shape=x.shape, tags={"kind": "ndarray"})
    cp_ = kws.get("copy")
    if cp_ is not None and cp_.known and cp_.const is False:
        I.emit("inplace", e, target=x, value=out, how="method:normalize(copy=False)", tnode=e.args[0] if e.args else e)
    nrm = kws.get("norm")
    out.tags["normalized"] = nrm.const if (nrm is not None and nrm.known) else "l2"
    if out.tags["normalized"] == "l1" and x.sign in ("NONNEG", "POS"):
        out.tags["simplex_rows"] = True
        out.sign = "NONNEG"
    out.tags["scale_free"] = True
    out.tags["deg"] = {}                          # rows are divided by their own norm: degree 0 in the input
    return out


@model("sklearn.decomposition.NMF")
def m_nmf(I, e, args, kws):
    rs = kws.get("random_state")
    out = mk(args + list(kws.values()), tags={"kind": "nmf"})
    I.emit("rng_create", e, seed=rs, result=out, sklearn=True)
    if rs is None:
        out.data |= {f"entropy@{I.fr.fn.module.relpath}:{e.lineno}"}
        out.tags["unseeded"] = True
    return out


@model("sklearn.decomposition.PCA")
def m_pca(I, e, args, kws):
    return mk(args + list(kws.values()), tags={"kind": "pca"})


@model("scipy.interpolate.interp1d")
def m_interp1d(I, e, args, kws):
    out = mk(args + list(kws.values()), tags={"kind": "interp", "callable": True,
                                              "interp_of": (args[0], args[1], kws.get("axis"))})
    I.emit("interp1d", e, x=args[0], y=args[1], axis=kws.get("axis"), assume_sorted=kws.get("assume_sorted"))
    return out


@model("scipy.stats.entropy")
def m_entropy(I, e, args, kws):
    # scipy normalises pk and qk to sum 1: the result is invariant to the scale of either argument
    out = mk(args + list(kws.values()), fresh="FRESH", unit=ONE, sign="NONNEG", shape=S())
    out.tags["scale_free"] = True
    out.tags["deg"] = {}
    return out


@model("quadprog.solve_qp")
def m_solve_qp(I, e, args, kws):
    return mk(args + list(kws.values()), fresh="FRESH")


@model("sklearn.feature_selection.mutual_info_regression")
def m_mi(I, e, args, kws):
    return mk(args + list(kws.values()), fresh="FRESH")


# =================================================================== cvxpy
CVX_ADDITIVE = {"sum", "sum_squares", "quad_over_lin"}
CVX_MONO_ADDITIVE = {"norm2", "norm_fro", "norm1"}       # monotone transforms of additive reducers (objective use)
CVX_COUPLING = {"max", "min", "norm_inf", "log_sum_exp", "geo_mean", "harmonic_mean", "lambda_max", "sigma_max"}
CVX_ELEMENTWISE = {"abs", "log", "square", "sqrt", "exp", "pos", "neg", "power", "entr", "inv_pos", "multiply",
                   "maximum", "minimum", "huber"}


def cvx_leaf(I, e, kind, args, kws):
    shp = arg(args, kws, 0, "shape")
    attrs = {}
    for k in ("pos", "nonneg", "neg", "nonpos", "symmetric", "PSD", "boolean", "integer"):
        v = kws.get(k)
        if v is not None:
            attrs[k] = True if (v.known and v.const) else (None if not v.known else False)
    rest = kws.get("**")
    if rest is not None:
        kw = rest.tag("kw")
        if kw:
            for k, v in kw.items():
                attrs[k] = True if (v.known and v.const) else (None if not v.known else False)
        elif not rest.known:
            attrs["**"] = None
    obj = I.new_obj("cvxvar" if kind == "Variable" else "cvxparam", e, **attrs)
    obj.shape = shape_from_arg(shp) if shp is not None else Shape([])
    obj.attrs["decl_guards"] = tuple(I.fr.guards)
    obj.attrs["decl_kws"] = {k: v for k, v in kws.items()}
    p = I.prior_obj(obj)
    if p is not None:
        if p.unit is not None and obj.unit is None:
            obj.unit = p.unit
        if p.frame is not None and obj.frame is None:
            obj.frame = p.frame
    sd = deps_of([shp] if shp is not None else [])
    out = Val(shp=sd[0] | sd[1], ctrl=sd[2] | I.fr.ctrl[-1], refs={obj.id}, shape=obj.shape, unit=obj.unit,
              frame=obj.frame, term=("cvx", kind, obj.id),
              tags={"cvx": "leaf", "leafkind": kind, "notnone": True})
    out.sign = "POS" if attrs.get("pos") else ("NONNEG" if attrs.get("nonneg") else None)
    I.emit("cvx_leaf", e, obj=obj.id, kind=kind, attrs=attrs)
    return out


@model("cvxpy.Variable")
def m_cvx_variable(I, e, args, kws):
    return cvx_leaf(I, e, "Variable", args, kws)


@model("cvxpy.Parameter")
def m_cvx_parameter(I, e, args, kws):
    return cvx_leaf(I, e, "Parameter", args, kws)


def cvx_expr(I, e, atom, operands, shape=None, unit=None, frame=None, extra=()):
    out = mk(list(operands) + list(extra), term=mk_term("cvx", atom, *[o.term for o in operands]))
    out.shape, out.unit, out.frame = shape, unit, frame
    out.tags = {"cvx": "expr", "atom": (atom, list(operands)), "node": e, "notnone": True}
    if any(not o.tag("cvx") and (o.flat().data or o.flat().shp) for o in operands):
        I.emit("cvx_entry", e, val=out, atom=atom, operands=[o for o in operands if not o.tag("cvx")])   # numeric data enters a cvx expression
    return out


def cvx_binop(I, node, op, opn, l, r):
    from .extern import frame_addsub, frame_mul
    if isinstance(op, ast.MatMult):
        shape = matmul_shape(I, node, l, r)
        unit = umul(l.unit, r.unit, 1)
        frame = frame_mul(I, node, l, r, True)
    elif isinstance(op, (ast.Add, ast.Sub)):
        shape = broadcast_shapes(I, node, [l, r], report=True, what="cvxpy operands")
        unit = None
        if l.unit is not None and r.unit is not None:
            ok, unit = ueq(l.unit, r.unit)
            if not ok:
                I.type_error(node, "QTY", f"[{ustr(l.unit)}] {'+' if isinstance(op, ast.Add) else '−'} [{ustr(r.unit)}] "
                                          f"in a cvxpy expression", units=(l.unit, r.unit),
                             sub=("literal" if (l.unit == ONE and l.tag("isnum")) or (r.unit == ONE and r.tag("isnum"))
                                  else "mismatch"))
                unit = None
        frame = frame_addsub(I, node, isinstance(op, ast.Add), l, r)
    elif isinstance(op, ast.Mult):
        shape = broadcast_shapes(I, node, [l, r], report=True, what="cvxpy operands")
        unit = umul(l.unit, r.unit, 1)
        frame = frame_mul(I, node, l, r, False)
    elif isinstance(op, ast.Div):
        shape = broadcast_shapes(I, node, [l, r], report=True, what="cvxpy operands")
        unit = umul(l.unit, r.unit, -1)
        frame = l.frame if r.frame is None else None
    elif isinstance(op, ast.Pow):
        shape = l.shape
        n = r.const if r.known and isinstance(r.const, int) else None
        unit = upow(l.unit, n) if n is not None else None
        frame = None
    else:
        shape, unit, frame = None, None, None
    out = cvx_expr(I, node, opn, [l, r], shape, unit, frame)
    return out


def _cvx_reduce(atom):
    def f(I, e, args, kws):
        x = args[0]
        ax = axis_arg(args, kws, {"norm2": 1, "sum": 1, "max": 1, "min": 1}.get(atom), None)
        kd = kws.get("keepdims")
        shape = reduce_shape(x.shape, ax, bool(kd is not None and kd.known and kd.const))
        unit = x.unit
        if atom == "sum_squares":
            unit = upow(x.unit, 2)
            shape = Shape([])
        out = cvx_expr(I, e, atom, [x], shape, unit, None if atom != "sum" else x.frame,
                       extra=[v for k, v in kws.items()])
        out.tags["reduce_axis"] = ax
        out.tags["reduce_from"] = x.shape
        I.emit("cvx_reduce", e, atom=atom, operand=x, axis=ax, result=out)
        return out
    return f


for _a in ("sum", "sum_squares", "max", "min", "norm2", "norm_inf", "norm1"):
    MODELS["cvxpy." + _a] = _cvx_reduce(_a)


@model("cvxpy.norm")
def m_cvx_norm(I, e, args, kws):
    x = args[0]
    p = arg(args, kws, 1, "p")
    pc = p.const if (p is not None and p.known) else (2 if p is None else None)
    atom = {1: "norm1", 2: "norm2", "fro": "norm_fro", "inf": "norm_inf", "nuc": "norm_nuc"}.get(pc, "norm?")
    ax = axis_arg(args, kws, 2, None)
    shape = reduce_shape(x.shape, ax, False)
    out = cvx_expr(I, e, atom, [x], shape, x.unit, None, extra=[v for k, v in kws.items()] + ([p] if p is not None else []))
    out.tags["reduce_axis"] = ax
    out.tags["reduce_from"] = x.shape
    I.emit("cvx_reduce", e, atom=atom, operand=x, axis=ax, result=out)
    return out


def _cvx_elem(atom, unit_fn=lambda x: x.unit, frame_fn=lambda x: None):
    def f(I, e, args, kws):
        x = args[0]
        return cvx_expr(I, e, atom, [x], x.shape, unit_fn(x), frame_fn(x), extra=list(args[1:]) + list(kws.values()))
    return f


MODELS["cvxpy.abs"] = _cvx_elem("abs")
MODELS["cvxpy.log"] = _cvx_elem("log", lambda x: ONE)
MODELS["cvxpy.square"] = _cvx_elem("square", lambda x: upow(x.unit, 2))
MODELS["cvxpy.sqrt"] = _cvx_elem("sqrt", lambda x: None)
MODELS["cvxpy.exp"] = _cvx_elem("exp", lambda x: ONE)
MODELS["cvxpy.pos"] = _cvx_elem("pos")
MODELS["cvxpy.neg"] = _cvx_elem("neg")
MODELS["cvxpy.entr"] = _cvx_elem("entr", lambda x: None)


@model("cvxpy.huber")
def m_cvx_huber(I, e, args, kws):
    """huber(x, M): x² for |x| ≤ M, 2M|x| − M² beyond — the threshold M is a constant in the units of x"""
    x = args[0]
    M_ = arg(args, kws, 1, "M")
    if isinstance(x.unit, dict) and x.unit and (M_ is None or (M_.known and _num_lit(M_.const)) or M_.unit in (ONE, None)):
        I.type_error(e, "QTY", f"huber loss with a dimensionless threshold M={'1 (default)' if M_ is None else M_.const if M_.known else '…'} applied "
                               f"to a residual in [{ustr(x.unit)}]: the quadratic/linear switch sits at a fixed number of the caller's units, so "
                               f"the fit changes when captures are expressed in other units", sub="mismatch")
    return cvx_expr(I, e, "huber", [x], x.shape, None, None, extra=list(args[1:]) + list(kws.values()))


@model("cvxpy.multiply")
def m_cvx_multiply(I, e, args, kws):
    return cvx_binop(I, e, ast.Mult(), "mul", args[0], args[1])


@model("cvxpy.matmul")
def m_cvx_matmul(I, e, args, kws):
    return cvx_binop(I, e, ast.MatMult(), "matmul", args[0], args[1])


@model("cvxpy.diff")
def m_cvx_diff(I, e, args, kws):
    x = args[0]
    shape = None
    if x.shape is not None and x.shape.axes:
        shape = Shape((None,) + tuple(x.shape.axes[1:]))
    return cvx_expr(I, e, "diff", [x], shape, x.unit, None, extra=list(args[1:]) + list(kws.values()))


@model("cvxpy.reshape")
def m_cvx_reshape(I, e, args, kws):
    x = args[0]
    shp = arg(args, kws, 1, "shape")
    order = arg(args, kws, 2, "order")
    if order is None:
        layout = I.ctx.opts.get("cvxpy_reshape_default", "F")
        explicit = False
    else:
        layout = order.const if order.known else None
        explicit = True
    shape = shape_from_arg(shp)
    out = cvx_expr(I, e, "reshape", [x], shape, x.unit, x.frame, extra=[shp] + ([order] if order is not None else []))
    out.tags["reshape_layout"] = layout
    out.tags["reshape_from"] = x.shape
    I.emit("cvx_reshape", e, src=x, shape=shape, layout=layout, explicit=explicit, result=out)
    return out


@model("cvxpy.vstack", "cvxpy.hstack", "cvxpy.bmat")
def m_cvx_stack(I, e, args, kws):
    return cvx_expr(I, e, "stack", args, None, None, None)


@model("cvxpy.Minimize", "cvxpy.Maximize")
def m_cvx_objective(I, e, args, kws):
    x = args[0]
    sense = "Minimize" if "Minimize" in M.norm_text(e.func) else "Maximize"
    out = cvx_expr(I, e, sense, [x], x.shape, x.unit, None)
    out.tags["cvx"] = "objective"
    out.tags["sense"] = sense
    I.emit("cvx_objective", e, sense=sense, expr=x, result=out)
    return out


@model("cvxpy.Problem")
def m_cvx_problem(I, e, args, kws):
    obj_v = arg(args, kws, 0, "objective")
    cons = arg(args, kws, 1, "constraints")
    po = I.new_obj("cvxproblem", e)
    po.attrs["objective"] = obj_v
    po.attrs["constraints"] = cons
    po.attrs["guards"] = tuple(I.fr.guards)
    out = mk([v for v in (obj_v, cons) if v is not None], refs=frozenset({po.id}) | (obj_v.flat().refs if obj_v is not None else E)
             | (cons.flat().refs if cons is not None else E),
             tags={"cvx": "problem", "problem": po.id, "notnone": True}, term=("cvx", "Problem", po.id))
    I.emit("cvx_problem", e, obj=po.id, objective=obj_v, constraints=cons)
    return out


def constraint_vals(I, cons):
    """All constraint Vals reachable from a constraints list value (through the heap list)."""
    out = []
    if cons is None:
        return out
    seen = set()
    def walk(v):
        if v is None:
            return
        if v.tag("cvx") == "constraint" and v.tag("alts"):
            for x in v.tag("alts"):
                walk(x)
            return
        if v.tag("cvx") == "constraint":
            if id(v) not in seen:
                seen.add(id(v))
                out.append(v)
            return
        if v.items is not None:
            for it in v.items:
                walk(it)
        if v.tag("parts") is not None:
            for p in v.tag("parts"):
                walk(p)
        el = v.tag("elem")
        if el is not None:
            walk(el)
    walk(cons)
    # list objects mutated through .append/.extend keep every stored constraint as an event
    lids = {o for o in cons.flat().refs if o in I.ctx.trace.heap and I.ctx.trace.heap[o].kind == "list"}
    for ev in I.ctx.trace.of("list_mutate"):
        if ev.d["target"].refs & lids:
            for it in ev.d["items"]:
                walk(it)
    return out


def problem_closure(I, po):
    """DEPS closure of a problem: objective, constraints, and every value stored into its leaves."""
    heap = I.ctx.trace.heap
    vals = [po.attrs.get("objective"), po.attrs.get("constraints")]
    d = s = c = E
    seen = set()
    todo = []
    for v in vals:
        if v is None:
            continue
        f = v.flat()
        d |= f.data
        s |= f.shp
        c |= f.ctrl
        todo += list(f.refs)
    cons = po.attrs.get("constraints")
    for cv in constraint_vals(I, cons):
        f = cv.flat()
        d |= f.data
        s |= f.shp
        c |= f.ctrl
        todo += list(f.refs)
    while todo:
        oid = todo.pop()
        if oid in seen or oid == po.id:
            continue
        seen.add(oid)
        o = heap.get(oid)
        if o is None or o.content is None:
            continue
        if o.kind == "cvxvar":
            continue            # solution values are outputs, not inputs
        d |= o.content.data
        s |= o.content.shp
        c |= o.content.ctrl
        todo += list(o.content.refs)
    return d, s, c


def problem_leaves(I, po, which=("cvxvar", "cvxparam")):
    heap = I.ctx.trace.heap
    out = set()
    vals = [po.attrs.get("objective"), po.attrs.get("constraints")] + constraint_vals(I, po.attrs.get("constraints"))
    todo = []
    for v in vals:
        if v is not None:
            todo += list(v.flat().refs)
    seen = set()
    while todo:
        oid = todo.pop()
        if oid in seen:
            continue
        seen.add(oid)
        o = heap.get(oid)
        if o is None:
            continue
        if o.kind in which:
            out.add(oid)
        if o.kind == "list" and o.content is not None:
            todo += list(o.content.refs)
    return out


def problem_method(I, e, base, attr, args, kws):
    heap = I.ctx.trace.heap
    pids = [o for o in base.refs if o in heap and heap[o].kind == "cvxproblem"]
    if attr == "solve":
        kwd = deps_of(list(kws.values()) + args)
        for pid in pids:
            po = heap[pid]
            d, s, c = problem_closure(I, po)
            # solutions of earlier problems are ordinary inputs here: keep only direct solution marks
            d = frozenset(x for x in d if not x.startswith(("sol#", "par#")))
            sol = Val(data=d | kwd[0], shp=s | kwd[1], ctrl=c | kwd[2] | I.fr.ctrl[-1])
            for vid in problem_leaves(I, po, ("cvxvar",)):
                vo = heap[vid]
                vo.store(sol)
                vo.attrs.setdefault("solved_by", set()).add(pid)
            po.attrs.setdefault("solves", []).append(e)
            po.store(sol)
            I.emit("solve", e, problem=pid, kws=kws, args=args,
                   params=sorted(problem_leaves(I, po, ("cvxparam",))),
                   variables=sorted(problem_leaves(I, po, ("cvxvar",))))
        return mk([base] + list(kws.values()), shape=S())
    # is_dcp / is_dqcp / is_dpp: curvature self-check
    I.emit("curvature_check", e, problem=pids, method=attr, kws=kws)
    return Val(tags={"kind": "bool"}, shp=base.flat().shp)


def cvx_method(I, e, base, attr, args, kws):
    if attr in ("is_dcp", "is_dqcp", "is_dpp", "is_nonneg", "is_pos"):
        return Val(tags={"kind": "bool"})
    if attr in ("sum", "max", "min"):
        return MODELS["cvxpy." + attr](I, e, [base] + args, kws)
    if attr == "reshape":
        return m_cvx_reshape(I, e, [base] + args, kws)
    if attr == "flatten":
        o = kws.get("order") or (args[0] if args else None)
        x = base
        d = ()
        if x.shape is not None and not x.shape.ell:
            for a in x.shape.axes:
                d = dim_mul(d, a)
        out = cvx_expr(I, e, "reshape", [x], Shape([d]) if x.shape is not None and not x.shape.ell else None, x.unit, x.frame)
        out.tags["reshape_layout"] = o.const if (o is not None and o.known) else I.ctx.opts.get("cvxpy_reshape_default", "F")
        return out
    I.emit("opaque_method", e, base=base, attr=attr, args=args, kws=kws)
    return cvx_expr(I, e, "method:" + attr, [base] + args, None, None, None)


# =================================================================== pint
@model("pint.UnitRegistry")
def m_ureg(I, e, args, kws):
    return Val(tags={"kind": "ureg", "notnone": True}, term=("ureg",))


@model("pint.Context", "pint.set_application_registry")
def m_pint_misc(I, e, args, kws):
    return Val(tags={"kind": "pintctx"})


def ureg_unit(I, e, args, kws):
    """ureg("I") : the unit quantity 1·I"""
    a0 = args[0] if args else None
    out = mk(args, tags={"kind": "pintq", "pint_unit": a0.const if (a0 is not None and a0.known) else None, "deg": {}, "notnone": True})
    out.shape = S()
    out.shp |= out.data
    out.data = E
    I.emit("pint_unit", e, unit=a0)
    return out


UREG_CONSTANTS = {"planck_constant", "speed_of_light", "N_A", "avogadro_constant", "avogadro_number", "boltzmann_constant", "h", "c"}


@model("pint.to")
def m_pint_to(I, e, args, kws):
    base = args[0]
    out = base.copy(term=mk_term("to", base.term))
    out.items = None
    for a in args[1:2]:
        out.ctrl |= a.flat().data
    out.tags = dict(base.tags, kind="pintq", pint_converted=True)
    I.emit("pint_to", e, base=base, target=args[1] if len(args) > 1 else None)
    return out


@model("numpy.swapaxes")
def m_swapaxes(I, e, args, kws):
    x = args[0]
    a1, a2 = const_int(args[1]) if len(args) > 1 else None, const_int(args[2]) if len(args) > 2 else None
    out = x.copy(term=mk_term("swapaxes", x.term))
    out.items = None
    s_ = x.shape
    if s_ is not None and not s_.ell and a1 is not None and a2 is not None:
        ax = list(s_.axes)
        try:
            ax[a1], ax[a2] = ax[a2], ax[a1]
            out.shape = Shape(ax)
        except IndexError:
            out.shape = None
    else:
        out.shape = None
    return out


@model("numpy.moveaxis")
def m_moveaxis(I, e, args, kws):
    x = args[0]
    a1, a2 = const_int(args[1]) if len(args) > 1 else None, const_int(args[2]) if len(args) > 2 else None
    out = x.copy(term=mk_term("moveaxis", x.term))
    out.items = None
    s_ = x.shape
    if s_ is not None and not s_.ell and a1 is not None and a2 is not None:
        ax = list(s_.axes)
        n = len(ax)
        try:
            item = ax.pop(a1 if a1 >= 0 else n + a1)
            ax.insert(a2 if a2 >= 0 else n + a2, item)
            out.shape = Shape(ax)
        except IndexError:
            out.shape = None
    else:
        out.shape = None
    return out
