"""Sensitivity sweep (thorough tier): for the constructs the rules rest on, apply a canonical breaking edit to an
IN-MEMORY copy of the module's AST (nothing is written, nothing of dreye is executed), re-run the property's quick
analysis on the variant, and record whether a VIOLATED obligation appears.  A mutant that is 'killed' proves that
the corresponding obligation is not vacuous on today's code shape; survivors are listed in the evidence (they are
either behaviour-preserving for this property or outside the clauses it decides)."""
from __future__ import annotations
import ast
import copy
import importlib
import multiprocessing as mp
import os

from .model import Model, norm_text
from .engine import Analyzer, Report, VIOLATED


class Mut:
    def __init__(self, relpath, func, lineno, op, before, after):
        self.relpath, self.func, self.lineno, self.op, self.before, self.after = relpath, func, lineno, op, before, after
        self.src = None

    def label(self):
        return f"{self.relpath}:{self.lineno} [{self.op}] {self.func}: `{self.before[:60]}` → `{self.after[:60]}`"


def _kw_calls(fn_node):
    for n in ast.walk(fn_node):
        if isinstance(n, ast.Call):
            yield n


DROP_KW = {"K", "baseline", "relative", "seed", "prefix", "return_units", "lb", "ub", "W", "batch_size", "bounded", "axis", "order",
           "random_state", "n", "eps", "error", "model", "l2_eps", "underdetermined_opt", "Epsilon", "L1", "l1_eps", "norm",
           "neutral_point", "delta_norm1", "delta_radius", "adaptive_objective", "scale_w", "mask", "lbp", "ubp", "subsample",
           "equal_l1norm_constraint", "metric", "center", "center_to_neutral", "at_l1", "engine", "domain", "pad", "normalized",
           "dx", "x", "keepdims"}


def mutants_of_function(module, fn):
    """Yield (op, description-before, description-after, mutate(tree_copy)) for one function."""
    out = []
    fnode = fn.node
    idx = {id(n): i for i, n in enumerate(ast.walk(fnode))}

    def add(op, node, after_txt, apply):
        out.append((op, getattr(node, "lineno", fnode.lineno), norm_text(node), after_txt, idx[id(node)], apply))

    for n in ast.walk(fnode):
        if isinstance(n, ast.Call):
            for k, kw in enumerate(n.keywords):
                if kw.arg in DROP_KW:
                    add("drop-keyword", n, f"without {kw.arg}=", lambda m, k=k: m.keywords.pop(k))
            f = n.func
            fname = f.attr if isinstance(f, ast.Attribute) else (f.id if isinstance(f, ast.Name) else "")
            if fname in ("Minimize", "Maximize"):
                add("flip-sense", n, "Maximize" if fname == "Minimize" else "Minimize",
                    lambda m, fname=fname: setattr(m.func, "attr" if isinstance(m.func, ast.Attribute) else "id",
                                                   "Maximize" if fname == "Minimize" else "Minimize"))
            if fname in ("sum_squares", "sum") and isinstance(f, ast.Attribute) and isinstance(f.value, ast.Name) and f.value.id == "cp":
                add("reducer→max", n, "cp.max(...)", lambda m: setattr(m.func, "attr", "max"))
            if fname == "copy" and isinstance(f, ast.Attribute) and not n.args:
                add("drop-copy", n, norm_text(f.value), lambda m: "REPLACE_WITH_RECEIVER")
            if fname in ("append", "extend") and isinstance(f, ast.Attribute):
                add("drop-append", n, "(constraint not added)", lambda m: "REPLACE_WITH_NONE")
            if fname == "default_rng" and n.args:
                add("unseed", n, "default_rng()", lambda m: m.args.clear())
        if isinstance(n, ast.Attribute) and n.attr == "T" and isinstance(n.ctx, ast.Load):
            add("drop-transpose", n, norm_text(n.value), lambda m: "REPLACE_WITH_VALUE")
        if isinstance(n, ast.BinOp) and isinstance(n.op, ast.Sub) and isinstance(n.right, ast.Name) and n.right.id in ("baseline", "offset", "center"):
            add("drop-subtraction", n, norm_text(n.left), lambda m: "REPLACE_WITH_LEFT")
        if isinstance(n, ast.BinOp) and isinstance(n.op, ast.Add) and isinstance(n.right, (ast.Name, ast.Subscript)) \
                and norm_text(n.right).startswith(("baseline", "center", "lb")):
            add("drop-addition", n, norm_text(n.left), lambda m: "REPLACE_WITH_LEFT")
        if isinstance(n, ast.BinOp) and isinstance(n.op, ast.Mult) and isinstance(n.right, ast.Name) and n.right.id in ("w", "domain", "K"):
            add("drop-factor", n, norm_text(n.left), lambda m: "REPLACE_WITH_LEFT")
        if isinstance(n, ast.Assign) and len(n.targets) == 1 and isinstance(n.targets[0], ast.Attribute) and n.targets[0].attr == "value":
            add("drop-parameter-store", n, "(store removed)", lambda m: "REPLACE_STMT_WITH_PASS")
        if isinstance(n, ast.Subscript) and isinstance(n.slice, ast.Tuple) and any(isinstance(x, ast.Constant) and x.value is None for x in n.slice.elts) \
                and isinstance(n.ctx, ast.Load) and len(n.slice.elts) >= 3:
            def swap(m):
                els = m.slice.elts
                i = [k for k, x in enumerate(els) if isinstance(x, ast.Constant) and x.value is None][0]
                j = i + 1 if i + 1 < len(els) and isinstance(els[i + 1], ast.Slice) else i - 1
                if 0 <= j < len(els):
                    els[i], els[j] = els[j], els[i]
            add("move-newaxis", n, "None moved by one position", swap)
        if isinstance(n, ast.IfExp) and isinstance(n.orelse, ast.Constant) and n.orelse.value is None and isinstance(n.test, ast.Name):
            add("ignore-flag", n, norm_text(n.body), lambda m: "REPLACE_WITH_BODY")
    return out


class _Replacer(ast.NodeTransformer):
    def __init__(self, target_index, fnode, action):
        self.target, self.action = None, action
        for i, n in enumerate(ast.walk(fnode)):
            if i == target_index:
                self.target = n
        self.done = False

    def visit(self, node):
        if node is self.target and not self.done:
            self.done = True
            r = self.action(node)
            if r == "REPLACE_WITH_RECEIVER":
                return node.func.value
            if r == "REPLACE_WITH_VALUE":
                return node.value
            if r == "REPLACE_WITH_LEFT":
                return node.left
            if r == "REPLACE_WITH_BODY":
                return node.body
            if r == "REPLACE_WITH_NONE":
                return ast.copy_location(ast.Constant(value=None), node)
            if r == "REPLACE_STMT_WITH_PASS":
                return ast.copy_location(ast.Pass(), node)
            return node
        return self.generic_visit(node)


def generate(model, quals, limit=None):
    """All mutants of the functions named by `quals` (FuncInfo.qual), as in-memory sources."""
    muts = []
    for q in sorted(quals):
        mod, _, name = q.partition(":")
        m = model.modules.get(mod)
        if m is None:
            continue
        fn = model.method(mod, *name.split(".")) if "." in name else model.func(mod, name)
        if fn is None or "plotting" in mod or "lsq_nonlinear" in mod:
            continue
        for (op, lineno, before, after, tidx, apply) in mutants_of_function(m, fn):
            tree = copy.deepcopy(m.tree)
            # locate the same function in the copy
            target_fn = None
            for n in ast.walk(tree):
                if isinstance(n, ast.FunctionDef) and n.name == fn.node.name and n.lineno == fn.node.lineno:
                    target_fn = n
            if target_fn is None:
                continue
            rp = _Replacer(tidx, target_fn, apply)
            new_fn = rp.visit(target_fn)
            if not rp.done:
                continue
            ast.fix_missing_locations(tree)
            try:
                src = ast.unparse(tree)
                compile(src, m.relpath, "exec")
            except Exception:
                continue
            mu = Mut(m.relpath, fn.name, lineno, op, before, after)
            mu.src = src
            muts.append(mu)
    if limit and len(muts) > limit:
        step = len(muts) / limit
        muts = [muts[int(i * step)] for i in range(limit)]
    return muts


def _run_one(args):
    prop, relpath, src, label, base_keys = args
    try:
        os.environ["VERIF_SWEEP"] = "1"
        mod = importlib.import_module(f"sa.props.{prop}")
        an = Analyzer(Model(overrides={relpath: src}), opts=getattr(mod, "OPTS", {}))
        rep = Report(prop, "quick", an)
        mod.check(rep, an, "quick")
        new = sorted({(o.rule, o.instance) for o in rep.obls if o.status == VIOLATED and o.key not in base_keys})
        return label, "killed" if new else "survived", [f"{r}: {i}" for r, i in new[:3]]
    except Exception as ex:
        return label, "analysis-error", [f"{type(ex).__name__}: {ex}"[:120]]


def sweep(prop, an, base_report, jobs=None, limit=400):
    """Run the sweep for one property; returns a dict for the evidence file."""
    quals = {q for q in an.funcs_reached}
    muts = generate(an.model, quals, limit=limit)
    base_keys = {o.key for o in base_report.obls if o.status == VIOLATED}
    tasks = [(prop, m.relpath, m.src, m.label(), base_keys) for m in muts]
    jobs = jobs or min(16, os.cpu_count() or 4)
    res = []
    if tasks:
        ctx = mp.get_context("fork")
        with ctx.Pool(jobs) as pool:
            res = pool.map(_run_one, tasks, chunksize=max(1, len(tasks) // (jobs * 4)))
    killed = [r for r in res if r[1] == "killed"]
    surv = [r for r in res if r[1] == "survived"]
    errs = [r for r in res if r[1] == "analysis-error"]
    by_op = {}
    for (label, st, why), m in zip(res, muts):
        d = by_op.setdefault(m.op, {"killed": 0, "survived": 0, "analysis-error": 0})
        d[st] += 1
    return {"mutants": len(res), "killed": len(killed), "survived": len(surv), "analysis_error": len(errs), "by_operator": by_op,
            "killed_examples": [{"mutant": l, "obligations": w} for l, st, w in killed[:25]],
            "survivors": [l for l, st, w in surv[:60]],
            "functions_mutated": len(quals)}
