"""Sensitivity sweep (thorough tier): for the constructs the rules rest on, apply a canonical breaking edit to an
IN-MEMORY copy of the module's AST (nothing is written, nothing of dreye is executed), re-run the property's quick
analysis on the variant, and record whether a VIOLATED obligation appears.  A mutant that is 'killed' proves that
the corresponding obligation is not vacuous on today's code shape; survivors are listed in the evidence (they are
either behaviour-preserving for this property or outside the clauses it decides)."""
from __future__ import annotations
import ast
import copy
import importlib
import multiprocessing as mp
import os

from .model import Model, norm_text
from .engine import Analyzer, Report, VIOLATED


class Mut:
    def __init__(self, relpath, func, lineno, op, before, after):
        self.relpath, self.func, self.lineno, self.op, self.before, self.after = relpath, func, lineno, op, before, after
        self.src = None

    def label(self):
        return f"{self.relpath}:{self.lineno} [{self.op}] {self.func}: `{self.before[:60]}` → `{self.after[:60]}`"


def _kw_calls(fn_node):
    for n in ast.walk(fn_node):
        if isinstance(n, ast.Call):
            yield n


DROP_KW = {"K", "baseline", "relative", "seed", "prefix", "return_units", "lb", "ub", "W", "batch_size", "bounded", "axis", "order",
           "random_state", "n", "eps", "error", "model", "l2_eps", "underdetermined_opt", "Epsilon", "L1", "l1_eps", "norm",
           "neutral_point", "delta_norm1", "delta_radius", "adaptive_objective", "scale_w", "mask", "lbp", "ubp", "subsample",
           "equal_l1norm_constraint", "metric", "center", "center_to_neutral", "at_l1", "engine", "domain", "pad", "normalized",
           "dx", "x", "keepdims"}


def mutants_of_function(module, fn):
    """Yield (op, description-before, description-after, mutate(tree_copy)) for one function."""
    out = []
    fnode = fn.node
    idx = {id(n): i for i, n in enumerate(ast.walk(fnode))}

    def add(op, node, after_txt, apply):
        out.append((op, getattr(node, "lineno", fnode.lineno), norm_text(node), after_txt, idx[id(node)], apply))

    for n in ast.walk(fnode):
        if isinstance(n, ast.Call):
            for k, kw in enumerate(n.keywords):
                if kw.arg in DROP_KW:
                    add("drop-keyword", n, f"without {kw.arg}=", lambda m, k=k: m.keywords.pop(k))
            f = n.func
            fname = f.attr if isinstance(f, ast.Attribute) else (f.id if isinstance(f, ast.Name) else "")
            if fname in ("Minimize", "Maximize"):
                add("flip-sense", n, "Maximize" if fname == "Minimize" else "Minimize",
                    lambda m, fname=fname: setattr(m.func, "attr" if isinstance(m.func, ast.Attribute) else "id",
                                                   "Maximize" if fname == "Minimize" else "Minimize"))
            if fname in ("sum_squares", "sum") and isinstance(f, ast.Attribute) and isinstance(f.value, ast.Name) and f.value.id == "cp":
                add("reducer→max", n, "cp.max(...)", lambda m: setattr(m.func, "attr", "max"))
            if fname == "copy" and isinstance(f, ast.Attribute) and not n.args:
                add("drop-copy", n, norm_text(f.value), lambda m: "REPLACE_WITH_RECEIVER")
            if fname in ("append", "extend") and isinstance(f, ast.Attribute):
                add("drop-append", n, "(constraint not added)", lambda m: "REPLACE_WITH_NONE")
            if fname == "default_rng" and n.args:
                add("unseed", n, "default_rng()", lambda m: m.args.clear())
        if isinstance(n, ast.Attribute) and n.attr == "T" and isinstance(n.ctx, ast.Load):
            add("drop-transpose", n, norm_text(n.value), lambda m: "REPLACE_WITH_VALUE")
        if isinstance(n, ast.BinOp) and isinstance(n.op, ast.Sub) and isinstance(n.right, ast.Name) and n.right.id in ("baseline", "offset", "center"):
            add("drop-subtraction", n, norm_text(n.left), lambda m: "REPLACE_WITH_LEFT")
        if isinstance(n, ast.BinOp) and isinstance(n.op, ast.Add) and isinstance(n.right, (ast.Name, ast.Subscript)) \
                and norm_text(n.right).startswith(("baseline", "center", "lb")):
            add("drop-addition", n, norm_text(n.left), lambda m: "REPLACE_WITH_LEFT")
        if isinstance(n, ast.BinOp) and isinstance(n.op, ast.Mult) and isinstance(n.right, ast.Name) and n.right.id in ("w", "domain", "K"):
            add("drop-factor", n, norm_text(n.left), lambda m: "REPLACE_WITH_LEFT")
        if isinstance(n, ast.Assign) and len(n.targets) == 1 and isinstance(n.targets[0], ast.Attribute) and n.targets[0].attr == "value":
            add("drop-parameter-store", n, "(store removed)", lambda m: "REPLACE_STMT_WITH_PASS")
        if isinstance(n, ast.Subscript) and isinstance(n.slice, ast.Tuple) and any(isinstance(x, ast.Constant) and x.value is None for x in n.slice.elts) \
                and isinstance(n.ctx, ast.Load) and len(n.slice.elts) >= 3:
            def swap(m):
                els = m.slice.elts
                i = [k for k, x in enumerate(els) if isinstance(x, ast.Constant) and x.value is None][0]
                j = i + 1 if i + 1 < len(els) and isinstance(els[i + 1], ast.Slice) else i - 1
                if 0 <= j < len(els):
                    els[i], els[j] = els[j], els[i]
            add("move-newaxis", n, "None moved by one position", swap)
        if isinstance(n, ast.IfExp) and isinstance(n.orelse, ast.Constant) and n.orelse.value is None and isinstance(n.test, ast.Name):
            add("ignore-flag", n, norm_text(n.body), lambda m: "REPLACE_WITH_BODY")
        # ---- operators distilled from the classes of seeded changes of rounds 2 and 3 (DESIGN §9)
        if isinstance(n, ast.Call):
            f = n.func
            fname = f.attr if isinstance(f, ast.Attribute) else (f.id if isinstance(f, ast.Name) else "")
            def rename(new):
                return lambda m: setattr(m.func, "attr" if isinstance(m.func, ast.Attribute) else "id", new)
            if fname in ("all", "any") and isinstance(f, ast.Attribute):
                add("all↔any", n, "any" if fname == "all" else "all", rename("any" if fname == "all" else "all"))
                if n.args and isinstance(n.args[0], ast.Compare) and len(n.args[0].ops) == 1 and isinstance(n.args[0].ops[0], (ast.Eq, ast.NotEq)):
                    def flip(m):
                        c = m.args[0]
                        c.ops[0] = ast.NotEq() if isinstance(c.ops[0], ast.Eq) else ast.Eq()
                    add("==↔!= in mask", n, "comparison negated", flip)
            if fname == "array_equal":
                add("array_equal→allclose", n, "np.allclose(...)", rename("allclose"))
            if fname in ("around", "round", "rint") and isinstance(f, ast.Attribute):
                add("nearest→floor", n, "np.floor(...)", rename("floor"))
            if fname == "int" and n.args and isinstance(n.args[0], ast.Call) and isinstance(n.args[0].func, ast.Attribute) \
                    and n.args[0].func.attr in ("around", "round", "rint") and n.args[0].args:
                add("int(round(x))→int(x)", n, "int(x)", lambda m: m.args.__setitem__(0, m.args[0].args[0]))
            if fname == "tile":
                add("tile→repeat", n, "np.repeat(...)", rename("repeat"))
            if fname == "concatenate" and n.args and isinstance(n.args[0], ast.BinOp) and isinstance(n.args[0].op, ast.Mult) \
                    and isinstance(n.args[0].left, ast.List) and len(n.args[0].left.elts) == 1:
                def to_repeat(m):
                    x, k = m.args[0].left.elts[0], m.args[0].right
                    m.func.attr = "repeat"
                    m.args[:] = [x, k]
                add("concatenate([x]*n)→repeat(x, n)", n, "np.repeat(x, n)", to_repeat)
            if fname == "standard_normal":
                add("normal→uniform", n, "uniform(...)", rename("uniform"))
            if fname == "sort" and isinstance(f, ast.Attribute) and isinstance(f.value, ast.Name) and f.value.id == "np" and n.args:
                add("drop-sort", n, norm_text(n.args[0]), lambda m: ("NODE", m.args[0]))
            if fname in ("l1norm", "l2norm"):
                add("l1norm↔l2norm", n, "l2norm" if fname == "l1norm" else "l1norm", rename("l2norm" if fname == "l1norm" else "l1norm"))
            for k, kw in enumerate(n.keywords):
                if kw.arg == "ord" and isinstance(kw.value, ast.Constant) and kw.value.value in (1, 2):
                    add("ord 1↔2", n, f"ord={3 - kw.value.value}", lambda m, k=k: setattr(m.keywords[k], "value", ast.Constant(value=3 - m.keywords[k].value.value)))
                if kw.arg == "axis" and isinstance(kw.value, (ast.Constant, ast.UnaryOp)):
                    try:
                        v = ast.literal_eval(kw.value)
                    except Exception:
                        v = None
                    if v in (0, -1, 1):
                        nv = {0: -1, -1: 0, 1: 0}[v]
                        add("axis flipped", n, f"axis={nv}", lambda m, k=k, nv=nv: setattr(m.keywords[k], "value", ast.Constant(value=nv)))
            # two keyword arguments of one family with swapped values (delta_norm1/delta_radius, lb/ub, lbp/ubp, l2_eps/l1_eps)
            names = [kw.arg for kw in n.keywords]
            for a_, b_ in (("delta_norm1", "delta_radius"), ("lb", "ub"), ("lbp", "ubp"), ("l2_eps", "l1_eps"), ("xtol", "ftol")):
                if a_ in names and b_ in names:
                    ia, ib = names.index(a_), names.index(b_)
                    def swapkw(m, ia=ia, ib=ib):
                        m.keywords[ia].value, m.keywords[ib].value = m.keywords[ib].value, m.keywords[ia].value
                    add("keyword values swapped", n, f"{a_}=<{b_}>, {b_}=<{a_}>", swapkw)
        if isinstance(n, ast.Assign) and len(n.targets) == 1 and isinstance(n.targets[0], ast.Name) and isinstance(n.value, ast.BinOp) \
                and isinstance(n.value.op, (ast.Sub, ast.Mult, ast.Add)) and isinstance(n.value.left, ast.Name) \
                and n.value.left.id == n.targets[0].id and n.targets[0].id in fn.params:
            add("x = x ∘ y → x ∘= y (in place)", n, f"{n.targets[0].id} {type(n.value.op).__name__}= …",
                lambda m: ("NODE", ast.copy_location(ast.AugAssign(target=ast.Name(id=m.targets[0].id, ctx=ast.Store()), op=m.value.op,
                                                                    value=m.value.right), m)))
        if isinstance(n, ast.Subscript) and isinstance(n.ctx, ast.Load) and isinstance(n.slice, ast.Slice) and n.slice.lower is None \
                and n.slice.upper is not None and n.slice.step is None and isinstance(n.slice.upper, ast.Name):
            add("x[:k] → x[-k:]", n, f"[-{n.slice.upper.id}:]",
                lambda m: setattr(m, "slice", ast.Slice(lower=ast.UnaryOp(op=ast.USub(), operand=m.slice.upper), upper=None, step=None)))
        if isinstance(n, ast.Attribute) and isinstance(n.value, ast.Name) and n.value.id == "self" and isinstance(n.ctx, ast.Load) \
                and n.attr in ("W", "w"):
            add("self.W ↔ self.w", n, "self." + n.attr.swapcase(), lambda m: setattr(m, "attr", m.attr.swapcase()))
        if isinstance(n, ast.Compare) and len(n.ops) == 1 and isinstance(n.ops[0], (ast.Is, ast.IsNot)) \
                and isinstance(n.comparators[0], ast.Constant) and n.comparators[0].value is None and isinstance(n.left, ast.Name) \
                and n.left.id in ("seed", "axes", "axis", "n", "eps", "batch_size"):
            if isinstance(n.ops[0], ast.Is):
                add("`x is None` → `not x`", n, f"not {n.left.id}", lambda m: ("NODE", ast.copy_location(ast.UnaryOp(op=ast.Not(), operand=m.left), m)))
            else:
                add("`x is not None` → `x`", n, n.left.id, lambda m: ("NODE", m.left))
    return out


class _Replacer(ast.NodeTransformer):
    def __init__(self, target_index, fnode, action):
        self.target, self.action = None, action
        for i, n in enumerate(ast.walk(fnode)):
            if i == target_index:
                self.target = n
        self.done = False

    def visit(self, node):
        if node is self.target and not self.done:
            self.done = True
            r = self.action(node)
            if r == "REPLACE_WITH_RECEIVER":
                return node.func.value
            if r == "REPLACE_WITH_VALUE":
                return node.value
            if r == "REPLACE_WITH_LEFT":
                return node.left
            if r == "REPLACE_WITH_BODY":
                return node.body
            if r == "REPLACE_WITH_NONE":
                return ast.copy_location(ast.Constant(value=None), node)
            if r == "REPLACE_STMT_WITH_PASS":
                return ast.copy_location(ast.Pass(), node)
            if isinstance(r, tuple) and r and r[0] == "NODE":
                return r[1]
            return node
        return self.generic_visit(node)


def generate(model, quals, limit=None):
    """All mutants of the functions named by `quals` (FuncInfo.qual), as in-memory sources."""
    muts = []
    for q in sorted(quals):
        mod, _, name = q.partition(":")
        m = model.modules.get(mod)
        if m is None:
            continue
        fn = model.method(mod, *name.split(".")) if "." in name else model.func(mod, name)
        if fn is None or "plotting" in mod or "lsq_nonlinear" in mod:
            continue
        for (op, lineno, before, after, tidx, apply) in mutants_of_function(m, fn):
            tree = copy.deepcopy(m.tree)
            # locate the same function in the copy
            target_fn = None
            for n in ast.walk(tree):
                if isinstance(n, ast.FunctionDef) and n.name == fn.node.name and n.lineno == fn.node.lineno:
                    target_fn = n
            if target_fn is None:
                continue
            rp = _Replacer(tidx, target_fn, apply)
            new_fn = rp.visit(target_fn)
            if not rp.done:
                continue
            ast.fix_missing_locations(tree)
            try:
                src = ast.unparse(tree)
                compile(src, m.relpath, "exec")
            except Exception:
                continue
            mu = Mut(m.relpath, fn.name, lineno, op, before, after)
            mu.src = src
            muts.append(mu)
    if limit and len(muts) > limit:
        step = len(muts) / limit
        muts = [muts[int(i * step)] for i in range(limit)]
    return muts


def _run_one(args):
    prop, relpath, src, label, base_keys = args
    try:
        os.environ["VERIF_SWEEP"] = "1"
        mod = importlib.import_module(f"sa.props.{prop}")
        an = Analyzer(Model(overrides={relpath: src}), opts=getattr(mod, "OPTS", {}))
        rep = Report(prop, "quick", an)
        mod.check(rep, an, "quick")
        new = sorted({(o.rule, o.instance) for o in rep.obls if o.status == VIOLATED and o.key not in base_keys})
        return label, "killed" if new else "survived", [f"{r}: {i}" for r, i in new[:3]]
    except Exception as ex:
        return label, "analysis-error", [f"{type(ex).__name__}: {ex}"[:120]]


def sweep(prop, an, base_report, jobs=None, limit=400):
    """Run the sweep for one property; returns a dict for the evidence file."""
    quals = {q for q in an.funcs_reached}
    muts = generate(an.model, quals, limit=limit)
    base_keys = {o.key for o in base_report.obls if o.status == VIOLATED}
    tasks = [(prop, m.relpath, m.src, m.label(), base_keys) for m in muts]
    jobs = jobs or min(16, os.cpu_count() or 4)
    res = []
    if tasks:
        ctx = mp.get_context("fork")
        with ctx.Pool(jobs) as pool:
            res = pool.map(_run_one, tasks, chunksize=max(1, len(tasks) // (jobs * 4)))
    killed = [r for r in res if r[1] == "killed"]
    surv = [r for r in res if r[1] == "survived"]
    errs = [r for r in res if r[1] == "analysis-error"]
    by_op = {}
    for (label, st, why), m in zip(res, muts):
        d = by_op.setdefault(m.op, {"killed": 0, "survived": 0, "analysis-error": 0})
        d[st] += 1
    return {"mutants": len(res), "killed": len(killed), "survived": len(surv), "analysis_error": len(errs), "by_operator": by_op,
            "killed_examples": [{"mutant": l, "obligations": w} for l, st, w in killed[:25]],
            "survivors": [l for l, st, w in surv[:60]],
            "functions_mutated": len(quals)}
