"""Configuration-specialised abstract interpreter over Python `ast` for dreye.

Syntax-directed walk (the anchored modules use only If/For(+else)/Try/Return/Raise/
Assert/Break/Continue/Yield/With-less code), path-pruning on CONST-decided tests,
joins at merges, loops iterated to a (bounded) fix-point, polyvariant inlining of repo
callees.  Everything observable is written to a Trace as events; rules are queries
over the trace.  Nothing from dreye is imported or executed.
"""
from __future__ import annotations
import ast
import itertools

from .values import (Val, U, E, join, join_all, join_env, const, mk_term, Shape, S, POLY, ONE,
                     umul, upow, ueq, ustr, dim_mul)
from . import model as M

MAX_DEPTH = 9
LOOP_ROUNDS = 3

NORMAL, RETURN, RAISE, BREAK, CONTINUE = "normal", "return", "raise", "break", "continue"


class AbruptRaise(Exception):
    """Control-flow signal: the callee raised on every path under the current configuration."""


class Event:
    __slots__ = ("kind", "node", "fn", "path", "guards", "loops", "handlers", "d")

    def __init__(self, kind, node, fn, path, guards, loops, handlers, d):
        self.kind, self.node, self.fn, self.path = kind, node, fn, path
        self.guards, self.loops, self.handlers, self.d = guards, loops, handlers, d

    @property
    def loc(self):
        return f"{self.fn.module.relpath}:{getattr(self.node, 'lineno', 0)}" if self.fn else "?"

    def text(self):
        return M.norm_text(self.node)

    def __repr__(self):
        return f"<{self.kind} {self.loc} {self.text()[:60]}>"


class HeapObj:
    def __init__(self, oid, kind, node, fn, path):
        self.id, self.kind, self.node, self.fn, self.path = oid, kind, node, fn, path
        self.attrs = {}           # declared attributes (cvx: pos/nonneg/shape…)
        self.content = None       # weak-updated join of stored values
        self.stores = []          # Events of stores into this object
        self.shape = None
        self.unit = None          # inferred/ascribed unit (cvx leaves)
        self.frame = None

    def store(self, v):
        f = v.flat()
        self.content = f if self.content is None else join(self.content, f)


class Trace:
    def __init__(self):
        self.events = []
        self.heap = {}
        self._ids = {}

    def add(self, ev):
        self.events.append(ev)

    def of(self, *kinds):
        return [e for e in self.events if e.kind in kinds]

    def obj_id(self, key):
        if key not in self._ids:
            self._ids[key] = len(self._ids) + 1
        return self._ids[key]


class Ctx:
    """One analysis run: model + trace + external-call models + optional first-pass facts."""

    def __init__(self, model, extern, prior=None, spec=None, opts=None):
        self.model = model
        self.extern = extern
        self.trace = Trace()
        self.prior = prior            # Trace of a previous pass (heap facts for cvx leaves)
        self.spec = spec or {}
        self.opts = opts or {}
        self.selfenv = {}             # 'attr' -> Val  (fields of the one ReceptorEstimator)
        self.self_cls = None          # (modname, clsname) of `self`
        self.warn = []                # analysis notes (unmodelled constructs)
        self.calls_seen = set()       # FuncInfo.qual reached
        self.nodes_seen = 0

    def note(self, msg):
        if msg not in self.warn:
            self.warn.append(msg)


class Frame:
    def __init__(self, fn, env, path, depth):
        self.fn, self.env, self.path, self.depth = fn, env, path, depth
        self.rets, self.yields = [], []
        self.ctrl = [E]
        self.guards = []              # (text, polarity, node)
        self.loops = []               # loop node ids
        self.handlers = []            # exception type names caught around the current point
        self.break_envs = []
        self.cont_envs = []
        self.param_live = set()       # parameters still bound to the caller's object (not re-assigned to a new one)
        self.param_mutated = set()    # … of which some element was stored in place
        self.views = {}               # local name -> local names whose memory it shares (reshape / .T / basic slice / asarray of a local)


_VIEW_METHODS = {"reshape", "view", "transpose", "swapaxes", "squeeze", "ravel"}
_VIEW_FUNCS = {"asarray", "reshape", "transpose", "squeeze", "ravel", "atleast_1d", "atleast_2d", "atleast_3d", "swapaxes", "asanyarray"}


def _view_base(x):
    """name of the local array whose memory the expression (possibly) shares, or None"""
    if isinstance(x, ast.Attribute) and x.attr == "T" and isinstance(x.value, ast.Name):
        return x.value.id
    if isinstance(x, ast.Call) and isinstance(x.func, ast.Attribute):
        if x.func.attr in _VIEW_METHODS and isinstance(x.func.value, ast.Name) and x.func.value.id not in ("np", "numpy"):
            return x.func.value.id
        if x.func.attr in _VIEW_FUNCS and isinstance(x.func.value, ast.Name) and x.func.value.id in ("np", "numpy") and x.args \
                and isinstance(x.args[0], ast.Name) and not any(k.arg == "dtype" for k in x.keywords):
            return x.args[0].id
    if isinstance(x, ast.Subscript) and isinstance(x.value, ast.Name):
        els = x.slice.elts if isinstance(x.slice, ast.Tuple) else [x.slice]
        if all(isinstance(e, ast.Slice) or (isinstance(e, ast.Constant) and (e.value is None or e.value is Ellipsis or isinstance(e.value, int)))
               for e in els):
            return x.value.id
    return None


def _origin_val(name, **kw):
    return Val(data={name}, term=("in", name), fresh=("ALIAS", frozenset({name})), **kw)


class Interp:
    def __init__(self, ctx: Ctx):
        self.ctx = ctx
        self.fr = None

    # ================================================================ entry
    def run_function(self, fn, args=None, kws=None, self_val=None, path=(), depth=0, call_node=None):
        """Interpret `fn` with abstract arguments; returns the (joined) result Val."""
        ctx = self.ctx
        ctx.calls_seen.add(fn.qual)
        args = list(args or [])
        kws = dict(kws or {})
        env = {}
        params = list(fn.params)
        if fn.cls and params and params[0] == "self":
            env["self"] = self_val if self_val is not None else Val(tags={"kind": "self"}, term=("self",))
            params = params[1:]
        # defaults (evaluated in a scratch frame of the callee's module)
        saved = self.fr
        self.fr = Frame(fn, {}, path + (fn.qual,), depth)
        for p, d in fn.defaults.items():
            dv = self.ev(d)
            dv.tags = dict(dv.tags, is_default=True)
            if isinstance(d, (ast.Dict, ast.List, ast.Set, ast.ListComp, ast.DictComp, ast.SetComp)) or (
                    isinstance(d, ast.Call) and isinstance(d.func, ast.Name) and d.func.id in ("dict", "list", "set", "defaultdict", "OrderedDict")):
                # a mutable default is created ONCE, at definition time: it is module-level state shared by all calls
                dv.tags["module_const"] = f"default of {fn.name}({p}=…)"
            env[p] = dv
        self.fr = saved
        extra_pos = []
        for i, a in enumerate(args):
            if i < len(params):
                env[params[i]] = a
            else:
                extra_pos.append(a)
        extra_kw = {}
        for k, v in kws.items():
            if k in params or k in fn.kwonly:
                env[k] = v
            else:
                extra_kw[k] = v
        for p in params + fn.kwonly:
            if p not in env:
                env[p] = _origin_val(p) if depth == 0 else Val(tags={"unbound": True})
        if fn.vararg:
            env[fn.vararg] = Val(items=extra_pos, tags={"kind": "tuple"}) if extra_pos or True else Val()
        if fn.kwarg:
            kv = Val(tags={"kind": "dict", "kw": dict(extra_kw)})
            for v in extra_kw.values():
                f = v.flat()
                kv.data |= f.data
                kv.shp |= f.shp
                kv.ctrl |= f.ctrl
                kv.refs |= f.refs
            env[fn.kwarg] = kv
        elif extra_kw and "**" not in kws:
            ctx.trace.add(Event("bad_kwarg", call_node or fn.node, fn, path, (), (), (), {"names": sorted(extra_kw)}))
        fr = Frame(fn, env, path + (fn.qual,), depth)
        fr.sites = (saved.sites if saved is not None and hasattr(saved, "sites") else ()) + (
            (getattr(call_node, "lineno", 0), getattr(call_node, "col_offset", 0)),)
        if saved is not None:
            fr.ctrl = [saved.ctrl[-1]]
            fr.guards = list(saved.guards)
            fr.loops = list(saved.loops)
            fr.handlers = list(saved.handlers)
        fr.param_live = set(params) | set(fn.kwonly)
        fr.entry_env = dict(env)
        self.fr = fr
        try:
            status = self.run_body(fn.node.body)
        finally:
            self.fr = saved
            self.last_frame = fr
        if status == RAISE and not fr.rets and not fr.yields and not fn.is_generator and saved is not None:
            raise AbruptRaise(fn.qual)
        if fn.is_generator:
            y = join_all(fr.yields) if fr.yields else Val()
            return Val(tags={"kind": "generator", "elem": y}, data=y.flat().data, shp=y.flat().shp,
                       ctrl=y.flat().ctrl, refs=y.flat().refs)
        if not fr.rets:
            return const(None)
        return join_all(fr.rets)

    # ================================================================ events
    def emit(self, _kind, node, **d):
        fr = self.fr
        ev = Event(_kind, node, fr.fn, fr.path, tuple(fr.guards), tuple(fr.loops), tuple(fr.handlers), d)
        ev.d.setdefault("ctrl", fr.ctrl[-1])
        self.ctx.trace.add(ev)
        return ev

    def type_error(self, node, facet, msg, **d):
        self.emit("type_error", node, facet=facet, msg=msg, **d)

    # ================================================================ heap
    def new_obj(self, kind, node, **attrs):
        fr = self.fr
        key = (kind, fr.fn.qual, getattr(node, "lineno", 0), getattr(node, "col_offset", 0), fr.path,
               getattr(fr, "sites", ()))
        oid = self.ctx.trace.obj_id(key)
        heap = self.ctx.trace.heap
        if oid not in heap:
            heap[oid] = HeapObj(oid, kind, node, fr.fn, fr.path)
            heap[oid].key = key
        heap[oid].attrs.update(attrs)
        return heap[oid]

    def prior_obj(self, obj):
        p = self.ctx.prior
        if p is None:
            return None
        for o in p.heap.values():
            if getattr(o, "key", None) == obj.key:
                return o
        return None

    # ================================================================ expressions
    def ev(self, e) -> Val:
        self.ctx.nodes_seen += 1
        m = getattr(self, "e_" + type(e).__name__, None)
        if m is not None:
            v = m(e)
        else:
            v = self.generic(e)
        if v.term is None:
            v.term = ("?",)
        return v

    def generic(self, e):
        r = Val()
        for c in ast.iter_child_nodes(e):
            if isinstance(c, ast.expr):
                f = self.ev(c).flat()
                r.data |= f.data
                r.shp |= f.shp
                r.ctrl |= f.ctrl
                r.refs |= f.refs
        return r

    def e_Constant(self, e):
        v = e.value
        out = const(v)
        if isinstance(v, bool) or v is None or isinstance(v, str):
            return out
        if isinstance(v, (int, float)):
            if v == 0 or v != v or v in (float("inf"), float("-inf")):
                out.unit = POLY
            else:
                out.unit = ONE
            out.sign = "NONNEG" if v >= 0 else "ANY"
            if v > 0:
                out.sign = "POS"
            out.shape = S()
            out.tags["isnum"] = True
            out.fresh = "FRESH"
            if isinstance(v, int):
                out.tags["kind"] = "int"
        return out

    def e_Name(self, e):
        fr = self.fr
        if e.id in fr.env:
            v = fr.env[e.id]
            if v.tags.get("maybe_undef") and isinstance(e.ctx, ast.Load):
                self.emit("maybe_undef_use", e, name=e.id, loop=v.tags.get("undef_loop"))
            return v
        if e.id in ("True", "False", "None"):
            return const({"True": True, "False": False, "None": None}[e.id])
        r = self.ctx.model.resolve_name(fr.fn.module, e.id)
        if r is None:
            if e.id in BUILTIN_NAMES:
                return Val(tags={"builtin": e.id}, term=("builtin", e.id))
            self.emit("unresolved_name", e, name=e.id)
            return Val(term=("unresolved", e.id))
        kind = r[0]
        if kind == "func":
            return Val(tags={"repofunc": r[1]}, term=("func", r[1].qual))
        if kind == "class":
            return Val(tags={"repoclass": (r[1], r[2])}, term=("class", r[2]))
        if kind == "ext":
            return Val(tags={"ext": r[1]}, term=("ext", r[1]))
        if kind == "repomod":
            return Val(tags={"repomod": r[1]}, term=("repomod", r[1]))
        if kind == "const":
            # module-level constant: evaluate its defining expression in its module
            node, mod = r[1], r[2]
            saved = self.fr
            dummy = M.FuncInfo(mod, ast.parse("def __module__(): pass").body[0])
            self.fr = Frame(dummy, {}, saved.path, saved.depth)
            self.fr.ctrl = [saved.ctrl[-1]]
            try:
                v = self.ev(node)
            finally:
                self.fr = saved
            v = v.copy()
            v.tags["module_const"] = e.id
            return v
        return Val()

    def e_Tuple(self, e):
        items = [self.ev(x) for x in e.elts]
        return Val(items=items, tags={"kind": "tuple"}, term=mk_term("tuple", *[i.term for i in items]))

    def e_List(self, e):
        items = []
        star = False
        for x in e.elts:
            if isinstance(x, ast.Starred):
                star = True
                items.append(self.ev(x.value))
            else:
                items.append(self.ev(x))
        obj = self.new_obj("list", e)
        for i in items:
            obj.store(i)
        elem = join_all([i for i in items]) if items else None          # an empty literal has no element yet (its first append decides)
        v = Val(refs={obj.id}, tags={"kind": "list", "elem": elem, "n_items": (len(items) if not star else None), "own_obj": obj.id},
                term=mk_term("list", *[i.term for i in items]))
        if not star:
            v.items = items
        if elem is not None:
            f = elem.flat()
            v.data, v.shp, v.ctrl = f.data, f.shp, f.ctrl
            v.refs |= f.refs
        return v

    def e_Set(self, e):
        items = [self.ev(x) for x in e.elts]
        if all(i.known for i in items):
            try:
                return const(frozenset(i.const for i in items))
            except TypeError:
                pass
        return Val(items=None, tags={"kind": "set", "elem": join_all(items)})

    def e_Dict(self, e):
        obj = self.new_obj("dict", e)
        kw = {}
        for k, v in zip(e.keys, e.values):
            vv = self.ev(v)
            obj.store(vv)
            if k is not None:
                kk = self.ev(k)
                if kk.known and isinstance(kk.const, str):
                    kw[kk.const] = vv
                else:
                    kw = None
                    break
            else:
                kw = None
                break
        out = Val(refs={obj.id}, tags={"kind": "dict"})
        if kw is not None:
            out.tags["kw"] = kw
            obj.attrs["kw"] = kw
        c = obj.content
        if c is not None:
            out.data, out.shp, out.ctrl = c.data, c.shp, c.ctrl
            out.refs |= c.refs
        return out

    def e_JoinedStr(self, e):
        parts = []
        out = Val(tags={"kind": "str", "isstr": True, "notnone": True}, term=("fstr",))
        for v in e.values:
            if isinstance(v, ast.Constant):
                parts.append(v.value)
            elif isinstance(v, ast.FormattedValue):
                pv = self.ev(v.value)
                parts.append(pv)
                f = pv.flat()
                out.data |= f.data
                out.ctrl |= f.ctrl
        out.tags["fstr_parts"] = parts
        if all(isinstance(p, str) or (p.known and isinstance(p.const, str)) for p in parts):
            out.const = "".join(p if isinstance(p, str) else p.const for p in parts)
        return out

    def e_Lambda(self, e):
        return Val(tags={"lambda": e, "lambda_env": dict(self.fr.env)}, term=("lambda",))

    def e_IfExp(self, e):
        t = self.ev(e.test)
        tv = self.truth(t)
        if tv is True:
            return self.ev(e.body)
        if tv is False:
            return self.ev(e.orelse)
        c = t.flat().deps_all()
        fr = self.fr
        self._extent_coincidence(e.test, t)
        fr.ctrl.append(fr.ctrl[-1] | c)
        fr.guards.append((M.norm_text(e.test), True, e.test, False))
        try:
            a = self.ev(e.body)
            fr.guards[-1] = (M.norm_text(e.test), False, e.test, False)
            b = self.ev(e.orelse)
        finally:
            fr.guards.pop()
            fr.ctrl.pop()
        r = join(a, b).with_ctrl(c)
        r.term = mk_term("ifexp", t.term, a.term, b.term)
        return r

    def _extent_coincidence(self, test_node, t):
        """a branch (not an assertion) steered by `extent of axis X == extent of axis Y` for two unrelated named axes: the reading of
        an argument then depends on a numeric coincidence (n_samples == n_channels)"""
        c = t.tag("cmp")
        if c is None or c[0] not in ("Eq", "NotEq"):
            return
        dl, dr = c[1].tag("dim"), c[2].tag("dim")
        if dl and dr and len(dl) == 1 and len(dr) == 1 and dl != dr and not dl[0].startswith("#") and not dr[0].startswith("#") \
                and {dl[0], dr[0]} != {"F", "Fr"}:
            self.emit("extent_coincidence", test_node, axes=(dl[0], dr[0]))

    def truth(self, v):
        """True / False / None(unknown)"""
        if v.known:
            c = v.const
            try:
                return bool(c)
            except Exception:
                return None
        t = v.tag("truth")
        if t is not None:
            return t
        if v.sign == "POS" and v.tag("isnum") and (v.shape is None or v.shape.rank == 0) and v.tag("kind") != "ndarray":
            return True          # a strictly positive number is truthy
        return None

    @staticmethod
    def _rowsum_mask(out, op, l, r):
        """`rowsum != 0` / `rowsum > 0` for the row totals of a NON-NEGATIVE array selects exactly the rows that are not all zero"""
        rs = l.tag("rowsum_of")
        if rs is None or not (r.known and r.const == 0):
            return
        term, sign = rs
        kind = {"NotEq": "nonzero_rows", "Gt": "nonzero_rows", "Eq": "zero_rows", "LtE": "zero_rows"}.get(type(op).__name__)
        if kind == "nonzero_rows":
            # every all-zero row has total 0: the mask never selects one (for signed data it may drop more — that is not this facet)
            out.tags["zero_row_mask_of"] = term
            out.tags["zero_row_mask_inverted"] = True
        elif kind == "zero_rows":
            out.tags["zero_row_mask_of"] = term          # selects every all-zero row (and, for signed data, possibly more)
            out.tags["zero_row_mask_inverted"] = False
        if kind and sign in ("NONNEG", "POS"):
            out.tags["row_mask"] = (kind, term)
            out.tags["zero_row_mask_of"] = term
            out.tags["zero_row_mask_inverted"] = kind == "nonzero_rows"

    def e_BoolOp(self, e):
        vals = [self.ev(x) for x in e.values]
        ts = [self.truth(v) for v in vals]
        is_and = isinstance(e.op, ast.And)
        # value semantics where the configuration decides it: `a or b` IS its first true operand (`opts or "QJ"`, `x or default`),
        # `a and b` its first false one (or the last)
        pick = None
        for v, t in zip(vals, ts):
            if t is None:
                pick = None
                break
            pick = v
            if (t is True and not is_and) or (t is False and is_and):
                break
        if pick is not None and pick.tag("kind") != "bool" and not (pick.known and isinstance(pick.const, bool)):
            r = pick.copy()
            for v in vals:
                if v is not pick:
                    f = v.flat()
                    r.ctrl = r.ctrl | f.data | f.ctrl
                    r.shp = r.shp | f.shp
            r.tags["parts"] = (is_and, [x for x in e.values], vals)
            return r
        r = Val(term=mk_term("and" if is_and else "or", *[v.term for v in vals]))
        for v in vals:
            f = v.flat()
            r.data |= f.data
            r.shp |= f.shp
            r.ctrl |= f.ctrl
        if is_and:
            if any(t is False for t in ts):
                r.const = False
            elif all(t is True for t in ts):
                r.const = True
        else:
            if any(t is True for t in ts):
                r.const = True
            elif all(t is False for t in ts):
                r.const = False
        r.tags["kind"] = "bool"
        r.tags["parts"] = (is_and, [x for x in e.values], vals)
        if not is_and and ts[0] is None and vals[0].tag("kind") in ("int", "float"):
            # `number or default`: the legal value 0 is replaced by the default — a non-injective map of the number
            xd = vals[0].flat().data
            r.data = frozenset(o if ("|" in o or "#" in o or "@" in o or o not in xd) else f"{o}|truthy" for o in r.data)
            r.tags["kind"] = vals[0].tag("kind")
            self.emit("lossy_map", e, of=vals[0], how="truthy")
        return r

    def e_UnaryOp(self, e):
        v = self.ev(e.operand)
        if isinstance(e.op, ast.Not):
            t = self.truth(v)
            f = v.flat()
            r = Val(data=f.data, shp=f.shp, ctrl=f.ctrl, term=mk_term("not", v.term), tags={"kind": "bool"})
            if t is not None:
                r.const = (not t)
            return r
        if isinstance(e.op, ast.Invert):
            r = v.copy(term=mk_term("invert", v.term))
            r.const = U
            r.unit = None
            r.frame = None
            r.fresh = "FRESH"
            if v.tag("zero_row_mask_of") is not None:
                r.tags["zero_row_mask_inverted"] = not v.tag("zero_row_mask_inverted", False)
            rm = v.tag("row_mask")
            if rm is not None:
                flip = {"zero_rows": "nonzero_rows", "nonzero_rows": "zero_rows", "rows_with_a_zero": "rows_without_zero",
                        "rows_without_zero": "rows_with_a_zero"}
                r.tags["row_mask"] = (flip[rm[0]], rm[1])
            return r
        if isinstance(e.op, ast.USub) and v.tag("cvx"):
            from .ext_models import cvx_expr
            return cvx_expr(self, e, "neg", [v], v.shape, v.unit, v.frame)
        if isinstance(e.op, ast.USub):
            r = v.copy(term=mk_term("neg", v.term))
            if v.known and isinstance(v.const, (int, float)) and not isinstance(v.const, bool):
                r.const = -v.const
                r.sign = "NONNEG" if r.const >= 0 else "ANY"
            else:
                r.const = U
                r.sign = "ANY" if v.sign in ("POS",) else None
            r.fresh = "FRESH"
            r.frame = None
            return r
        return v.copy(term=mk_term("uop", v.term), const=U)

    # ---- comparisons
    def e_Compare(self, e):
        if len(e.ops) != 1:
            return self.generic(e)
        l, r = self.ev(e.left), self.ev(e.comparators[0])
        op = e.ops[0]
        lf, rf = l.flat(), r.flat()
        out = Val(data=lf.data | rf.data, shp=lf.shp | rf.shp, ctrl=lf.ctrl | rf.ctrl,
                  term=mk_term("cmp", type(op).__name__, l.term, r.term), tags={"kind": "bool"}, fresh="FRESH")
        out.refs = lf.refs | rf.refs
        # cvx constraint?
        if (l.tag("cvx") or r.tag("cvx")) and isinstance(op, (ast.LtE, ast.GtE, ast.Eq, ast.Lt, ast.Gt)):
            return self.cvx_constraint(e, op, l, r)
        if isinstance(op, (ast.Is, ast.IsNot)):
            pos = isinstance(op, ast.Is)
            if r.known and r.const is None:
                if l.known:
                    out.const = (l.const is None) == pos
                elif l.tag("notnone") or l.shape is not None or l.unit is not None or l.items is not None \
                        or l.tag("kind") in ("ndarray", "int", "list", "tuple", "dict", "bool", "str", "rng", "generator", "combinations", "product", "zip",
                                             "enumerate", "map", "qmc", "qmc_multinomial", "delaunay", "hull", "pca", "nmf", "interp", "set") \
                        or l.tag("isnum") or l.tag("cvx"):
                    out.const = not pos
            elif l.known and r.known:
                out.const = (l.const is r.const) == pos
            return out
        if isinstance(op, (ast.Eq, ast.NotEq)):
            pos = isinstance(op, ast.Eq)
            if l.known and r.known and _scalar(l.const) and _scalar(r.const):
                out.const = (l.const == r.const) == pos
            elif _dimv(l) is not None and _dimv(r) is not None and (_dimv(l) == _dimv(r) or (_concrete(_dimv(l)) and _concrete(_dimv(r)))):
                out.const = (_dimv(l) == _dimv(r)) == pos
            elif any(isinstance(_dimv(a_), tuple) and b_.known and b_.const == 0 and not isinstance(b_.const, bool) for a_, b_ in ((l, r), (r, l))):
                # the extent of a named axis compared with 0: the configurations assume non-empty axes (stated assumption)
                out.const = not pos
            elif (l.known and r.tag("kind") in ("ndarray",)) or (r.known and l.tag("kind") == "ndarray"):
                pass
            else:
                # a string-typed value compared with a different kind
                for a, b in ((l, r), (r, l)):
                    if a.known and isinstance(a.const, str) and b.tag("notstr"):
                        out.const = not pos
            self.qty_compare(e, l, r, exact=True)
            self.elementwise_shape(e, out, l, r)
            if l.known and not r.known:
                out.tags["cmp"] = (type(op).__name__, r, l)          # 0 == x  ≡  x == 0
                self._rowsum_mask(out, op, r, l)
            else:
                out.tags["cmp"] = (type(op).__name__, l, r)
                self._rowsum_mask(out, op, l, r)
            return out
        if isinstance(op, (ast.Lt, ast.LtE, ast.Gt, ast.GtE)):
            from .extern import _conc
            lk = l.const if (l.known and _num(l.const)) else (_conc(_dimv(l)) if _dimv(l) is not None else None)
            rk = r.const if (r.known and _num(r.const)) else (_conc(_dimv(r)) if _dimv(r) is not None else None)
            if lk is not None and rk is not None and not (l.known and r.known):
                out.const = {ast.Lt: lk < rk, ast.LtE: lk <= rk, ast.Gt: lk > rk, ast.GtE: lk >= rk}[type(op)]
            if l.known and r.known and _num(l.const) and _num(r.const):
                out.const = {ast.Lt: l.const < r.const, ast.LtE: l.const <= r.const,
                             ast.Gt: l.const > r.const, ast.GtE: l.const >= r.const}[type(op)]
            self.qty_compare(e, l, r)
            self.elementwise_shape(e, out, l, r)
            # canonical orientation: a literal on the left is moved to the right (0 >= x  ≡  x <= 0)
            if l.known and not r.known:
                flipped = {"Lt": ast.Gt, "Gt": ast.Lt, "LtE": ast.GtE, "GtE": ast.LtE}[type(op).__name__]()
                out.tags["cmp"] = (type(flipped).__name__, r, l)
                self._rowsum_mask(out, flipped, r, l)
            else:
                out.tags["cmp"] = (type(op).__name__, l, r)
                self._rowsum_mask(out, op, l, r)
            return out
        if isinstance(op, (ast.In, ast.NotIn)):
            pos = isinstance(op, ast.In)
            cont = None
            if r.known and isinstance(r.const, (frozenset, tuple, list, set, str)):
                cont = r.const
            elif r.items is not None and all(i.known for i in r.items):
                cont = [i.const for i in r.items]
            elif isinstance(r.tag("kw"), dict) and r.tag("kw_rest") is None and not r.tag("opaque_rest"):
                cont = list(r.tag("kw").keys())         # membership in a dict with literal keys
            if cont is None and l.known and l.const == 0 and not isinstance(l.const, bool) and r.items is not None and r.items \
                    and all(isinstance(_dimv(i), tuple) for i in r.items):
                out.const = not pos         # `0 in x.shape[...]`: named axes are non-empty (stated assumption)
                return out
            if cont is not None:
                out.tags["in_set"] = (l, tuple(cont) if not isinstance(cont, str) else cont, pos)
                if l.known:
                    try:
                        out.const = (l.const in cont) == pos
                    except TypeError:
                        pass
                elif l.tag("notstr") and all(isinstance(c, str) for c in cont):
                    out.const = not pos
            return out
        return out

    def qty_compare(self, e, l, r, exact=False):
        if l.unit is None or r.unit is None:
            return
        ok, _ = ueq(l.unit, r.unit)
        if not ok and exact and any(x_.known and _num(x_.const) and not isinstance(x_.const, bool) for x_ in (l, r)):
            # `x == 1` / `x != 1`: an EXACT test for one particular number (the identity of a product, a sentinel) selects between
            # computations; it is not a threshold on a quantity.  What the branch does is judged by the other rules.
            self.emit("identity_test", e, operands=(l, r))
            return
        if not ok:
            self.type_error(e, "QTY", f"comparison of [{ustr(l.unit)}] with [{ustr(r.unit)}]",
                            sub=("literal" if (l.unit == ONE and (l.tag("isnum") or l.known)) or (r.unit == ONE and (r.tag("isnum") or r.known)) else "mismatch"))
        elif isinstance(l.unit, dict) and isinstance(r.unit, dict) and l.unit:
            self.emit("typed_op", e, op="cmp", unit=l.unit)

    def elementwise_shape(self, e, out, l, r):
        from .extern import broadcast_shapes
        out.shape = broadcast_shapes(self, e, [l, r], report=False)

    def cvx_constraint(self, e, op, l, r):
        from .extern import broadcast_shapes
        lf, rf = l.flat(), r.flat()
        out = Val(data=lf.data | rf.data, shp=lf.shp | rf.shp, ctrl=lf.ctrl | rf.ctrl,
                  refs=lf.refs | rf.refs,
                  term=mk_term("constraint", type(op).__name__, l.term, r.term),
                  tags={"cvx": "constraint", "lhs": l, "rhs": r, "op": type(op).__name__, "node": e})
        out.shape = broadcast_shapes(self, e, [l, r], report=True, what="constraint")
        # unit inference for free leaves, then homogeneity
        self.cvx_unify(e, l, r)
        lu, ru = self.cvx_unit(l), self.cvx_unit(r)
        if lu is not None and ru is not None:
            ok, _ = ueq(lu, ru)
            if not ok:
                self.type_error(e, "QTY", f"constraint compares [{ustr(lu)}] with [{ustr(ru)}]")
        self.emit("cvx_constraint", e, val=out)
        return out

    def cvx_unit(self, v):
        return v.unit

    def cvx_unify(self, e, l, r):
        """x_ >= lb_  with x_ a bare leaf of unknown unit: infer the leaf's unit."""
        heap = self.ctx.trace.heap
        for a, b in ((l, r), (r, l)):
            if a.tag("cvx") == "leaf" and a.unit is None and b.unit not in (None, POLY) and len(a.refs) == 1:
                o = heap[next(iter(a.refs))]
                if o.unit is None:
                    o.unit = b.unit
                    o.attrs["unit_from"] = M.norm_text(e)

    # ---- arithmetic
    def e_BinOp(self, e):
        from .extern import binop
        l, r = self.ev(e.left), self.ev(e.right)
        return binop(self, e, e.op, l, r)

    def e_Attribute(self, e):
        from .extern import attribute
        # self.<field>
        if isinstance(e.value, ast.Name) and e.value.id == "self" and self.fr.env.get("self") is not None \
                and self.fr.env["self"].tag("kind") == "self":
            return self.load_self(e)
        b = self.ev(e.value)
        return attribute(self, e, b)

    def load_self(self, e):
        ctx = self.ctx
        attr = e.attr
        if attr == "__dict__":
            # the instance dictionary: writing into it is writing a field
            return Val(data={"self.__dict__"}, term=("self", "__dict__"), tags={"kind": "dict", "self_dict": True, "notnone": True})
        if attr in ctx.selfenv:
            v = ctx.selfenv[attr]
            self.emit("self_load", e, attr=attr)
            return v
        # method / property?
        if ctx.self_cls:
            meth = ctx.model.method(ctx.self_cls[0], ctx.self_cls[1], attr)
            if meth is not None:
                if meth.is_property:
                    return self.call_repo(meth, e, [], {}, self_val=self.fr.env["self"])
                return Val(tags={"boundmethod": meth}, term=("method", attr))
        self.emit("self_load", e, attr=attr)
        mk = ctx.spec.get("self_field")
        if mk is not None:
            v = mk(attr)
            if v is not None:
                ctx.selfenv[attr] = v
                return v
        # a field the specification does not declare (e.g. a cache attribute introduced later): nothing is known about it,
        # not even that it is set — `if self._cache is None:` explores both arms
        v = Val(data={"self." + attr}, term=("self", attr), fresh=("ALIAS", frozenset({"self." + attr})),
                tags={"undeclared_field": True, "self_container": attr})
        return v

    def e_Subscript(self, e):
        from .extern import subscript
        b = self.ev(e.value)
        return subscript(self, e, b)

    def e_Slice(self, e):
        parts = [self.ev(x) if x is not None else None for x in (e.lower, e.upper, e.step)]
        r = Val(tags={"kind": "slice", "parts": parts}, term=("slice",))
        for p in parts:
            if p is not None:
                f = p.flat()
                r.data |= f.data
                r.shp |= f.shp
                r.ctrl |= f.ctrl
        return r

    def e_Starred(self, e):
        v = self.ev(e.value)
        return v.copy(tags=dict(v.tags, starred=True))

    def e_ListComp(self, e):
        return self.comp(e, e.elt)

    def e_GeneratorExp(self, e):
        return self.comp(e, e.elt)

    def e_SetComp(self, e):
        return self.comp(e, e.elt)

    def comp(self, e, elt):
        saved = dict(self.fr.env)
        conds = E
        # a comprehension over a fixed-length tuple/list is unrolled (field-sensitive result)
        if len(e.generators) == 1 and not e.generators[0].ifs and not isinstance(e, ast.SetComp):
            g = e.generators[0]
            it = self.ev(g.iter)
            seq = it.tag("zip_items") or (it.items if it.tag("kind") in ("tuple", "list") else None)
            if seq is not None and len(seq) <= 8:
                outs = []
                for item in seq:
                    self.bind_target(g.target, item, g)
                    outs.append(self.ev(elt))
                self.fr.env = saved
                f = join_all(outs).flat() if outs else Val()
                return Val(items=outs, data=f.data, shp=f.shp, ctrl=f.ctrl, refs=f.refs,
                           tags={"kind": "list", "elem": join_all(outs) if outs else None, "comp": True},
                           term=mk_term("comp", *[o.term for o in outs]))
        for g in e.generators:
            it = self.ev(g.iter)
            self.bind_target(g.target, self.iter_elem(it, g.iter), g)
            for c in g.ifs:
                conds |= self.ev(c).flat().deps_all()
        v = self.ev(elt)
        self.fr.env = saved
        f = v.flat()
        obj = self.new_obj("list", e)
        obj.store(v)
        out = Val(data=f.data, shp=f.shp, ctrl=f.ctrl | conds, refs=f.refs | {obj.id},
                  tags={"kind": "list", "elem": v, "comp": True, "own_obj": obj.id},
                  term=mk_term("comp", v.term))
        return out

    def e_Yield(self, e):
        v = self.ev(e.value) if e.value is not None else const(None)
        self.fr.yields.append(v.with_ctrl(self.fr.ctrl[-1]))
        self.emit("yield", e, val=v)
        return Val()

    def e_YieldFrom(self, e):
        v = self.ev(e.value)
        elem = self.iter_elem(v, e.value)
        self.fr.yields.append(elem.with_ctrl(self.fr.ctrl[-1]))
        self.emit("yield", e, val=elem)
        return Val()

    def e_NamedExpr(self, e):
        v = self.ev(e.value)
        self.bind_target(e.target, v, e)
        return v

    # ---- calls
    def e_Call(self, e):
        from .extern import call_extern, call_method, call_builtin
        ctx = self.ctx
        # arguments
        args, kws = [], {}
        for a in e.args:
            if isinstance(a, ast.Starred):
                sv = self.ev(a.value)
                if sv.items is not None:
                    args.extend(sv.items)
                else:
                    x = sv.copy()
                    x.tags = dict(x.tags, starred=True)
                    args.append(x)
            else:
                args.append(self.ev(a))
        for k in e.keywords:
            v = self.ev(k.value)
            if k.arg is None:
                kw = v.tag("kw")
                if kw is not None:
                    cdeps = v.flat().ctrl
                    for kk, vv in kw.items():
                        kws[kk] = vv.with_ctrl(cdeps) if cdeps else vv      # what decided the CONTENT of the dict decides each entry
                    # a **dict(...) built from **opt_kwargs keeps the rest opaque
                    if v.tag("kw_rest") is not None:
                        kws["**"] = v.tag("kw_rest")
                else:
                    kws["**"] = v if "**" not in kws else join(kws["**"], v)
            else:
                kws[k.arg] = v
        f = e.func
        # self.method(...)
        if isinstance(f, ast.Attribute) and isinstance(f.value, ast.Name) and f.value.id == "self" \
                and self.fr.env.get("self") is not None and self.fr.env["self"].tag("kind") == "self":
            if ctx.self_cls:
                meth = ctx.model.method(ctx.self_cls[0], ctx.self_cls[1], f.attr)
                if meth is not None:
                    return self.call_repo(meth, e, args, kws, self_val=self.fr.env["self"])
            # callable stored in a field
            fv = self.load_self(f)
            return self.call_value(e, fv, args, kws)
        fv = self.ev(f) if not isinstance(f, ast.Attribute) else None
        if fv is None:
            base = self.ev(f.value)
            # module attribute chains
            if base.tag("ext"):
                dotted = base.tag("ext") + "." + f.attr
                return call_extern(self, e, dotted, args, kws)
            if base.tag("repomod"):
                fn = ctx.model.func(base.tag("repomod"), f.attr)
                if fn is not None:
                    return self.call_repo(fn, e, args, kws)
                sub = base.tag("repomod") + "." + f.attr
                self.emit("unresolved_name", e, name=sub)
                return self.opaque_call(e, args, kws)
            return call_method(self, e, base, f.attr, args, kws)
        return self.call_value(e, fv, args, kws)

    def call_value(self, e, fv, args, kws):
        from .extern import call_extern, call_builtin
        if fv.tag("partial") is not None:
            # functools.partial(f, *a, **k)(*args, **kws) == f(*a, *args, **{**k, **kws})
            pf, pa, pk = fv.tag("partial")
            return self.call_value(e, pf, list(pa) + list(args), dict(pk, **kws))
        if fv.tag("repofunc"):
            return self.call_repo(fv.tag("repofunc"), e, args, kws)
        if fv.tag("boundmethod"):
            return self.call_repo(fv.tag("boundmethod"), e, args, kws, self_val=self.fr.env.get("self"))
        if fv.tag("ext"):
            return call_extern(self, e, fv.tag("ext"), args, kws)
        if fv.tag("builtin"):
            return call_builtin(self, e, fv.tag("builtin"), args, kws)
        if fv.tag("lambda") is not None:
            lam = fv.tag("lambda")
            saved = self.fr.env
            env = dict(fv.tag("lambda_env"))
            ps = [p.arg for p in lam.args.args]
            for p, a in zip(ps, args):
                env[p] = a
            for k, v in kws.items():
                if k in ps:
                    env[k] = v
            self.fr.env = env
            try:
                return self.ev(lam.body)
            finally:
                self.fr.env = saved
        if fv.tag("repoclass"):
            self.emit("construct", e, cls=fv.tag("repoclass"), args=args, kws=kws)
            return self.opaque_call(e, args, kws)
        if fv.tag("kind") == "ureg":
            from .ext_models import ureg_unit
            return ureg_unit(self, e, args, kws)
        if fv.tag("typeof") is not None and fv.tag("typeof").tag("kind") == "qmc":
            from .ext_models import m_qmc_engine
            return m_qmc_engine(self, e, args, kws)
        if fv.tag("extclass_call") is not None:
            return call_extern(self, e, fv.tag("extclass_call"), args, kws)
        self.emit("opaque_callee", e, callee=fv, args=args, kws=kws)
        r = self.opaque_call(e, args, kws, extra=fv)
        io = fv.tag("interp_of")
        if fv.tag("kind") == "interp" and io is not None and args:
            # interp1d(x, y, axis=a)(x_new): y resampled along axis a — unit, frame and the other axes of y; the extent of x_new on a
            x_, y_, ax = io
            yf, nf = y_.flat(), args[0].flat()
            r.unit, r.frame = yf.unit, yf.frame
            r.sign = yf.sign if yf.sign in ("NONNEG",) else None
            r.tags["kind"] = "ndarray"
            r.tags["notnone"] = True
            r.fresh = "FRESH"
            a = -1 if ax is None else (ax.const if ax.known and isinstance(ax.const, int) else None)
            if a is not None and yf.shape is not None and not yf.shape.ell and nf.shape is not None and not nf.shape.ell \
                    and nf.shape.rank == 1 and -yf.shape.rank <= a < yf.shape.rank:
                axes = list(yf.shape.axes)
                axes[a] = nf.shape.axes[0]
                r.shape = Shape(tuple(axes))
        return r

    def opaque_call(self, e, args, kws, extra=None):
        r = Val(term=mk_term("call?", M.norm_text(e.func)[:40]))
        for a in list(args) + list(kws.values()) + ([extra] if extra is not None else []):
            f = a.flat()
            r.data |= f.data
            r.shp |= f.shp
            r.ctrl |= f.ctrl
            r.refs |= f.refs
        al = E
        for a in args:
            if a.fresh and a.fresh != "FRESH":
                al |= a.fresh[1]
        r.fresh = ("ALIAS", al) if al else None
        return r

    def call_repo(self, fn, e, args, kws, self_val=None):
        fr = self.fr
        ev = self.emit("call", e, callee=fn, args=args, kws=kws)
        hook = self.ctx.spec.get("summaries", {}).get(fn.qual)
        if hook is not None:
            r = hook(self, e, fn, args, kws)
            if r is not None:
                ev.d["result"] = r
                return r
        depth = fr.depth + 1
        rec = sum(1 for q in fr.path if q == fn.qual)
        if depth > MAX_DEPTH or rec >= self.ctx.opts.get("rec_limit", 1):
            self.ctx.note(f"call depth/recursion cut at {fn.qual}")
            if fr.fn is fn and getattr(fr, "entry_env", None):
                # direct recursion is not unfolded; a parameter keeps its unit from one activation to the next
                from .values import ueq, ustr
                ps = [p_ for p_ in fn.params if not (fn.cls and p_ == "self")]
                bound = dict(kws)
                for i_, a_ in enumerate(args):
                    if i_ < len(ps):
                        bound.setdefault(ps[i_], a_)
                for p_, a_ in bound.items():
                    f_ = fr.entry_env.get(p_)
                    if f_ is None or not isinstance(a_, Val) or not isinstance(a_.unit, dict) or not isinstance(f_.unit, dict):
                        continue
                    if not ueq(a_.unit, f_.unit)[0]:
                        self.type_error(e, "QTY", f"the recursive call passes a quantity in [{ustr(a_.unit)}] for `{p_}`, which this activation "
                                                  f"received in [{ustr(f_.unit)}]", units=(a_.unit, f_.unit))
            r = self.opaque_call(e, args, kws)
            ev.d["result"] = r
            return r
        pre = self.ctx.spec.get("pre", {}).get(fn.qual)
        if pre is not None:
            pre(self, e, fn, args, kws)
        r = self.run_function(fn, args, kws, self_val=self_val, path=fr.path, depth=depth, call_node=e)
        r = r.with_ctrl(fr.ctrl[-1])
        self._write_back(fn, e, getattr(self, "last_frame", None), bool(self_val is not None))
        post = self.ctx.spec.get("post", {}).get(fn.qual)
        if post is not None:
            r2 = post(self, e, fn, args, kws, r)
            if r2 is not None:
                r = r2
        ev.d["result"] = r
        return r

    def _write_back(self, fn, e, cf, bound_method):
        """a callee that stores into one of its (array) parameters in place changes the caller's object: the abstract value of the
        caller's variable / field passed in that position is replaced by the callee's final value of the parameter"""
        if cf is None or cf.fn is not fn or not cf.param_mutated or not isinstance(e, ast.Call):
            return
        params = list(fn.params)
        if fn.cls and params and params[0] == "self":
            params = params[1:]
        actual = {}
        for i, a in enumerate(e.args):
            if isinstance(a, ast.Starred):
                break
            if i < len(params):
                actual[params[i]] = a
        for k in e.keywords:
            if k.arg is not None:
                actual[k.arg] = k.value
        fr = self.fr
        for p in cf.param_mutated & cf.param_live:
            a = actual.get(p)
            nv = cf.env.get(p)
            if a is None or nv is None:
                continue
            if isinstance(a, ast.Name) and a.id in fr.env:
                fr.env[a.id] = nv.with_ctrl(fr.ctrl[-1])
                if a.id in fr.param_live:
                    fr.param_mutated.add(a.id)           # transitively: our own caller's object changed too
            elif isinstance(a, ast.Attribute) and isinstance(a.value, ast.Name) and a.value.id == "self" and a.attr in self.ctx.selfenv:
                self.ctx.selfenv[a.attr] = nv.with_ctrl(fr.ctrl[-1])

    # ================================================================ statements
    def run_body(self, body):
        for s in body:
            st = self.stmt(s)
            if st != NORMAL:
                return st
        return NORMAL

    def stmt(self, s):
        m = getattr(self, "s_" + type(s).__name__, None)
        if m is None:
            self.ctx.note(f"unmodelled statement {type(s).__name__} at {self.fr.fn.loc(s)}")
            return NORMAL
        try:
            return m(s) or NORMAL
        except AbruptRaise:
            # a callee that raises on every path of this configuration ends the caller's path too
            return RAISE

    def s_Expr(self, s):
        self.ev(s.value)

    def s_Pass(self, s):
        pass

    def s_Import(self, s):
        pass

    def s_ImportFrom(self, s):
        pass

    def s_Global(self, s):
        self.emit("global_stmt", s, names=list(s.names))

    def s_Nonlocal(self, s):
        pass

    def s_FunctionDef(self, s):
        self.fr.env[s.name] = Val(tags={"localfunc": s}, term=("localfunc", s.name))

    def s_Assign(self, s):
        v = self.ev(s.value)
        for t in s.targets:
            self.bind_target(t, v, s)

    def s_AnnAssign(self, s):
        if s.value is not None:
            self.bind_target(s.target, self.ev(s.value), s)

    def s_AugAssign(self, s):
        from .extern import binop
        cur = self.ev(s.target)
        rhs = self.ev(s.value)
        new = binop(self, s, s.op, cur, rhs)
        # in-place semantics for arrays: the object identity (aliasing) is preserved
        if cur.tag("kind") != "int" and not (cur.known and _num(cur.const)):
            self.emit("inplace", s, target=cur, value=rhs, how="augassign", tnode=s.target)
            new = new.copy(fresh=cur.fresh)
        self.bind_target(s.target, new, s, aug=True)

    def s_Return(self, s):
        v = self.ev(s.value) if s.value is not None else const(None)
        v = v.with_ctrl(self.fr.ctrl[-1])
        self.fr.rets.append(v)
        self.emit("return", s, val=v)
        return RETURN

    def s_Raise(self, s):
        exc = None
        if s.exc is not None:
            f = s.exc.func if isinstance(s.exc, ast.Call) else s.exc
            exc = f.id if isinstance(f, ast.Name) else M.norm_text(f)
            if isinstance(s.exc, ast.Call):
                for a in s.exc.args:
                    self.ev(a)
        self.emit("raise", s, exc=exc)
        return RAISE

    def s_Assert(self, s):
        t = self.ev(s.test)
        tv = self.truth(t)
        self.emit("assert", s, test=t, truth=tv)
        if tv is False:
            self.emit("raise", s, exc="AssertionError")
            return RAISE
        self.refine(s.test, True)

    def s_Delete(self, s):
        pass

    def s_Break(self, s):
        self.emit("break", s)
        self.fr.break_envs.append((dict(self.fr.env), dict(self.ctx.selfenv)))
        return BREAK

    def s_Continue(self, s):
        self.emit("continue", s)
        self.fr.cont_envs.append((dict(self.fr.env), dict(self.ctx.selfenv)))
        return CONTINUE

    def s_With(self, s):
        for it in s.items:
            v = self.ev(it.context_expr)
            if it.optional_vars is not None:
                self.bind_target(it.optional_vars, v, s)
        return self.run_body(s.body)

    def s_If(self, s):
        fr = self.fr
        t = self.ev(s.test)
        tv = self.truth(t)
        txt = M.norm_text(s.test)
        if tv is True:
            fr.guards.append((txt, True, s.test, True))
            self.refine(s.test, True)
            st = self.run_body(s.body)
            fr.guards.pop()
            return st
        if tv is False:
            fr.guards.append((txt, False, s.test, True))
            self.refine(s.test, False)
            st = self.run_body(s.orelse)
            fr.guards.pop()
            return st
        c = t.flat().deps_all()
        self._extent_coincidence(s.test, t)
        fr.ctrl.append(fr.ctrl[-1] | c)
        # correlated branches: a value merged at an EARLIER `if` on the very same test (same text, its names not rebound since) is, inside
        # the arms of this one, the component assigned under the same outcome (gated phi)
        gphi = getattr(fr, "gphi", None)
        if gphi is None:
            gphi = fr.gphi = {}
            fr.stored_names = {n.id for n in ast.walk(fr.fn.node) if isinstance(n, ast.Name) and isinstance(n.ctx, (ast.Store, ast.Del))} | {
                a.arg for f_ in ast.walk(fr.fn.node) if isinstance(f_, (ast.FunctionDef, ast.Lambda)) and f_ is not fr.fn.node
                for a in f_.args.args}
        tnames = {n.id for n in ast.walk(s.test) if isinstance(n, ast.Name)}
        # only tests over names the function never rebinds (parameters, imports) and without calls can be recognised again by their text
        sig = txt if tnames and not (tnames & fr.stored_names) and not any(isinstance(n, (ast.Call, ast.Attribute, ast.Subscript))
                                                                         for n in ast.walk(s.test)) else None
        gated = [(k, gphi[id(v)]) for k, v in fr.env.items() if sig is not None and id(v) in gphi and gphi[id(v)][0] is v
                 and gphi[id(v)][1] == sig]
        env0, self0 = dict(fr.env), dict(self.ctx.selfenv)
        fr.guards.append((txt, True, s.test, False, t.flat().data | t.flat().shp, t.flat().data))
        self.refine(s.test, True)
        for k, g in gated:
            fr.env[k] = g[2]
        st1 = self.run_body(s.body)
        env1, self1 = fr.env, self.ctx.selfenv
        if st1 == NORMAL:
            self.emit("branch_exit", s, env={k: v for k, v in env1.items() if v is not env0.get(k)}, arm=True)
        fr.env, self.ctx.selfenv = dict(env0), dict(self0)
        fr.guards[-1] = (txt, False, s.test, False, t.flat().data | t.flat().shp, t.flat().data)
        self.refine(s.test, False)
        for k, g in gated:
            fr.env[k] = g[3]
        st2 = self.run_body(s.orelse)
        env2, self2 = fr.env, self.ctx.selfenv
        if st2 == NORMAL and s.orelse:
            self.emit("branch_exit", s, env={k: v for k, v in env2.items() if v is not env0.get(k)}, arm=False)
        fr.guards.pop()
        fr.ctrl.pop()
        n1, n2 = st1 == NORMAL, st2 == NORMAL
        if n1 and n2:
            fr.env = join_env(env1, env2)
            self.ctx.selfenv = join_env(self1, self2)
            # values assigned under the branch depend on the test
            for k in fr.env:
                if env1.get(k) is not env0.get(k) or env2.get(k) is not env0.get(k):
                    fr.env[k] = fr.env[k].with_ctrl(c)
                    a_, b_ = env1.get(k), env2.get(k)
                    if sig is not None and a_ is not None and b_ is not None and a_ is not b_:
                        gphi[id(fr.env[k])] = (fr.env[k], sig, a_, b_)
            return NORMAL
        if n1:
            fr.env, self.ctx.selfenv = env1, self1
            self._taint_after_branch(env0, c)
            return NORMAL
        if n2:
            fr.env, self.ctx.selfenv = env2, self2
            self._taint_after_branch(env0, c)
            return NORMAL
        if st1 == st2:
            return st1
        # mixed abrupt exits (e.g. raise / break): report the "weaker" one
        for k in (BREAK, CONTINUE, RETURN, RAISE):
            if k in (st1, st2):
                return k
        return RAISE

    def _taint_after_branch(self, env0, c):
        # the surviving path is conditioned on the test (the other arm left the function):
        # everything computed afterwards is control dependent on it.
        self.fr.ctrl[-1] = self.fr.ctrl[-1] | c

    def s_For(self, s):
        fr = self.fr
        it = self.ev(s.iter)
        seq = it.tag("zip_items") or (it.items if it.tag("kind") in ("tuple", "list") else None)
        if seq is not None and 0 < len(seq) <= 6 and not s.orelse and not any(
                isinstance(n, (ast.Break, ast.Continue)) for n in ast.walk(s)):
            # a loop over a fixed-length sequence is unrolled (keeps the pairing of zipped lists)
            fr.loops.append((fr.fn.qual, s.lineno))
            st = NORMAL
            for item in seq:
                self.bind_target(s.target, item, s)
                st = self.run_body(s.body)
                if st != NORMAL:
                    break
            fr.loops.pop()
            return st if st in (RETURN, RAISE) else NORMAL
        elem = self.iter_elem(it, s.iter)
        zero_trip = self.may_be_empty(it)
        loop_id = (fr.fn.qual, s.lineno)
        env_before, self_before = dict(fr.env), dict(self.ctx.selfenv)
        fr.loops.append(loop_id)
        saved_b, saved_c = fr.break_envs, fr.cont_envs
        fr.break_envs, fr.cont_envs = [], []
        entry_e, entry_s = env_before, self_before      # state at the head of an iteration
        back = None                                     # joined state at the back edge
        prev_sig = None
        for rnd in range(LOOP_ROUNDS):
            fr.env, self.ctx.selfenv = dict(entry_e), dict(entry_s)
            self.bind_target(s.target, elem, s)
            st = self.run_body(s.body)
            ends = [(fr.env, self.ctx.selfenv)] if st == NORMAL else []
            ends += fr.cont_envs
            fr.cont_envs = []
            if not ends:
                break                                   # the body never reaches the back edge
            e1, s1 = ends[0]
            for (ea, sa) in ends[1:]:
                e1, s1 = join_env(e1, ea), join_env(s1, sa)
            back = (e1, s1) if back is None else (join_env(back[0], e1), join_env(back[1], s1))
            sig = _env_sig(back[0])
            if sig == prev_sig:
                break
            prev_sig = sig
            entry_e, entry_s = join_env(env_before, back[0]), join_env(self_before, back[1])
            # names bound in an earlier iteration are definitely bound at the head of a later one
            for k in back[0]:
                if k not in env_before and k in entry_e:
                    entry_e[k].tags.pop("maybe_undef", None)
        fr.loops.pop()
        breaks = fr.break_envs
        fr.break_envs, fr.cont_envs = saved_b, saved_c
        # loop exhaustion (no break): orelse runs
        if back is None:
            ne, ns = env_before, self_before
        elif zero_trip:
            ne, ns = join_env(env_before, back[0]), join_env(self_before, back[1])
            for k, v in ne.items():
                if k not in env_before:
                    v.tags["undef_loop"] = loop_id
        else:
            ne, ns = back
        fr.env, self.ctx.selfenv = dict(ne), dict(ns)
        st_else = NORMAL
        if s.orelse:
            st_else = self.run_body(s.orelse)
        outs = []
        if st_else == NORMAL:
            outs.append((fr.env, self.ctx.selfenv))
        outs.extend(breaks)
        if not outs:
            return st_else
        oe, os_ = outs[0]
        for (ea, sa) in outs[1:]:
            oe, os_ = join_env(oe, ea), join_env(os_, sa)
        fr.env, self.ctx.selfenv = dict(oe), dict(os_)
        return NORMAL

    def s_While(self, s):
        fr = self.fr
        env_before = dict(fr.env)
        fr.loops.append((fr.fn.qual, s.lineno))
        saved_b, saved_c = fr.break_envs, fr.cont_envs
        fr.break_envs, fr.cont_envs = [], []
        for _ in range(LOOP_ROUNDS):
            self.ev(s.test)
            self.run_body(s.body)
            fr.env = join_env(env_before, fr.env)
        fr.loops.pop()
        for (ea, sa) in fr.break_envs:
            fr.env = join_env(fr.env, ea)
        fr.break_envs, fr.cont_envs = saved_b, saved_c
        return NORMAL

    def s_Try(self, s):
        fr = self.fr
        caught = []
        for h in s.handlers:
            if h.type is None:
                caught.append("BaseException")
            elif isinstance(h.type, ast.Tuple):
                caught.extend(_exc_name(self, x) for x in h.type.elts)
            else:
                caught.append(_exc_name(self, h.type))
        env0, self0 = dict(fr.env), dict(self.ctx.selfenv)
        fr.handlers.append(tuple(caught))
        st = self.run_body(s.body)
        fr.handlers.pop()
        outs = []
        if st == NORMAL:
            if s.orelse:
                st = self.run_body(s.orelse)
            if st == NORMAL:
                outs.append((fr.env, self.ctx.selfenv))
        env_try = fr.env
        results = [st]
        for h in s.handlers:
            # the handler may start from any point of the body: join(before, after)
            fr.env = join_env(env0, env_try)
            self.ctx.selfenv = join_env(self0, self.ctx.selfenv)
            if h.name:
                fr.env[h.name] = Val(tags={"kind": "exception"})
            fr.guards.append(("except " + ",".join(caught), True, h, False))
            sth = self.run_body(h.body)
            fr.guards.pop()
            results.append(sth)
            if sth == NORMAL:
                self.emit("handler_exit", h, env=dict(fr.env), caught=tuple(caught))
                outs.append((fr.env, self.ctx.selfenv))
        if outs:
            oe, os_ = outs[0]
            for (ea, sa) in outs[1:]:
                oe, os_ = join_env(oe, ea), join_env(os_, sa)
            fr.env, self.ctx.selfenv = dict(oe), dict(os_)
            stf = NORMAL
        else:
            stf = results[0] if results[0] != NORMAL else (results[1] if len(results) > 1 else RAISE)
        if s.finalbody:
            sf = self.run_body(s.finalbody)
            if sf != NORMAL:
                return sf
        return stf

    # ================================================================ binding / refinement
    def bind_target(self, t, v, node, aug=False):
        fr = self.fr
        c = fr.ctrl[-1]
        if isinstance(t, ast.Name):
            if t.id in fr.param_live and not aug:
                old = fr.env.get(t.id)
                # `x = np.asarray(x)` / `x = np.atleast_2d(x)` may still be the caller's object; anything FRESH is a new one
                same = old is not None and isinstance(v.fresh, tuple) and isinstance(old.fresh, tuple) and (v.fresh[1] & old.fresh[1])
                if not same and not (old is not None and old.fresh == "FRESH" and v.term is not None and old.term is not None
                                     and v.tag("view_of") == old.term):
                    fr.param_live.discard(t.id)
            if aug and t.id in fr.param_live and v.tag("kind") != "int" and not v.tag("isnum"):
                fr.param_mutated.add(t.id)               # `x -= y` on an array parameter updates the caller's object
            fr.env[t.id] = v.with_ctrl(c) if c else v
            vb = _view_base(node.value) if isinstance(node, ast.Assign) and not aug else None
            if vb is not None and vb != t.id and vb in fr.env:
                fr.views[t.id] = {vb} | fr.views.get(vb, set())
            elif not aug:
                fr.views.pop(t.id, None)
            return
        if isinstance(t, (ast.Tuple, ast.List)):
            items = v.items
            if items is None and v.tag("kind") == "generator":
                items = None
            n = len(t.elts)
            if items is not None and len(items) == n and not any(isinstance(x, ast.Starred) for x in t.elts):
                for x, iv in zip(t.elts, items):
                    self.bind_target(x, iv, node)
            else:
                if items is not None and len(items) != n:
                    self.emit("unpack_mismatch", node, want=n, got=len(items))
                f = v.flat()
                elem = v.tag("elem")
                base = elem.flat() if elem is not None else f
                w = Val(data=base.data | f.data, shp=base.shp | f.shp, ctrl=base.ctrl | f.ctrl, refs=base.refs | f.refs,
                        shape=None, unit=base.unit if elem is not None else None,
                        term=mk_term("unpack", v.term))
                for x in t.elts:
                    self.bind_target(x.value if isinstance(x, ast.Starred) else x, w, node)
            return
        if isinstance(t, ast.Starred):
            self.bind_target(t.value, v, node)
            return
        if isinstance(t, ast.Attribute):
            if isinstance(t.value, ast.Name) and t.value.id == "self" and fr.env.get("self") is not None \
                    and fr.env["self"].tag("kind") == "self":
                # `self.x = self.x` (the field's own current value, e.g. the untaken side of `new if given else self.x`) changes nothing
                self.emit("self_store", node, attr=t.attr, val=v, noop=(self.ctx.selfenv.get(t.attr) is v))
                if v.tag("kind") in ("dict", "list", "set"):
                    v.tags["self_container"] = t.attr          # (the same object may also be bound to a local name: cache = self._c = {})
                self.ctx.selfenv[t.attr] = v.with_ctrl(c)
                return
            base = self.ev(t.value)
            heap = self.ctx.trace.heap
            ev = self.emit("attr_store", node, base=base, attr=t.attr, val=v)
            for oid in base.refs:
                o = heap.get(oid)
                if o is None:
                    continue
                if o.kind in ("cvxparam", "cvxvar") and t.attr == "value":
                    o.store(v.with_ctrl(c))
                    o.stores.append(ev)
                    if o.kind == "cvxparam":
                        vf = v.flat()
                        if not o.attrs.get("unit_set"):
                            o.unit, o.frame = vf.unit, vf.frame
                            o.attrs["unit_set"] = True
                        else:
                            if o.unit != vf.unit:
                                o.unit = None
                            if o.frame != vf.frame:
                                o.frame = None
                else:
                    o.store(v)
            return
        if isinstance(t, ast.Subscript):
            base = self.ev(t.value)
            idx = self.ev(t.slice)
            if base.tag("kind") == "dict" or (base.refs and all(self.ctx.trace.heap[o].kind == "dict" for o in base.refs if o in self.ctx.trace.heap) and base.tag("kind") != "ndarray" and base.shape is None and base.tag("kind") in ("dict",)):
                self.store_dict(t, base, idx, v, node)
                return
            if base.tag("kind") == "list":
                for oid in base.refs:
                    o = self.ctx.trace.heap.get(oid)
                    if o is not None and o.kind == "list":
                        o.store(v)
                if isinstance(t.value, ast.Name):
                    nb = base.copy()
                    f = v.flat()
                    nb.data |= f.data
                    nb.shp |= f.shp
                    nb.ctrl |= f.ctrl | c
                    nb.items = None
                    fr.env[t.value.id] = nb
                return
            if base.tag("module_const"):
                self.emit("global_mutation", node, name=base.tag("module_const"), how="item store")
            if base.tag("bound_array_method"):
                self.emit("method_as_value", node, method=base.tag("bound_array_method"), recv=base.tag("recv"),
                          how="subscript-store")
                return
            if base.tag("self_container") and isinstance(t.value, ast.Name):
                self.emit("self_store", node, attr=base.tag("self_container"), val=v, how="item", key=idx)     # through a local alias of the field
            if not aug:
                self.emit("inplace", node, target=base, value=v, how="subscript", index=idx, tnode=t.value)
            # unit of a zero-initialised array is set by the first store
            if base.unit is not None and v.unit is not None:
                ok, _ = ueq(base.unit, v.unit)
                if not ok:
                    self.type_error(node, "QTY", f"store of [{ustr(v.unit)}] into an array of [{ustr(base.unit)}]",
                                    sub=("literal" if (v.unit == ONE and (v.tag("ones") or v.tag("isnum") or v.known)) else "mismatch"))
            f = v.flat()
            i = idx.flat()
            nb = base.copy()
            nb.items = None
            nb.const = U
            nb.data = base.data | f.data | i.data
            nb.shp = base.shp | f.shp | i.shp
            nb.ctrl = base.ctrl | f.ctrl | i.ctrl | c
            nb.refs = base.refs | f.refs
            if base.unit == POLY and v.unit not in (None,):
                nb.unit = v.unit
                nb.frame = v.frame
            elif base.unit is None:
                nb.unit = None
            if base.sign is not None and v.sign is not None:
                from .values import join_sign
                nb.sign = join_sign(base.sign, v.sign)
                if nb.tags.get("zero_init"):
                    nb.sign = v.sign if v.sign in ("NONNEG", "POS") else None
            else:
                nb.sign = None
            if v.tag("deg") is not None and (base.tag("zero_init") and base.tag("deg") is None or base.tag("deg") == v.tag("deg")):
                nb.tags["deg"] = dict(v.tag("deg"))
            elif base.tag("deg") is not None:
                nb.tags.pop("deg", None)
            if v.tag("simplex_rows") and (base.tag("zero_init") or base.tag("simplex_rows")):
                nb.tags["simplex_rows"] = True
                nb.sign = "NONNEG"
            elif base.tag("simplex_rows"):
                nb.tags.pop("simplex_rows", None)
            if idx.tag("zero_row_mask_of") is not None and not idx.tag("zero_row_mask_inverted"):
                nb.tags.pop("maybe_zero_rows", None)     # the all-zero rows are overwritten
            cmp_ = idx.tag("cmp")
            if cmp_ is not None and cmp_[0] in ("LtE", "Lt") and cmp_[2].known and cmp_[2].const == 0 \
                    and cmp_[1].term == base.term and v.tag("extconst") == "numpy.nan":
                nb.tags["pos_or_nan"] = True        # x[x <= 0] = nan : only positive multiples survive
                nb.sign = "POS"
            if base.tag("zero_init") and (idx.tag("row_mask") is not None or idx.tag("allany") is not None or idx.tag("boolarr")
                                          or (idx.tag("cmp") is not None and idx.tag("kind") != "bool")) and not fr.loops:
                nb.tags["filled_through_mask"] = M.norm_text(t)       # only the selected rows are written: the others keep the initial zeros
            if isinstance(t.value, ast.Name) and t.value.id in fr.param_live:
                fr.param_mutated.add(t.value.id)
            nb.tags.pop("raw_quotient_by", None)         # some entries were overwritten: no longer the raw quotient
            if isinstance(t.slice, ast.Slice) and t.slice.lower is not None and t.slice.upper is None and t.slice.step is None:
                nb.tags["tail_filled"] = M.norm_text(t)      # x[k:] = …: the tail (padded rows of a batch vector) is set explicitly
                ex_ = v.tag("extremum")
                if ex_ is not None and ex_[1].term is not None and ex_[1].term == base.term:
                    # … with an extremum of the WHOLE vector, i.e. taken over the padding it is about to overwrite (the zero fill wins a min)
                    nb.tags["tail_filled_from_self"] = (ex_[0], M.norm_text(node) if hasattr(node, "lineno") else M.norm_text(t))
            nb.tags.pop("affine_grid", None)
            nb.term = mk_term("stored", base.term, f.term)
            if isinstance(t.value, ast.Name):
                fr.env[t.value.id] = nb
                for bn in fr.views.get(t.value.id, ()):
                    # the target is a view (reshape / transpose / basic slice) of another local array: the store lands in that array too
                    ob = fr.env.get(bn)
                    if ob is None:
                        continue
                    eb = ob.copy()
                    eb.items = None
                    eb.const = U
                    eb.data = ob.data | f.data | i.data
                    eb.shp = ob.shp | f.shp | i.shp
                    eb.ctrl = ob.ctrl | f.ctrl | i.ctrl | c
                    eb.refs = ob.refs | f.refs
                    if ob.unit == POLY and v.unit is not None:
                        eb.unit, eb.frame = v.unit, v.frame
                    elif ob.unit is not None and v.unit is not None and not ueq(ob.unit, v.unit)[0]:
                        eb.unit = None
                    if ob.sign is not None and v.sign is not None:
                        from .values import join_sign as _js
                        eb.sign = _js(ob.sign, v.sign) if not ob.tags.get("zero_init") else (v.sign if v.sign in ("NONNEG", "POS") else None)
                    else:
                        eb.sign = None
                    fr.env[bn] = eb
                    if bn in fr.param_live:
                        fr.param_mutated.add(bn)
            elif isinstance(t.value, ast.Attribute) and isinstance(t.value.value, ast.Name) and t.value.value.id == "self":
                self.ctx.selfenv[t.value.attr] = nb
                self.emit("self_store", node, attr=t.value.attr, val=nb, how="item", key=idx)      # self.x[...] = v changes the field x
            return
        self.ctx.note(f"unmodelled assignment target {type(t).__name__}")

    def store_dict(self, t, base, idx, v, node):
        fr = self.fr
        if base.tag("module_const"):
            self.emit("global_mutation", node, name=base.tag("module_const"), how="item store")
        if base.tag("self_container") and not (base.tag("self_dict") or base.tag("self_dict_member")):
            # item store into a container that IS (or may be) a field of the estimator, possibly through a local alias
            self.emit("self_store", node, attr=base.tag("self_container"), val=v, how="item", key=idx)
        if base.tag("self_dict_member") and not base.tag("self_dict"):
            # an item store into a container that lives in self.__dict__: the subscript is the cache key
            self.emit("self_store", node, attr=base.tag("self_dict_member"), val=v, how="item", key=idx)
        elif base.tag("self_dict") or base.tag("self_dict_member"):
            self.emit("self_store", node, attr=(idx.const if (idx.known and isinstance(idx.const, str) and base.tag("self_dict")) else
                                                base.tag("self_dict_member") or "__dict__[…]"), val=v)
        nb = base.copy()
        kw = dict(nb.tag("kw") or {})
        if idx.known and isinstance(idx.const, str) and nb.tag("kw") is not None:
            kw[idx.const] = v
            nb.tags["kw"] = kw
        else:
            nb.tags.pop("kw", None)
        f = v.flat()
        nb.data |= f.data
        nb.shp |= f.shp
        nb.ctrl |= f.ctrl | fr.ctrl[-1]
        nb.refs |= f.refs
        for oid in base.refs:
            o = self.ctx.trace.heap.get(oid)
            if o is not None:
                o.store(v)
        self.emit("dict_store", node, target=base, key=idx, val=v, tnode=t.value)
        if isinstance(t.value, ast.Name):
            fr.env[t.value.id] = nb

    def refine(self, test, truth):
        """Refine env from a test known to be `truth` on this path."""
        fr = self.fr
        if isinstance(test, ast.UnaryOp) and isinstance(test.op, ast.Not):
            return self.refine(test.operand, not truth)
        if isinstance(test, ast.BoolOp):
            if isinstance(test.op, ast.And) and truth:
                for x in test.values:
                    self.refine(x, True)
            if isinstance(test.op, ast.Or) and not truth:
                for x in test.values:
                    self.refine(x, False)
            return
        if isinstance(test, ast.Compare) and len(test.ops) == 1:
            op, l, r = test.ops[0], test.left, test.comparators[0]
            key = _refkey(l)
            if key is None:
                return
            cur = self._get(key)
            if cur is None:
                return
            if isinstance(op, (ast.Is, ast.IsNot)) and isinstance(r, ast.Constant) and r.value is None:
                is_none = isinstance(op, ast.Is) == truth
                if is_none:
                    self._set(key, const(None).with_ctrl(cur.ctrl))
                else:
                    if not cur.known:
                        nv = cur.copy()
                        nv.tags["notnone"] = True
                        self._set(key, nv)
            elif isinstance(op, (ast.Eq, ast.NotEq)) and isinstance(r, ast.Constant):
                eq = isinstance(op, ast.Eq) == truth
                if eq and not cur.known:
                    nv = cur.copy()
                    nv.const = r.value
                    self._set(key, nv)
            elif isinstance(op, (ast.GtE, ast.Gt, ast.LtE, ast.Lt)):
                # np.all(lb >= 0)-style guards are handled through the call form below
                pass
            return
        if isinstance(test, ast.Call):
            # isinstance(x, T) / np.all(x >= 0) / callable(x)
            f = test.func
            fname = f.id if isinstance(f, ast.Name) else (f.attr if isinstance(f, ast.Attribute) else None)
            if fname == "isinstance" and len(test.args) == 2:
                key = _refkey(test.args[0])
                cur = self._get(key) if key else None
                if cur is not None and not cur.known:
                    tname = M.norm_text(test.args[1])
                    nv = cur.copy()
                    if tname in ("Number", "numbers.Number"):
                        nv.tags["isnum"] = truth
                        if truth:
                            nv.shape = S()
                            nv.tags["notstr"] = True
                    elif tname == "str":
                        if truth:
                            nv.tags["isstr"] = True
                        else:
                            nv.tags["notstr"] = True
                    elif truth:
                        nv.tags["isinstance"] = tname
                        nv.tags["notstr"] = True
                    self._set(key, nv)
            elif fname == "all" and len(test.args) == 1 and isinstance(test.args[0], ast.Compare) and truth:
                c = test.args[0]
                if len(c.ops) == 1 and isinstance(c.ops[0], ast.GtE) and isinstance(c.comparators[0], ast.Constant) \
                        and c.comparators[0].value == 0:
                    key = _refkey(c.left)
                    cur = self._get(key) if key else None
                    if cur is not None:
                        nv = cur.copy()
                        nv.sign = "NONNEG"
                        self._set(key, nv)
            return
        if isinstance(test, ast.Name):
            cur = self._get(test.id)
            if cur is not None and not cur.known and truth:
                nv = cur.copy()
                nv.tags["notnone"] = True
                nv.tags["truth"] = True
                self._set(test.id, nv)
            elif cur is not None and not cur.known and not truth:
                nv = cur.copy()
                nv.tags["truth"] = False
                self._set(test.id, nv)

    def _get(self, key):
        if key is None:
            return None
        if key.startswith("self."):
            return self.ctx.selfenv.get(key[5:])
        return self.fr.env.get(key)

    def _set(self, key, v):
        if key.startswith("self."):
            self.ctx.selfenv[key[5:]] = v
        else:
            self.fr.env[key] = v

    # ================================================================ iteration
    def may_be_empty(self, it):
        t = it.tag("nonempty")
        return not t

    def iter_elem(self, it, node):
        """Abstract element of an iterable value."""
        k = it.tag("kind")
        if k in ("combinations", "product", "zip", "enumerate", "generator", "map") and it.tag("created_loops") is not None \
                and node is not None:
            cur = tuple(self.fr.loops)
            made = it.tag("created_loops")
            extra = [l for l in cur if l not in made]
            if extra:
                self.emit("iterator_reuse", node, kind=k, made_in=made, loops=cur)
        if k == "generator":
            return it.tag("elem") or Val()
        if it.tag("iter_elem") is not None:
            return it.tag("iter_elem")
        if k in ("list", "set") and it.tag("elem") is not None:
            return it.tag("elem")
        if it.items is not None:
            return join_all(it.items) if it.items else Val()
        # an ndarray iterated along its first axis
        f = it.flat()
        out = Val(data=f.data, shp=f.shp, ctrl=f.ctrl, refs=f.refs, unit=f.unit, frame=f.frame, sign=f.sign,
                  term=mk_term("elem", it.term), fresh=f.fresh)
        if f.shape is not None and not f.shape.ell and len(f.shape.axes) >= 1:
            out.shape = Shape(f.shape.axes[1:])
        return out


# -------------------------------------------------------------------- helpers
BUILTIN_NAMES = {"len", "range", "enumerate", "zip", "isinstance", "list", "tuple", "dict", "set", "int", "float",
                 "bool", "str", "min", "max", "abs", "sum", "all", "any", "callable", "hasattr", "getattr",
                 "print", "type", "sorted", "reversed", "map", "filter", "round", "iter", "next", "super", "id",
                 "ValueError", "TypeError", "NameError", "RuntimeError", "NotImplementedError", "AttributeError",
                 "AssertionError", "RuntimeWarning", "ImportError", "Exception", "KeyError", "IndexError",
                 "UserWarning", "DeprecationWarning", "slice", "divmod", "pow", "exec", "frozenset", "object",
                 "staticmethod", "classmethod", "property", "Ellipsis", "NotImplemented", "repr", "open",
                 "setattr", "vars", "issubclass", "bytes", "complex", "UnboundLocalError", "ZeroDivisionError",
                 "StopIteration", "FutureWarning", "OverflowError", "FloatingPointError", "BaseException"}


def _dimv(v):
    from .extern import as_dim
    if v.tag("dim", "nodim") != "nodim":
        return v.tag("dim")
    if v.known and isinstance(v.const, int) and not isinstance(v.const, bool) and v.const >= 1:
        return as_dim(v)
    return None


def _concrete(d):
    return d == () or (d is not None and len(d) == 1 and d[0].startswith("#"))


def _scalar(c):
    return c is None or isinstance(c, (str, bool, int, float))


def _num(c):
    return isinstance(c, (int, float)) and not isinstance(c, bool)


def _refkey(node):
    if isinstance(node, ast.Name):
        return node.id
    if isinstance(node, ast.Attribute) and isinstance(node.value, ast.Name) and node.value.id == "self":
        return "self." + node.attr
    return None


def _exc_name(interp, node):
    if isinstance(node, ast.Name):
        return node.id
    return M.norm_text(node)


def _env_sig(env):
    out = []
    for k in sorted(env):
        v = env[k]
        try:
            f = v.flat()
        except Exception:
            f = v
        out.append((k, f.data, f.shp, f.ctrl, f.refs, repr(f.shape), repr(f.unit), repr(f.frame), f.sign,
                    repr(f.fresh)))
    return tuple(out)
