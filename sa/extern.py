"""Core transfer functions (operators, attributes, subscripts, method/builtin calls) and
dispatch to the models of external callables (ext_models.py)."""
from __future__ import annotations
import ast

from .values import (Val, U, E, join, join_all, const, mk_term, Shape, S, POLY, ONE, umul, upow, ueq, ustr,
                     dim_mul, join_sign)
from . import model as M


# ------------------------------------------------------------------ small helpers
def deps_of(vals):
    d = s = c = r = E
    for v in vals:
        if v is None:
            continue
        f = v.flat()
        d |= f.data
        s |= f.shp
        c |= f.ctrl
        r |= f.refs
    return d, s, c, r


def mk(vals, **kw):
    d, s, c, r = deps_of(vals)
    v = Val(data=d, shp=s, ctrl=c, refs=r)
    for k, x in kw.items():
        setattr(v, k, x)
    return v


def is_cvx(v):
    return bool(v.tag("cvx"))


def alias_of(vals):
    al = E
    for v in vals:
        if v is not None and v.fresh and v.fresh != "FRESH":
            al |= v.fresh[1]
    return ("ALIAS", al) if al else None


def as_dim(v):
    """Dim of an abstract integer (None unknown)."""
    if v is None:
        return None
    d = v.tag("dim", "nodim")
    if d != "nodim":
        return d
    if v.known and isinstance(v.const, int) and not isinstance(v.const, bool):
        if v.const == 1:
            return ()
        if v.const > 1:
            return (f"#{v.const}",)
    return None


def _conc(d):
    if d == ():
        return 1
    if d is not None and len(d) == 1 and d[0].startswith("#") and d[0][1:].isdigit():
        return int(d[0][1:])
    return None


def shape_from_arg(v):
    """Shape described by an int / tuple-of-ints abstract argument."""
    if v is None:
        return None
    if v.items is not None:
        return Shape([as_dim(i) for i in v.items])
    if v.tag("shape_of") is not None:
        return v.tag("shape_of")
    d = as_dim(v)
    if d is not None or v.tag("kind") == "int":
        return Shape([d])
    return None


def norm_axis(ax, rank):
    if ax is None or rank is None:
        return None
    if ax < 0:
        ax += rank
    if 0 <= ax < rank:
        return ax
    return None


# ------------------------------------------------------------------ shapes
def broadcast_shapes(I, node, vals, report=True, what="operands"):
    shapes = [v.shape for v in vals]
    if any(s is None for s in shapes):
        return None
    out = shapes[0]
    for v, s in zip(vals[1:], shapes[1:]):
        out = _bc2(I, node, out, s, report, what)
        if out is None:
            return None
    return out


def _bc2(I, node, a, b, report, what):
    # align on the right
    ra, rb = list(a.axes)[::-1], list(b.axes)[::-1]
    n = max(len(ra), len(rb))
    res = []
    for i in range(n):
        x = ra[i] if i < len(ra) else ("ELL" if a.ell else ())
        y = rb[i] if i < len(rb) else ("ELL" if b.ell else ())
        if x == "ELL" or y == "ELL":
            # the shorter shape has a '...' prefix: beyond its known axes everything is unknown
            res.append(None if "ELL" in (x, y) and (x if y == "ELL" else y) in ("ELL",) else (x if y == "ELL" else y))
            continue
        if x is None or y is None:
            res.append(None)
        elif x == ():
            res.append(y)
        elif y == ():
            res.append(x)
        elif x == y:
            res.append(x)
        else:
            if report:
                I.type_error(node, "SHAPE", f"{what} of shapes {a} and {b} do not broadcast "
                                             f"(axis -{i + 1}: {'⊗'.join(x)} vs {'⊗'.join(y)})", shapes=(a, b))
            return None
    return Shape(res[::-1], a.ell or b.ell)


def matmul_shape(I, node, l, r):
    a, b = l.shape, r.shape
    if a is None or b is None:
        return None
    if not a.axes or not b.axes:
        return None
    la = a.axes[-1]
    if len(b.axes) == 1 and not b.ell:
        cb = b.axes[0]
        rest_b = ()
    else:
        if len(b.axes) < 2:
            return None
        cb = b.axes[-2]
        rest_b = (b.axes[-1],)
    if la is not None and cb is not None and la != cb:
        I.type_error(node, "SHAPE", f"matrix product contracts axis {'⊗'.join(la) or '1'} of {a} with "
                                     f"axis {'⊗'.join(cb) or '1'} of {b}", shapes=(a, b))
        return None
    if len(a.axes) == 1 and not a.ell:
        if len(b.axes) == 1:
            return Shape([])
        return Shape(b.axes[:-2] + rest_b, b.ell)
    if len(b.axes) > 2 and not a.ell and not b.ell and len(a.axes) >= 2:
        # stacks of matrices: the leading (batch) axes broadcast, the last two are the matrix axes
        la_, lb_ = tuple(a.axes[:-2]), tuple(b.axes[:-2])
        n_ = max(len(la_), len(lb_))
        lead = []
        for i_ in range(1, n_ + 1):
            x_ = la_[-i_] if i_ <= len(la_) else ()
            y_ = lb_[-i_] if i_ <= len(lb_) else ()
            lead.append(y_ if x_ == () else (x_ if (y_ == () or x_ == y_) else None))
        return Shape(tuple(lead[::-1]) + (a.axes[-2],) + rest_b)
    return Shape(a.axes[:-1] + rest_b, a.ell)


def transpose_shape(s):
    if s is None:
        return None
    if s.ell:
        return None
    return Shape(s.axes[::-1])


def reduce_shape(s, axis, keepdims=False):
    """axis: None (all) | int | unknown('?')"""
    if s is None:
        return None
    if axis is None:
        return Shape([() for _ in s.axes], s.ell) if keepdims else (Shape([]) if not s.ell else Shape([]))
    if axis == "?":
        return None
    n = len(s.axes)
    if axis < 0:
        k = n + axis
        if k < 0:
            return None
    else:
        if s.ell:
            return None
        k = axis
        if k >= n:
            return None
    ax = list(s.axes)
    if keepdims:
        ax[k] = ()
    else:
        del ax[k]
    return Shape(ax, s.ell)


def const_int(v):
    if v is not None and v.known and isinstance(v.const, int) and not isinstance(v.const, bool):
        return v.const
    return None


def axis_arg(args, kws, pos=None, default=None):
    v = kws.get("axis")
    if v is None and pos is not None and len(args) > pos:
        v = args[pos]
    if v is None:
        return default
    if v.known and v.const is None:
        return None
    c = const_int(v)
    return c if c is not None else "?"


# ------------------------------------------------------------------ frames / signs
def frame_addsub(I, node, add, l, r):
    a, b = l.frame, r.frame
    if a is None and b is None:
        return None
    if add:
        if {a, b} == {"LIGHT", "BASE"}:
            return "TOTAL"
        if {a, b} == {"TOTAL", "BASE"}:
            I.type_error(node, "QTY", "baseline added to a TOTAL capture (baseline applied twice)", frames=(a, b))
            return None
        if a is None or b is None:
            return a or b
        if a == b and a in ("LIGHT",):
            return "LIGHT"
        if isinstance(a, tuple) and a[0] in ("DIFF", "CENT") and b is not None:
            return None
        return None
    if a == "TOTAL" and b == "BASE":
        return "LIGHT"
    if a == "LIGHT" and b == "BASE":
        I.type_error(node, "QTY", "baseline subtracted from a LIGHT (baseline-free) capture (baseline removed twice)",
                     frames=(a, b))
        return None
    if (a, b) in (("TOTAL", "LIGHT"), ("LIGHT", "TOTAL")):
        I.type_error(node, "QTY", f"{a} − {b}: a total capture is compared with a light-induced capture "
                                   f"(baseline not applied on one side)", frames=(a, b))
        return None
    if a == b and a in ("TOTAL", "LIGHT"):
        oid = r.tag("offset_id")
        return ("DIFF", oid if oid is not None else M.norm_text(node)[-40:] if False else id(r))
    if b is None:
        return a
    return None


def eff_sign(v):
    """sign facet, with positive literals and array extents (≥ 1 by the stated non-emptiness assumption) counted as POS"""
    if v.sign is not None:
        return v.sign
    if v.known and isinstance(v.const, (int, float)) and not isinstance(v.const, bool):
        return "POS" if v.const > 0 else ("NONNEG" if v.const == 0 else "ANY")
    if v.tag("kind") == "int" and v.tag("dim") is not None and not v.tag("dimexpr"):
        return "POS"
    return None


def sign_binop(op, l, r):
    a, b = eff_sign(l), eff_sign(r)
    if isinstance(op, ast.Add):
        if a in ("POS", "NONNEG") and b in ("POS", "NONNEG"):
            return "POS" if "POS" in (a, b) else "NONNEG"
        return None
    if isinstance(op, ast.Sub):
        if r.known and r.const == 0:
            return a
        # difference of two independent inputs: may be negative by construction
        if l.data and r.data and not l.known and not r.known and l.term != r.term:
            return "ANY"
        return None
    if isinstance(op, (ast.Mult, ast.Div, ast.MatMult)):
        if a in ("POS", "NONNEG") and b in ("POS", "NONNEG"):
            if isinstance(op, ast.Div):
                return "POS" if (a == "POS" and b == "POS") else "NONNEG"
            return "POS" if (a == "POS" and b == "POS" and not isinstance(op, ast.MatMult)) else "NONNEG"
        if "ANY" in (a, b) and (a in ("POS", "NONNEG", "ANY")) and (b in ("POS", "NONNEG", "ANY")):
            return "ANY"
        return None
    if isinstance(op, ast.Pow):
        if r.known and isinstance(r.const, int) and r.const % 2 == 0:
            return "NONNEG"
        if a in ("POS", "NONNEG"):
            return a
    return None


def deg_binop(op, l, r):
    """multilinear degree per origin (tags['deg']: dict origin->int) and literal factors."""
    dl, dr = l.tag("deg"), r.tag("deg")
    if isinstance(op, (ast.Mult, ast.MatMult)):
        if dl is None and _is_lit(l):
            dl = {}
        if dr is None and _is_lit(r):
            dr = {}
        if dl is None or dr is None:
            return None, None
        d = dict(dl)
        for k, v in dr.items():
            d[k] = d.get(k, 0) + v
        lit = bool(l.tag("litfactor") or r.tag("litfactor") or _nonunit_lit(l) or _nonunit_lit(r))
        return d, lit
    if isinstance(op, ast.Div):
        if dl is not None and _is_lit(r):
            return dict(dl), bool(l.tag("litfactor") or _nonunit_lit(r))
        if dl is None and _is_lit(l):
            dl = {}
        if dl is not None and dr is not None:
            d = dict(dl)
            for k, v in dr.items():
                d[k] = d.get(k, 0) - v
            d = {k: v for k, v in d.items() if v != 0}
            return d, bool(l.tag("litfactor") or r.tag("litfactor") or _nonunit_lit(l))
        return None, None
    if isinstance(op, (ast.Add, ast.Sub)):
        if dl is not None and dr is not None and dl == dr and not _is_lit(l) and not _is_lit(r):
            return dict(dl), bool(l.tag("litfactor") or r.tag("litfactor"))
        return None, None
    if isinstance(op, ast.Pow):
        if dl is not None and r.known and isinstance(r.const, int):
            return {k: v * r.const for k, v in dl.items()}, bool(l.tag("litfactor"))
    return None, None


def _is_lit(v):
    return v.known and isinstance(v.const, (int, float)) and not isinstance(v.const, bool)


# ---- POLY facet: small polynomials over named symbols (tags["poly"]: {monomial tuple: coefficient}); used to evaluate
# affine maps at literal corner values (0/1) without running anything.
POLY_CAP = 24


def poly_of(v):
    p = v.tag("poly")
    if p is not None:
        return p
    if _is_lit(v):
        return {(): v.const} if v.const != 0 else {}
    return None


def poly_binop(op, l, r):
    a, b = poly_of(l), poly_of(r)
    if a is None or b is None:
        return None
    out = {}
    if isinstance(op, (ast.Add, ast.Sub)):
        sg = 1 if isinstance(op, ast.Add) else -1
        out = dict(a)
        for m, c in b.items():
            out[m] = out.get(m, 0) + sg * c
    elif isinstance(op, ast.Mult):
        for m1, c1 in a.items():
            for m2, c2 in b.items():
                m = tuple(sorted(m1 + m2))
                out[m] = out.get(m, 0) + c1 * c2
    else:
        return None
    out = {m: c for m, c in out.items() if c != 0}
    return out if len(out) <= POLY_CAP else None


def poly_subst(p, sym, value):
    """substitute a numeric value for a symbol"""
    out = {}
    for m, c in p.items():
        k = m.count(sym)
        rest = tuple(x for x in m if x != sym)
        cc = c * (value ** k)
        if cc != 0:
            out[rest] = out.get(rest, 0) + cc
    return {m: c for m, c in out.items() if c != 0}


def _nonunit_lit(v):
    return _is_lit(v) and v.const != 1


# ------------------------------------------------------------------ binop
_OPN = {ast.Add: "add", ast.Sub: "sub", ast.Mult: "mul", ast.Div: "div", ast.MatMult: "matmul", ast.Pow: "pow",
        ast.FloorDiv: "floordiv", ast.Mod: "mod", ast.BitAnd: "and", ast.BitOr: "or", ast.BitXor: "xor",
        ast.LShift: "lshift", ast.RShift: "rshift"}


def binop(I, node, op, l, r):
    opn = _OPN.get(type(op), "op")
    # python-level containers / strings
    if l.tag("kind") == "list" and isinstance(op, ast.Mult):
        out = l.copy(term=mk_term("listrep", l.term, r.term))
        out.items = None
        out.tags = dict(l.tags, n_repeat=r, n_items=None)
        d, s, c, rf = deps_of([l, r])
        out.data, out.shp, out.ctrl, out.refs = d, s | r.flat().data, c, rf
        return out
    if l.tag("kind") == "list" and r.tag("kind") == "list" and isinstance(op, ast.Add):
        out = mk([l, r], term=mk_term("listcat", l.term, r.term))
        el, er = l.tag("elem"), r.tag("elem")
        out.tags = {"kind": "list", "elem": join(el, er) if (el is not None and er is not None) else (el or er),
                    "parts": [l, r]}
        return out
    if l.items is not None and r.items is not None and isinstance(op, ast.Add) and l.tag("kind") == "tuple":
        return Val(items=list(l.items) + list(r.items), tags={"kind": "tuple"}, term=mk_term("tupcat", l.term, r.term))
    if (l.known and isinstance(l.const, str)) or (r.known and isinstance(r.const, str)):
        if l.known and r.known and isinstance(op, ast.Add) and isinstance(l.const, str) and isinstance(r.const, str):
            return const(l.const + r.const)
        return mk([l, r], tags={"kind": "str"}, term=("str",))
    # pure constants
    if l.known and r.known and _is_lit(l) and _is_lit(r):
        try:
            c = {"add": lambda a, b: a + b, "sub": lambda a, b: a - b, "mul": lambda a, b: a * b,
                 "div": lambda a, b: a / b, "floordiv": lambda a, b: a // b, "mod": lambda a, b: a % b,
                 "pow": lambda a, b: a ** b}[opn](l.const, r.const)
            I_c = ast.Constant(value=c)
            out = I.e_Constant(I_c)
            out.term = mk_term(opn, l.term, r.term)
            return out
        except Exception:
            pass
    if is_cvx(l) or is_cvx(r):
        from .ext_models import cvx_binop
        return cvx_binop(I, node, op, opn, l, r)
    out = mk([l, r], term=mk_term(opn, l.term, r.term), fresh="FRESH")
    # integer / dimension arithmetic
    dl, dr = as_dim(l), as_dim(r)
    lint = l.tag("kind") == "int" or dl is not None
    rint = r.tag("kind") == "int" or dr is not None
    if lint and rint:
        out.tags["kind"] = "int"
        out.shape = S()
        if isinstance(op, ast.Mult):
            out.tags["dim"] = dim_mul(dl, dr)
        syms = set(dl or ()) | set(dr or ()) | set(l.tag("dim_syms") or ()) | set(r.tag("dim_syms") or ())
        if syms:
            out.tags["dim_syms"] = frozenset(x for x in syms if not x.startswith("#"))
        if isinstance(op, ast.Mult):
            pass
        elif isinstance(op, (ast.FloorDiv, ast.Mod, ast.Sub, ast.Add)):
            out.tags["dimexpr"] = (opn, l, r)
            if isinstance(op, (ast.Add, ast.Sub)):
                for x_, y_ in ((l, r), (r, l)):
                    if x_.tag("count_how") and y_.known:
                        out.tags["count_how"] = x_.tag("count_how")      # count ± constant: still that rounding of the quotient
            # concrete small extents (#k) support ± constants: #2 - 1 = 1
            ka = _conc(dl) if dl is not None else (l.const if (l.known and isinstance(l.const, int)) else None)
            kb = _conc(dr) if dr is not None else (r.const if (r.known and isinstance(r.const, int)) else None)
            if ka is not None and kb is not None and isinstance(op, (ast.Sub, ast.Add)):
                k = ka - kb if isinstance(op, ast.Sub) else ka + kb
                if k == 1:
                    out.tags["dim"] = ()
                elif k > 1:
                    out.tags["dim"] = (f"#{k}",)
                out.const = k if (l.known and r.known) else U
        if isinstance(op, ast.Pow) and l.known and l.const == 2 and (dr is not None or r.tag("kind") == "int"):
            out.tags["pow2_of"] = r                 # 2 ** n: the number of corners of an n-cube
        # sizes feed stacking only: they are SHAPE origins
        out.shp = out.shp | out.data
        out.data = E
        out.unit = ONE
        if isinstance(op, (ast.Mult, ast.Div, ast.Add)):
            out.sign = sign_binop(op, l, r)
            if out.sign == "POS":
                out.tags["isnum"] = True
        return out
    # arrays
    if isinstance(op, ast.RShift) and l.tag("pow2_range") is not None and r.tag("desc_range") is not None:
        # (arange(2**n)[:, None] >> arange(n-1, -1, -1)[None, :]): row r holds the binary digits of r — every 0/1 combination once
        out.shape = broadcast_shapes(I, node, [l, r], report=False)
        out.unit = ONE
        out.tags.update(kind="ndarray", bit_table=(l.tag("pow2_range"), r.tag("desc_range")))
        out.shp = out.shp | out.data
        out.data = E
        return out
    if isinstance(op, ast.BitAnd) and l.tag("bit_table") is not None and r.known and r.const == 1:
        n_rows, n_cols = l.tag("bit_table")
        out.shape = l.shape
        out.unit = ONE
        out.sign = "NONNEG"
        out.shp = out.shp | out.data
        out.data = E
        same = as_dim(n_rows) is not None and as_dim(n_rows) == as_dim(n_cols)
        out.tags.update(kind="ndarray", ndim=2)
        if same:
            out.tags["poly"] = {("corner",): 1}
            out.tags["corner_array"] = True
            out.tags["deg"] = {}
        I.emit("corner_table", node, result=out, lits=(0.0, 1.0), repeat=n_cols, complete=bool(same))
        return out
    if isinstance(op, (ast.BitAnd, ast.BitOr)) and not (l.known and r.known):
        out.tags["bool_combined"] = ("and" if isinstance(op, ast.BitAnd) else "or", l, r)      # verdict narrowed / widened by a second predicate
    if isinstance(op, ast.BitOr) and l.tag("pred") is not None and r.tag("pred") is not None and l.tag("pred")[1].term == r.tag("pred")[1].term \
            and l.tag("pred")[1].term is not None:
        out.tags["pred_union"] = (frozenset({l.tag("pred")[0], r.tag("pred")[0]}), l.tag("pred")[1])     # isfinite(x) | isposinf(x)
        out.tags["boolarr"] = True
    if isinstance(op, ast.MatMult):
        out.shape = matmul_shape(I, node, l, r)
        for x, basis in ((l, r), (r, l)):
            if basis.tag("truncated_basis") and not x.tag("truncated_basis"):
                # coordinates in a proper subspace: the map is not injective — the dependence on x is "through a projection"
                xd = x.flat().data
                out.data = frozenset(o for o in out.data if o not in xd or o in basis.flat().data) | frozenset(
                    o if o.endswith("|proj") else o + "|proj" for o in xd)
                I.emit("projection", node, of=x, basis=basis)
    else:
        out.shape = broadcast_shapes(I, node, [l, r], report=True)
    if l.tag("kind") == "ndarray" or r.tag("kind") == "ndarray":
        out.tags["kind"] = "ndarray"
    # units / frames
    if isinstance(op, (ast.Add, ast.Sub)):
        if l.unit is not None and r.unit is not None:
            ok, u = ueq(l.unit, r.unit)
            if not ok:
                I.type_error(node, "QTY", f"[{ustr(l.unit)}] {'+' if isinstance(op, ast.Add) else '−'} "
                                          f"[{ustr(r.unit)}]", units=(l.unit, r.unit),
                             sub=("literal" if (l.unit == ONE and l.tag("isnum")) or (r.unit == ONE and r.tag("isnum"))
                                  or l.tag("ones") or r.tag("ones") else "mismatch"))
                u = None
                # a dimensionless LITERAL (np.ones, a number) added to a dimensioned value is reported once, above; the sum is then read in
                # the unit of the dimensioned side, so that what is computed from it stays typed
                lit_l = (l.unit == ONE and l.tag("isnum")) or l.tag("ones")
                lit_r = (r.unit == ONE and r.tag("isnum")) or r.tag("ones")
                if lit_l != lit_r:
                    u = r.unit if lit_l else l.unit
            out.unit = u
            if ok and isinstance(l.unit, dict) and isinstance(r.unit, dict) and l.unit:
                I.emit("typed_op", node, op=opn, unit=l.unit)
        else:
            out.unit = None
        out.frame = frame_addsub(I, node, isinstance(op, ast.Add), l, r)
        if isinstance(op, ast.Sub) and (isinstance(out.frame, tuple) or l.tag("kind") == "ndarray"):
            out.tags["minus"] = r
    elif isinstance(op, (ast.Mult, ast.MatMult)):
        out.unit = umul(l.unit, r.unit, 1)
        out.frame = frame_mul(I, node, l, r, isinstance(op, ast.MatMult))
        if isinstance(op, ast.Mult) and l.frame is not None and r.frame is not None:
            # array × framed scalar (B * amax): remember the scalar's frame until its matching divisor arrives
            for arrv, sc in ((l, r), (r, l)):
                if sc.shape is not None and sc.shape.rank == 0 and not (arrv.shape is not None and arrv.shape.rank == 0):
                    out.tags["scalar_factor"] = (sc.frame, sc.unit)
        for pt, other in ((l, r), (r, l)):
            if pt.tag("point"):
                scalar_const = _is_lit(other) or other.tag("extconst") or other.tag("physical_constant") or (
                    other.shape is not None and other.shape.rank == 0 and not (other.flat().data - pt.flat().data))
                if scalar_const:
                    out.tags["point"] = True         # a rescaled coordinate array (unit conversion) is still a coordinate array
                elif other.tag("kind") == "ndarray" or other.frame is not None or (isinstance(other.unit, dict) and other.unit):
                    I.type_error(node, "QTY", "a coordinate array (positions on the domain axis) is used as a multiplicative weight; "
                                              "only differences of positions (steps) are measures", sub="point")
    elif isinstance(op, ast.Div):
        out.unit = umul(l.unit, r.unit, -1)
        out.tags["floating"] = True
        if {l.frame, r.frame} == {"LIGHT", "TOTAL"} and l.unit is not None and l.unit == r.unit:
            I.type_error(node, "QTY", f"ratio of a {l.frame} capture to a {r.frame} capture (one side includes the baseline, the other "
                                      f"does not)", sub="frame-ratio")
        if isinstance(r.frame, tuple) and r.frame[0] == "CENT":
            out.tags["raw_quotient_by"] = r.frame      # ±inf / sign-indefinite wherever the centred coordinate is 0 or negative
        sf = l.tag("scalar_factor")
        if sf is not None and {sf[0], r.frame} == {"LIGHT", "TOTAL"} and sf[1] is not None and sf[1] == r.unit \
                and r.shape is not None and r.shape.rank == 0:
            I.type_error(node, "QTY", f"ratio of a {sf[0]} capture to a {r.frame} capture (one side includes the baseline, the other "
                                      f"does not)", sub="frame-ratio")
        if r.tag("norm_of") is not None and r.tag("norm_of") == l.term and l.term not in (None, ("?",)):
            out.tags["normalized_ord"] = r.tag("norm_ord")
        if r.frame is None or _is_lit(r):
            out.frame = l.frame
        elif r.shape is not None and r.shape.rank == 0 and not (l.shape is not None and l.shape.rank == 0):
            out.frame = l.frame          # an array divided by a scalar keeps its frame
        else:
            out.frame = None
        if l.known and l.const == 1 and r.frame == "TOTAL":
            out.tags["inv_of_total"] = True
        if l.known and _is_lit(l) and r.frame is not None:
            out.tags["inv_of_frame"] = r.frame
    elif isinstance(op, ast.Pow):
        n = r.const if (r.known and isinstance(r.const, int)) else None
        out.unit = upow(l.unit, n) if n is not None else (l.unit if l.unit in (POLY, ONE) else None)
        out.frame = None
        if n == 2:
            out.tags["squared"] = l
            I.emit("square", node, of=l)
        if l.tag("lives_on") is not None and not (r.tag("kind") == "ndarray"):
            out.tags["lives_on"] = l.tag("lives_on")      # an elementwise power of a sampled function is sampled on the same domain
        if r.tag("dim") and not r.known and l.tag("kind") != "int":
            out.tags["pow_by_extent"] = r.tag("dim")      # x ** (number of columns): a length scale raised to an array extent
    if isinstance(op, ast.Div) and l.tag("kind") == "ndarray" and not l.known and not r.known:
        # x / f(x): a value divided by a functional of ITSELF (normalisation); plain data origins only
        lo = {o for o in l.flat().data if "|" not in o and "@" not in o and "#" not in o}
        ro = {o for o in r.flat().data if "|" not in o and "@" not in o and "#" not in o}
        reduced = r.tag("reduced_axis") is not None or r.tag("extremum") is not None or r.tag("norm_ord") is not None
        if not reduced and l.shape is not None and r.shape is not None and not l.shape.ell and not r.shape.ell:
            la, ra = l.shape.axes, r.shape.axes
            reduced = len(ra) < len(la) or any(b_ == () and a_ not in ((), None) for a_, b_ in zip(la[::-1], ra[::-1]))
        if lo and (lo & ro) and reduced:
            I.emit("self_quotient", node, origins=frozenset(lo & ro), num=l, den=r)
    if isinstance(op, ast.Div) and l.tag("kind") != "ndarray" and (r.tag("extremum") is not None or r.tag("reduced_axis") is not None
                                                                    or r.tag("norm_ord") is not None):
        ro_ = frozenset(o for o in r.flat().data if "|" not in o and "@" not in o and "#" not in o)
        if ro_:
            out.tags["reciprocal_of_functional"] = ro_           # c / f(x): multiplying x by it is a self-normalisation of x
    if isinstance(op, ast.Mult):
        for a_, b_ in ((l, r), (r, l)):
            rf_ = a_.tag("reciprocal_of_functional")
            if rf_ and b_.tag("kind") == "ndarray":
                bo_ = {o for o in b_.flat().data if "|" not in o and "@" not in o and "#" not in o}
                if rf_ & bo_:
                    I.emit("self_quotient", node, origins=frozenset(rf_ & bo_), num=b_, den=a_)
    if isinstance(op, (ast.Mult, ast.Div)):
        for x_ in (l, r):
            if x_.tag("pow_by_extent"):
                out.tags["pow_by_extent"] = x_.tag("pow_by_extent")
    if isinstance(op, (ast.Add, ast.Sub, ast.Mult, ast.MatMult, ast.Div)) and (l.tag("floating") or r.tag("floating")):
        out.tags["floating"] = True
        if isinstance(op, ast.Add) and ((r.known and r.const == 0.5) or (l.known and l.const == 0.5)):
            out.tags["plus_half"] = True
    if isinstance(op, (ast.Add, ast.Sub, ast.Mult)) and any(x.tag("arange") or x.tag("affine_grid") for x in (l, r)):
        out.tags["affine_grid"] = True        # start + k·step: the last point is a rounded product, not the requested end
    out.sign = sign_binop(op, l, r)
    pp = poly_binop(op, l, r)
    if pp is not None:
        out.tags["poly"] = pp
    if isinstance(op, ast.Div) and r.tag("norm_ord") == 1 and r.tag("norm_of") == l.term and l.term not in (None, ("?",)) \
            and l.sign in ("NONNEG", "POS") \
            and r.tag("reduced_axis") in (-1, 1) and r.tag("keepdims"):
        out.tags["simplex_rows"] = True      # non-negative rows divided by their own L1 norm
        out.sign = "NONNEG"
    d, lit = deg_binop(op, l, r)
    if d is not None:
        out.tags["deg"] = d
        if lit:
            out.tags["litfactor"] = True
    # neutral-centred chromaticity bookkeeping
    if isinstance(op, ast.Sub) and l.tag("bary") and r.tag("bary"):
        out.tags["bary"] = True
        if isinstance(l.frame, tuple) and l.frame[0] == "CENT":
            I.type_error(node, "QTY", "a centre is subtracted from chromatic coordinates that are already centred", sub="centre")
        out.frame = ("CENT", r.term)
    elif isinstance(op, ast.Add) and l.tag("bary") and r.tag("bary"):
        out.tags["bary"] = True
        cl, cr = (l, r) if isinstance(l.frame, tuple) and l.frame[0] == "CENT" else ((r, l) if isinstance(r.frame, tuple) and r.frame[0] == "CENT" else (None, None))
        if cl is not None:
            if cl.frame[1] != cr.term:
                I.type_error(node, "QTY", "the centre added back to the scaled chromatic coordinates is not the centre that was "
                                          "subtracted before scaling (hue directions are taken from a different point)", sub="centre")
            out.frame = None
    elif isinstance(op, (ast.Mult, ast.Div)) and (l.tag("bary") or r.tag("bary")):
        out.tags["bary"] = True
        out.frame = l.frame if l.tag("bary") else r.frame
    return out


def frame_mul(I, node, l, r, matmul):
    a, b = l.frame, r.frame
    if a is None and b is None:
        return None
    if not matmul and a is not None and b is not None:
        # an array scaled by a scalar keeps its frame (B * amax / bmax)
        ls, rs = l.shape, r.shape
        if rs is not None and rs.rank == 0 and not (ls is not None and ls.rank == 0):
            return a
        if ls is not None and ls.rank == 0 and not (rs is not None and rs.rank == 0):
            return b
    if a is not None and b is not None:
        if {a, b} == {"GAIN"}:
            I.type_error(node, "QTY", "product of two gain matrices (adaptation applied twice?)", frames=(a, b))
        return None
    fr, other = (a, r) if a is not None else (b, l)
    if matmul and a is None and b == "TOTAL" and r.shape is not None and r.shape.rank >= 2 and l.shape is not None and l.shape.rank >= 2 \
            and not l.tag("rows_sum_to_one") and not r.shape.ell and isinstance(r.shape.axes[-2], tuple) and r.shape.axes[-2] \
            and not any(str(x_).startswith(("F", "#")) for x_ in r.shape.axes[-2]):
        # (a contraction over the CHANNEL axis is the adaptation matrix applied to the total capture, K·(q + baseline): legitimate)
        # W @ T: each row is a linear combination of baseline-including captures — the baseline is counted Σ_j W[i, j] times
        I.type_error(node, "QTY", "rows of baseline-including (TOTAL) captures are linearly combined by a weight matrix whose rows are not "
                                  "known to sum to one: the baseline enters the result once per combined row, scaled by the weights "
                                  "(capture of a mixture = capture(W @ X), not W @ capture(X))", frames=(a, b))
        return None
    if fr == "GAIN":
        ou = other.unit
        if isinstance(ou, dict) and ou.get("s", 0) == 1 and len(ou) == 1:
            return "LIGHT"          # intensities × gain = light-induced capture
        return "GAIN"
    return fr


# ------------------------------------------------------------------ attribute
ARRAY_METHODS = {"copy", "ravel", "flatten", "reshape", "astype", "sum", "min", "max", "mean", "all", "any",
                 "squeeze", "transpose", "dot", "std", "var", "argmin", "argmax", "cumsum", "round", "tolist",
                 "nonzero", "clip", "fill", "sort", "item", "prod", "conj", "view", "swapaxes", "take", "repeat"}


def attribute(I, e, b):
    attr = e.attr
    if b.tag("ext"):
        dotted = b.tag("ext") + "." + attr
        I.emit("ext_attr", e, dotted=dotted)
        from .ext_models import ext_constant
        v = ext_constant(I, e, dotted)
        if v is not None:
            return v
        return Val(tags={"ext": dotted}, term=("ext", dotted))
    if b.tag("repomod"):
        mod = b.tag("repomod")
        fn = I.ctx.model.func(mod, attr)
        if fn is not None:
            return Val(tags={"repofunc": fn}, term=("func", fn.qual))
        if mod + "." + attr in I.ctx.model.modules:
            return Val(tags={"repomod": mod + "." + attr})
        m = I.ctx.model.module(mod)
        if m is not None:
            r = I.ctx.model.resolve_name(m, attr)
            if r and r[0] == "ext":
                return Val(tags={"ext": r[1]}, term=("ext", r[1]))
        I.emit("unresolved_name", e, name=mod + "." + attr)
        return Val()
    f = b.flat()
    heap = I.ctx.trace.heap
    if attr == "T":
        out = b.copy(term=mk_term("T", b.term))
        out.shape = transpose_shape(b.shape)
        out.items = None
        if b.tag("indices_flat") is not None:
            # (np.indices((2,)*n).reshape(n, 2**n)).T : one row per corner of the n-cube, entries in {0, 1}
            n_ = b.tag("indices_flat")
            out.tags.pop("indices_flat", None)
            out.tags.update(poly={("corner",): 1}, corner_array=True, deg={}, ndim=2)
            out.shape = Shape([None, as_dim(n_)])
            I.emit("corner_table", e, result=out, lits=(0.0, 1.0), repeat=n_, complete=True)
        if is_cvx(b):
            out.tags = dict(b.tags, cvx="expr", atom=("T", [b]))
        return out
    if attr == "shape":
        out = Val(shp=f.data | f.shp, ctrl=f.ctrl, term=mk_term("shape", b.term), tags={"kind": "tuple"})
        if b.shape is not None:
            if not b.shape.ell:
                out.items = [Val(shp=out.shp, ctrl=f.ctrl, tags={"dim": d, "kind": "int"}, unit=ONE, shape=S(),
                                 term=mk_term("dim", b.term, i)) for i, d in enumerate(b.shape.axes)]
            out.tags["shape_of"] = b.shape
        return out
    if attr == "ndim":
        out = Val(shp=f.data | f.shp, ctrl=f.ctrl, term=mk_term("ndim", b.term), tags={"kind": "int"}, unit=ONE)
        if b.tag("ndim") is not None:
            out.const = b.tag("ndim")
        elif b.shape is not None and not b.shape.ell:
            out.const = len(b.shape.axes)
        return out
    if attr == "size":
        out = Val(shp=f.data | f.shp, ctrl=f.ctrl, term=mk_term("size", b.term), tags={"kind": "int"}, unit=ONE,
                  shape=S())
        if b.shape is not None and not b.shape.ell:
            d = ()
            for a in b.shape.axes:
                d = dim_mul(d, a)
            out.tags["dim"] = d
        return out
    if attr == "value" and b.refs:
        vals = []
        for oid in b.refs:
            o = heap.get(oid)
            if o is None:
                continue
            if o.kind in ("cvxvar", "cvxparam"):
                c = o.content
                v = Val(shape=o.shape, unit=o.unit, frame=o.frame, fresh="FRESH",
                        term=("value", o.kind, oid), tags={"kind": "ndarray", "value_of": oid})
                if c is not None:
                    v.data, v.shp, v.ctrl = c.data, c.shp, c.ctrl
                # a numeric snapshot: not a leaf of later problems; remembered as a solution origin
                v.data = v.data | {f"{'sol' if o.kind == 'cvxvar' else 'par'}#{oid}"}
                if o.kind == "cvxvar":
                    v.tags["solution_of"] = tuple(sorted(o.attrs.get("solved_by", ())))
                    v.sign = "NONNEG" if (o.attrs.get("pos") or o.attrs.get("nonneg")) else None
                vals.append(v)
            elif o.kind == "cvxproblem":
                from .ext_models import problem_closure
                d, s, c = problem_closure(I, o)
                vals.append(Val(data=d, shp=s, ctrl=c, tags={"problem_value": oid}, shape=S(),
                                term=("value", "problem", oid)))
        if vals:
            I.emit("value_load", e, base=b)
            return join_all(vals)
    if attr in ARRAY_METHODS and not b.tag("kind") in ("dict", "list", "self"):
        return Val(data=f.data, shp=f.shp, ctrl=f.ctrl, refs=f.refs, tags={"bound_array_method": attr, "recv": b},
                   term=mk_term("boundmethod", attr, b.term))
    if b.tag("kind") == "ureg":
        from .ext_models import UREG_CONSTANTS
        if attr in UREG_CONSTANTS:
            return Val(data={attr}, tags={"kind": "pintq", "deg": {attr: 1}, "notnone": True, "physical_constant": attr},
                       term=("constant", attr), fresh="FRESH", shape=S())
        return Val(tags={"ureg_attr": attr}, term=("ureg", attr))
    if attr in ("magnitude", "m"):
        if b.tag("kind") == "pintq" and not b.tag("pint_converted") and not b.tag("physical_constant"):
            I.emit("raw_magnitude", e, of=b)          # the number of a quantity in WHATEVER unit it happens to be expressed in
        return b.copy(term=mk_term("magnitude", b.term))
    if attr in ("units", "dtype", "flags"):
        return Val(shp=f.data | f.shp, ctrl=f.ctrl, term=mk_term(attr, b.term), tags={"dtype_of": True} if attr == "dtype" else {})
    out = Val(data=f.data, shp=f.shp, ctrl=f.ctrl, refs=f.refs, term=mk_term("attr", attr, b.term),
              tags={"attr_of": (attr, b)})
    if b.tag("kind") == "pca":
        if attr == "explained_variance_ratio_":
            out.unit = ONE
        elif attr in ("explained_variance_", "singular_values_"):
            out.unit = {"var[data]": 1}          # scales with the square of the data: a dimensioned quantity
    if b.tag("kind") in ("hull", "delaunay") and attr in ("vertices", "simplices", "equations", "volume", "points"):
        out.tags["hull_attr"] = attr
        out.unit = None
    if b.tag("kind") in ("hull", "delaunay") and attr == "area":
        I.emit("hull_area", e, of=b)          # the (k−1)-dimensional SURFACE measure of the hull (perimeter of a polygon), not its content
    return out


def norm_text_safe(node):
    try:
        return M.norm_text(node)
    except Exception:
        return "?"


# ------------------------------------------------------------------ subscript
def _index_elems(node):
    """index elements with `np.newaxis` normalised to the literal None it is"""
    sl = node.slice
    els = list(sl.elts) if isinstance(sl, ast.Tuple) else [sl]
    out = []
    for x in els:
        if isinstance(x, ast.Attribute) and x.attr == "newaxis" and isinstance(x.value, ast.Name) and x.value.id in ("np", "numpy"):
            out.append(ast.copy_location(ast.Constant(value=None), x))
        else:
            out.append(x)
    return out


def subscript(I, e, b):
    idx = I.ev(e.slice)
    # field-sensitive containers
    ci = const_int(idx)
    if b.items is not None and ci is not None:
        if -len(b.items) <= ci < len(b.items):
            return b.items[ci]
    if b.items is not None and idx.tag("kind") == "slice" and b.tag("kind") in ("tuple", "list"):
        parts = idx.tag("parts") or [None, None, None]
        cs = [None if p_ is None else const_int(p_) for p_ in parts]
        if all(p_ is None or c_ is not None for p_, c_ in zip(parts, cs)):
            out = b.copy(term=mk_term("slice", b.term))
            out.items = list(b.items[slice(*cs)])
            out.tags.pop("shape_of", None)
            return out
    if b.tag("shape_of") is not None and ci is not None:
        s = b.tag("shape_of")
        d = None
        if ci < 0 and -ci <= len(s.axes):
            d = s.axes[ci]
        elif ci >= 0 and not s.ell and ci < len(s.axes):
            d = s.axes[ci]
        return Val(shp=b.shp | b.data, ctrl=b.ctrl, tags={"dim": d, "kind": "int"}, unit=ONE, shape=S(),
                   term=mk_term("dim", b.term, ci))
    if b.tag("kind") == "dict" or b.tag("kw") is not None:
        kw = b.tag("kw")
        if kw is not None and idx.known and idx.const in kw:
            return kw[idx.const]
        return mk([b, idx], term=mk_term("getitem", b.term, idx.term))
    if b.tag("kind") in ("list", "tuple", "set"):
        el = b.tag("elem")
        if idx.tag("kind") == "slice":
            return b.copy(term=mk_term("slice", b.term), items=None)
        if el is not None:
            return el
        return mk([b, idx], term=mk_term("getitem", b.term, idx.term))
    if b.tag("bound_array_method"):
        I.emit("method_as_value", e, method=b.tag("bound_array_method"), recv=b.tag("recv"), how="subscript")
        return mk([b, idx])
    out = mk([b, idx], term=mk_term("getitem", b.term, idx.term))
    out.unit, out.frame, out.sign = b.unit, b.frame, b.sign
    if idx.tag("hull_attr") in ("simplices", "vertices"):
        hv = idx.tag("attr_of")[1]
        pts = hv.tag("points")
        if pts is not None and pts.term is not None and b.term is not None and pts.term != b.term:
            I.type_error(e, "INDEX", f"`{idx.tag('hull_attr')}` of a triangulation/hull of one point set index a different array: "
                                     f"the indices refer to the rows of the array qhull was given", sub="index")
        else:
            I.emit("typed_op", e, op="hull-index", unit={"idx": 1})
        out.tags["rowsof"] = b
        if idx.tag("hull_attr") == "simplices":
            out.tags["simplices_of"] = b
    for k in ("deg", "litfactor", "kind", "bary", "simplex_rows", "offset_id", "hull_pts", "rowsof", "maybe_zero_rows", "unit_cube",
              "simplices_of", "poly", "floating", "suffix_slice", "point", "rounded", "pow2_range", "desc_range", "finite"):
        if b.tag(k) is not None:
            out.tags[k] = b.tag(k)
    if out.tags.get("finite") is False:
        out.tags.pop("finite")         # a selection of a not-all-finite array may well be all finite
    sl_ = e.slice if isinstance(e, ast.Subscript) else None
    if b.tag("asc_range") is not None and isinstance(sl_, ast.Slice) and sl_.lower is None and sl_.upper is None \
            and isinstance(sl_.step, ast.UnaryOp) and isinstance(sl_.step.op, ast.USub) and isinstance(sl_.step.operand, ast.Constant) \
            and sl_.step.operand.value == 1:
        out.tags["desc_range"] = b.tag("asc_range")            # np.arange(n)[::-1]: n-1, …, 0
        out.shape = b.shape
    if b.tag("truncated_basis") or (b.tag("basis_factor") and any(isinstance(x, ast.Slice) and (x.upper is not None or x.lower is not None)
                                                                   for x in _index_elems(e))):
        out.tags["truncated_basis"] = True        # a proper subset of the orthogonal directions
    if b.tag("point") and not b.tag("sorted") and ci is not None and b.tag("kind") == "ndarray" and (
            b.shape is None or b.shape.rank == 1):
        # the k-th stored sample of a coordinate array: its value depends on the ORDER in which the samples are stored
        out.data = out.data | {f"pick@{I.fr.fn.module.relpath}:{e.lineno}"}
        out.tags.pop("point", None)
        I.emit("positional_pick", e, base=b, index=ci)
    if (idx.tag("cmp") is not None or idx.tag("row_mask") is not None or idx.tag("allany") is not None) and b.tag("kind") == "ndarray":
        I.emit("row_filter", e, base=b, idx=idx)
    if idx.tag("argsort_of") is not None:
        out.tags["reordered_by"] = idx.term           # x[np.argsort(d)]: reordered with the permutation that sorts d
        if idx.tag("argsort_of") == b.term and b.term is not None:
            out.tags["sorted"] = True                 # d[np.argsort(d)] is ascending
            out.tags["sorted_by"] = idx.term
    if idx.tag("drawn_indices") or b.tag("rows_drawn"):
        out.tags["rows_drawn"] = True            # rows selected / permuted by a random draw
    if b.tag("sum_dim") is not None and ci is not None:
        out.tags["sum_dim"] = b.tag("sum_dim")        # one row of a multinomial draw
    if idx.tag("zero_row_mask_of") is not None and idx.tag("zero_row_mask_inverted"):
        out.tags.pop("maybe_zero_rows", None)        # only rows with a non-zero entry are selected
    elems = _index_elems(e)
    el0 = elems[0] if elems else None
    if isinstance(el0, ast.Slice) and el0.upper is None and el0.lower is not None and not (
            isinstance(el0.lower, ast.Constant) and el0.lower.value in (0, None)):
        # x[-k:] / x[a - b:] / x[k:]: the rows from some offset to the END of the leading axis
        out.tags["suffix_slice"] = (b.shape.axes[0] if (b.shape is not None and not b.shape.ell and b.shape.axes) else None) or "?"
    if isinstance(el0, ast.Slice) and el0.lower is None and el0.upper is not None and el0.step is None:
        out.tags["prefix_slice"] = b.term if b.term is not None else True       # x[:k]: the leading rows
    if b.tag("corner_cloud"):
        if isinstance(el0, ast.Slice) and (el0.lower is not None or el0.upper is not None):
            out.tags["corner_cloud"] = True
            out.tags["positional_subset"] = norm_text_safe(e)
        elif idx.tag("zero_row_mask_of") is not None or (idx.tag("cmp") is not None and idx.tag("boolarr") is None and False):
            out.tags["corner_cloud"] = True
        elif isinstance(el0, ast.Slice):
            out.tags["corner_cloud"] = True
        elif idx.tag("boolarr") or idx.tag("allany") or idx.tag("kind") == "ndarray":
            out.tags["corner_cloud"] = True          # value-dependent row selection (e.g. rows with non-zero total)
        if b.tag("positional_subset"):
            out.tags["positional_subset"] = b.tag("positional_subset")
        rm = idx.tag("row_mask")
        if rm is not None and rm[0] in ("rows_without_zero", "rows_with_a_zero") and rm[1] == b.term:
            out.tags["coordinate_zero_subset"] = norm_text_safe(e)
        if b.tag("coordinate_zero_subset"):
            out.tags["coordinate_zero_subset"] = b.tag("coordinate_zero_subset")
    if ci is not None and b.shape is not None and not b.shape.ell and b.shape.axes and b.shape.axes[0] == ("N",) \
            and not I.fr.loops:
        I.emit("const_row_pick", e, base=b, index=ci)
    if b.shape is not None and b.tag("kind") == "ndarray":
        for el, ax in _elem_axes(b.shape, _index_elems(e)):
            if ax is None or ax == ():
                continue
            if isinstance(el, ast.Slice):
                if el.lower is None and el.upper is None and el.step is None:
                    continue
                how = "slice"
            elif isinstance(el, ast.Constant) or (isinstance(el, ast.UnaryOp) and isinstance(el.operand, ast.Constant)):
                continue
            else:
                v = I.ev(el)
                if v.tag("kind") in ("int", "slice") or const_int(v) is not None:
                    continue
                how = "mask" if (v.tag("boolarr") or v.tag("cmp") is not None or v.tag("allany") is not None) else "index array"
            I.emit("axis_subset", e, base=b, axis=ax, how=how)
    elems = _index_elems(e)
    basic = True
    shape = b.shape
    new_axes = None
    if shape is not None:
        new_axes = _index_shape(I, e, shape, elems, b)
        if new_axes == "fancy":
            basic = False
            new_axes = None
        elif new_axes == "fancy1d":
            basic = False
            new_axes = Shape((None,) + tuple(shape.axes[1:])) if (not shape.ell and shape.axes) else None
        elif isinstance(new_axes, tuple) and new_axes and new_axes[0] == "fancyshape":
            basic = False
            new_axes = new_axes[1]
    else:
        for el in elems:
            if not _basic_index(I, el):
                basic = False
    out.shape = new_axes if isinstance(new_axes, Shape) else None
    if is_cvx(b):
        out.tags.update(cvx="expr", atom=("index", [b]), leaves=b.tag("leaves"), index_const=ci, index_val=idx)
        out.fresh = None
    else:
        out.fresh = b.fresh if basic else "FRESH"
        if not basic:
            out.tags["fancy_index"] = True
    if b.tag("ndim") is not None and shape is None:
        # rank bookkeeping for None insertions when the shape itself is unknown
        nd = b.tag("ndim")
        for el in elems:
            if isinstance(el, ast.Constant) and el.value is None:
                nd += 1
            elif not isinstance(el, (ast.Slice,)) and not (isinstance(el, ast.Constant) and el.value is Ellipsis):
                nd = None
                break
        if nd is not None:
            out.tags["ndim"] = nd
    return out


def _elem_axes(shape, elems):
    """[(index element, name of the axis it applies to or None)] — only where the position is certain"""
    def _new(el):
        return (isinstance(el, ast.Constant) and el.value is None) or (isinstance(el, ast.Attribute) and el.attr == "newaxis")
    def _ell(el):
        return isinstance(el, ast.Constant) and el.value is Ellipsis
    axes = list(shape.axes)
    k = next((i for i, el in enumerate(elems) if _ell(el)), None)
    out = []
    left = elems if k is None else elems[:k]
    right = [] if k is None else elems[k + 1:]
    if not shape.ell:
        pos = 0
        for el in left:
            if _new(el):
                continue
            out.append((el, axes[pos] if pos < len(axes) else None))
            pos += 1
    pos = len(axes)
    for el in reversed(right):
        if _new(el):
            continue
        pos -= 1
        out.append((el, axes[pos] if pos >= 0 else None))
    return out


def _basic_index(I, el):
    if isinstance(el, ast.Slice):
        return True
    if isinstance(el, ast.Constant) and (el.value is None or el.value is Ellipsis or isinstance(el.value, int)):
        return True
    if isinstance(el, ast.UnaryOp) and isinstance(el.operand, ast.Constant):
        return True
    v = I.ev(el)
    if v.tag("kind") == "int" or const_int(v) is not None or v.tag("kind") == "slice":
        return True
    if v.items is not None and all(i.tag("kind") == "slice" or i.known for i in v.items):
        return True
    return False


def _index_shape(I, e, shape, elems, b):
    """Resulting Shape, None (unknown) or 'fancy'."""
    def _new(el):
        return (isinstance(el, ast.Constant) and el.value is None) or (isinstance(el, ast.Attribute) and el.attr == "newaxis")
    n_real = sum(1 for el in elems if not (_new(el) or (isinstance(el, ast.Constant) and el.value is Ellipsis)))
    has_ell = any(isinstance(el, ast.Constant) and el.value is Ellipsis for el in elems)
    axes = list(shape.axes)
    if shape.ell and not has_ell:
        # indexing from the left of an unknown-rank array
        if all(isinstance(el, ast.Slice) and el.lower is None and el.upper is None for el in elems):
            return shape
        return None
    if has_ell:
        k = [i for i, el in enumerate(elems) if isinstance(el, ast.Constant) and el.value is Ellipsis][0]
        left, right = elems[:k], elems[k + 1:]
        n_right = sum(1 for el in right if not (isinstance(el, ast.Constant) and el.value is None))
        if n_right > len(axes):
            return None
        if left:
            if shape.ell:
                return None
        mid_count = len(axes) - n_right - sum(1 for el in left if not (isinstance(el, ast.Constant) and el.value is None))
        if mid_count < 0:
            return None
        res = []
        pos = 0
        fancy = False
        for el in left:
            r = _apply_index(I, el, axes, pos)
            if r == "fancy":
                return "fancy"
            if r == "new":
                res.append(())
            elif r == "drop":
                pos += 1
            else:
                res.append(r)
                pos += 1
        res.extend(axes[pos:pos + mid_count])
        pos += mid_count
        for el in right:
            r = _apply_index(I, el, axes, pos)
            if r == "fancy":
                return "fancy"
            if r == "new":
                res.append(())
            elif r == "drop":
                pos += 1
            else:
                res.append(r)
                pos += 1
        return Shape(res, shape.ell)
    if n_real > len(axes):
        if not shape.ell and b.tag("kind") == "ndarray" and all(
                isinstance(el, (ast.Slice, ast.Constant)) or _new(el) for el in elems):      # only plainly positional indices are counted
            I.type_error(e, "SHAPE", f"{n_real} indices for an array of rank {len(axes)} {shape}: IndexError (too many indices)", sub="index-rank")
        return None
    res = []
    pos = 0
    nfancy = 0
    for el in elems:
        r = _apply_index(I, el, axes, pos)
        if r == "fancy":
            # an index array / mask on one axis: that axis becomes unknown, the rest is kept when the
            # index is known to be one-dimensional
            v = I.ev(el)
            one_d = (v.tag("ndim") == 1 or (v.shape is not None and v.shape.rank == 1)
                     or v.tag("kind") in ("list", "tuple", "range"))
            if len(elems) == 1 and one_d:
                return "fancy1d"
            if one_d and nfancy == 0 and pos < len(axes):
                nfancy += 1
                res.append(None)
                pos += 1
                continue
            return "fancy"
        if r == "new":
            res.append(())
        elif r == "drop":
            pos += 1
        else:
            res.append(r)
            pos += 1
    res.extend(axes[pos:])
    if nfancy:
        return ("fancyshape", Shape(res, shape.ell))
    return Shape(res, shape.ell)


def _apply_index(I, el, axes, pos):
    if isinstance(el, ast.Constant) and el.value is None:
        return "new"
    if isinstance(el, ast.Slice):
        if pos >= len(axes):
            return None
        if el.lower is None and el.upper is None and el.step is None:
            return axes[pos]
        return None            # a proper sub-range: extent unknown
    if isinstance(el, ast.Constant) and isinstance(el.value, int):
        return "drop"
    if isinstance(el, ast.UnaryOp) and isinstance(el.op, ast.USub) and isinstance(el.operand, ast.Constant):
        return "drop"
    v = I.ev(el)
    if v.tag("kind") == "int" or const_int(v) is not None:
        return "drop"
    return "fancy"




# ------------------------------------------------------------------ builtins
def decide_isinstance(v, tname):
    """True/False/None for isinstance(v, <type text>)."""
    names = [t.strip() for t in tname.strip("()").split(",")] if tname.startswith("(") else [tname]
    res = []
    for t in names:
        res.append(_isinst1(v, t))
    if any(r is True for r in res):
        return True
    if all(r is False for r in res):
        return False
    return None


def _isinst1(v, t):
    t = t.split(".")[-1]
    c = v.const
    if v.known:
        if t == "Number":
            return isinstance(c, (int, float)) and not isinstance(c, bool) or isinstance(c, bool)
        if t == "str":
            return isinstance(c, str)
        if t == "int":
            return isinstance(c, int)
        if t == "float":
            return isinstance(c, float)
        if t == "tuple":
            return isinstance(c, tuple)
        if c is None or isinstance(c, (str, bool, int, float)):
            return False
        return None
    if t == "Number":
        if v.tag("isnum") is not None:
            return v.tag("isnum")
        if v.tag("kind") in ("ndarray", "tuple", "list", "dict", "generator") or v.items is not None:
            return False
        if v.tag("ndim") is not None:
            return False if v.tag("ndim") >= 1 else None
        return None
    if t == "int":
        if v.tag("np_scalar"):
            return False            # numpy integers (np.int64 from np.arange / rng.integers) are not instances of `int`
        if v.tag("kind") == "int" and v.tag("np_scalar") is False:
            return True
        if v.tag("kind") in ("ndarray", "tuple", "list", "dict", "rng") or v.tag("isstr") or v.items is not None:
            return False
        return None
    if t == "str":
        if v.tag("isstr"):
            return True
        if v.tag("notstr") or v.tag("kind") in ("ndarray", "tuple", "list", "dict", "int") or v.tag("isnum") \
                or v.tag("ndim") is not None or v.items is not None:
            return False
        return None
    if t == "tuple":
        if v.items is not None and v.tag("kind") == "tuple":
            return True
        if v.tag("kind") in ("ndarray", "list", "dict", "int") or v.tag("isnum") or v.tag("isstr") \
                or v.tag("ndim") is not None:
            return False
        return None
    if t == "ndarray":
        if v.tag("kind") == "ndarray" or (v.tag("ndim") is not None and v.tag("ndim") >= 1):
            return True
        if v.tag("isnum") or v.tag("isstr") or v.items is not None:
            return False
        return None
    if t == "generic":
        if v.tag("np_scalar"):
            return True
        if v.tag("kind") == "ndarray" or v.tag("isstr") or v.items is not None or (v.tag("isnum") and v.tag("np_scalar") is False):
            return False
        return None
    if v.tag("isinstance") == t:
        return True
    if v.tag("kind") == {"Delaunay": "delaunay", "Generator": "rng", "QMCEngine": "qmc"}.get(t, "\0"):
        return True
    if t in ("Delaunay", "Generator", "QMCEngine", "ufunc"):
        if v.tag("kind") in ("ndarray", "int", "tuple", "list") or v.tag("isnum") or v.tag("isstr") \
                or v.tag("ndim") is not None or v.shape is not None:
            return False
    return None


def call_builtin(I, e, name, args, kws):
    a0 = args[0] if args else None
    if name == "isinstance" and len(args) == 2:
        tname = M.norm_text(e.args[1])
        r = decide_isinstance(args[0], tname)
        f = args[0].flat()
        out = Val(shp=f.data | f.shp, ctrl=f.ctrl, term=mk_term("isinstance", args[0].term, tname),
                  tags={"kind": "bool", "isinstance_test": (args[0], tname)})
        # the *type* of an input is not its value: type tests are SHAPE-like (structural) dependences
        if r is not None:
            out.const = r
        return out
    if name == "callable":
        out = mk([a0], tags={"kind": "bool"})
        if a0.known:
            out.const = False
        elif a0.tag("callable") is not None:
            out.const = a0.tag("callable")
        elif a0.tag("isstr") or a0.tag("isnum") or a0.tag("kind") in ("ndarray",):
            out.const = False
        return out
    if name == "len":
        f = a0.flat()
        out = Val(shp=f.data | f.shp, ctrl=f.ctrl, tags={"kind": "int"}, unit=ONE, shape=S(),
                  term=mk_term("len", a0.term))
        if a0.items is not None and a0.tag("kind") in ("tuple", "list"):
            out.const = len(a0.items)
        elif a0.shape is not None and not a0.shape.ell and a0.shape.axes:
            out.tags["dim"] = a0.shape.axes[0]
        elif a0.tag("shape_of") is not None and not a0.tag("shape_of").ell:
            out.const = len(a0.tag("shape_of").axes)
        return out
    if name == "range":
        out = mk(args, tags={"kind": "range"}, term=mk_term("range", *[a.term for a in args]))
        out.shp = out.shp | out.data
        out.data = E
        elem = Val(shp=out.shp, ctrl=out.ctrl, tags={"kind": "int"}, unit=ONE, shape=S(), term=("rangeelem",))
        out.tags["iter_elem"] = elem
        c = const_int(args[-1] if len(args) <= 2 else args[1])
        out.tags["nonempty"] = bool(c is not None and c > 0 and len(args) == 1)
        out.tags["range_args"] = args
        return out
    if name == "enumerate":
        inner = I.iter_elem(a0, e.args[0])
        idx = Val(shp=a0.flat().shp | a0.flat().data, tags={"kind": "int"}, unit=ONE, shape=S(), term=("enumidx",))
        out = mk([a0], tags={"kind": "enumerate", "iter_elem": Val(items=[idx, inner], tags={"kind": "tuple"}),
                             "nonempty": _nonempty(a0)})
        return out
    if name == "zip":
        # zip(it, it) over ONE one-shot iterator pairs items (0,1), (2,3), … and drops an unpaired last one — not neighbours, not all pairs
        for i_ in range(len(args)):
            for j_ in range(i_ + 1, len(args)):
                if args[i_] is args[j_] and (args[i_].tag("oneshot") or args[i_].tag("kind") in ("zip", "map", "enumerate", "generator")):
                    I.emit("iterator_reuse", e, kind="iter() object zipped with itself", made_in=(), loops=())
        elems = [I.iter_elem(a, None) for a in args]
        starred = [a for a in args if a.tag("starred")]
        out = mk(args, tags={"kind": "zip", "nonempty": all(_nonempty(a) for a in args)})
        if starred and len(args) == 1:
            # zip(*iter_arrays): a tuple with one element per array
            src = args[0]
            if src.items is not None:
                elems = [I.iter_elem(a, None) for a in src.items]
                out.tags["iter_elem"] = Val(items=elems, tags={"kind": "tuple"})
            else:
                el = src.tag("elem")
                out.tags["iter_elem"] = Val(tags={"kind": "tuple", "elem": I.iter_elem(el, None) if el is not None else Val()},
                                            data=src.flat().data, shp=src.flat().shp, ctrl=src.flat().ctrl)
            out.tags["nonempty"] = True
        else:
            out.tags["iter_elem"] = Val(items=elems, tags={"kind": "tuple"})
            lens = [len(a.items) for a in args if a.items is not None and a.tag("kind") in ("tuple", "list")]
            if lens and len(set(lens)) == 1 and all(a.items is not None or a.tag("elem") is not None for a in args):
                n = lens[0]
                out.tags["zip_items"] = [Val(items=[(a.items[i] if a.items is not None else a.tag("elem")) for a in args],
                                             tags={"kind": "tuple"}) for i in range(n)]
        return out
    if name in ("list", "tuple", "sorted", "reversed", "iter"):
        if not args:
            obj = I.new_obj("list", e)
            return Val(refs={obj.id}, tags={"kind": "list", "elem": None, "n_items": 0}, items=[] if name == "tuple" else None)
        if a0.items is not None:
            return Val(items=list(a0.items), tags={"kind": "tuple" if name == "tuple" else "list", **({"oneshot": True} if name == "iter" else {}),
                                                   "elem": join_all(a0.items) if a0.items else None},
                       data=a0.flat().data, shp=a0.flat().shp, ctrl=a0.flat().ctrl, refs=a0.flat().refs,
                       term=mk_term(name, a0.term))
        el = I.iter_elem(a0, None)
        out = mk([a0], tags={"kind": "list", "elem": el, "nonempty": _nonempty(a0), "listof": a0},
                 term=mk_term(name, a0.term))
        if name == "iter":
            out.tags["oneshot"] = True
        return out
    if name == "dict":
        obj = I.new_obj("dict", e)
        kw = {k: v for k, v in kws.items() if k != "**"}
        out = mk(list(kws.values()) + args, refs=frozenset({obj.id}), tags={"kind": "dict", "kw": kw})
        if "**" in kws:
            out.tags["kw_rest"] = kws["**"]
        for v in kws.values():
            obj.store(v)
        if args and args[0].tag("kw") is not None:
            kw2 = dict(args[0].tag("kw"))
            kw2.update(kw)
            out.tags["kw"] = kw2
        elif args and args[0].tag("zip_items") is not None and all(
                zi.items is not None and len(zi.items) == 2 and zi.items[0].known and isinstance(zi.items[0].const, str) for zi in args[0].tag("zip_items")):
            # dict(zip(("lb", "ub"), values)): a table with literal keys
            kw2 = {zi.items[0].const: zi.items[1] for zi in args[0].tag("zip_items")}
            kw2.update(kw)
            out.tags["kw"] = kw2
            for zi in args[0].tag("zip_items"):
                obj.store(zi.items[1])
        return out
    if name == "setattr" and len(args) == 3:
        tgt, nm, val = args
        if tgt.tag("kind") == "self":
            if nm.known and isinstance(nm.const, str):
                I.emit("self_store", e, attr=nm.const, val=val)
                if val.tag("kind") in ("dict", "list", "set"):
                    val.tags["self_container"] = nm.const
                I.ctx.selfenv[nm.const] = val.with_ctrl(I.fr.ctrl[-1])
            else:
                I.emit("self_store", e, attr="?", val=val)       # setattr(self, <computed name>, …): some field is written
        return const(None)
    if name == "set":
        return mk(args, tags={"kind": "set", "elem": I.iter_elem(a0, None) if a0 is not None else None})
    if name in ("int", "float", "bool", "round", "abs"):
        out = mk(args, term=mk_term(name, *[a.term for a in args]))
        if a0 is not None:
            out.unit = a0.unit if name in ("float", "abs", "round") else ONE
            out.shape = S() if name != "abs" else a0.shape
            if name == "abs":
                out.sign = "NONNEG"
            if name == "round" and len(args) == 1:
                out.tags["rounded"] = "nearest"
            if name == "int":
                out.tags["kind"] = "int"
                if not (a0.tag("kind") == "int" and a0.tag("dim") is None and a0.data and not a0.tag("floating")):
                    # counts computed from sizes are structural; int(<an integer argument such as a seed>) stays that argument
                    out.shp = out.shp | out.data
                    out.data = E
                else:
                    for k_ in ("np_scalar", "isnum", "notnone", "notstr"):
                        if a0.tag(k_) is not None and k_ != "np_scalar":
                            out.tags[k_] = a0.tag(k_)
                    out.tags["np_scalar"] = False          # int(np.int64(5)) is a Python int
                how = a0.tag("rounded")
                if how is None and a0.tag("floating"):
                    how = "nearest" if a0.tag("plus_half") else "trunc"      # int(x) truncates; int(x + 0.5) rounds half up (x ≥ 0)
                I.emit("int_cast", e, arg=a0, how=how)
                if how is not None:
                    out.tags["count_how"] = how
            if a0.known and _is_lit(a0):
                try:
                    out.const = {"int": int, "float": float, "bool": bool, "round": round, "abs": abs}[name](a0.const)
                except Exception:
                    pass
        return out
    if name in ("min", "max", "sum"):
        if len(args) >= 2 and name != "sum":
            out = mk(args, term=mk_term(name, *[a.term for a in args]))
            us = [a.unit for a in args]
            out.unit = us[0] if all(u == us[0] for u in us) else None
            dimd = [a for a in args if isinstance(a.unit, dict) and a.unit]
            lits = [a for a in args if a.known and isinstance(a.const, (int, float)) and not isinstance(a.const, bool) and a.const != 0]
            if dimd and lits:
                # max(total, 1e-12): a floor / ceiling expressed as a bare number on a quantity that carries a unit
                I.type_error(e, "QTY", f"{name}() of [{ustr(dimd[0].unit)}] and the dimensionless literal {lits[0].const}", sub="literal")
            if all(a.known and _is_lit(a) for a in args):
                out.const = (min if name == "min" else max)(a.const for a in args)
            if all(a.tag("kind") == "int" or (a.known and isinstance(a.const, int)) for a in args):
                out.tags["kind"] = "int"             # sizes: structural, not data
                out.shp = out.shp | out.data
                out.data = E
                syms = set()
                for a in args:
                    syms |= set(a.tag("dim_syms") or ())
                    d_ = a.tag("dim")
                    if isinstance(d_, tuple):
                        syms |= set(d_)
                if syms:
                    out.tags["dim_syms"] = frozenset(syms)      # the extents this size is bounded by (min) / computed from
                    out.tags["bounded_by"] = name
            sg = [eff_sign(a) for a in args]
            if all(x_ == "POS" for x_ in sg) or (name == "max" and "POS" in sg):
                out.sign = "POS"
                out.tags["isnum"] = True
            return out
        out = mk(args, term=mk_term(name, a0.term))
        out.unit, out.frame = a0.unit, a0.frame
        return out
    if name in ("all", "any"):
        out = mk(args, tags={"kind": "bool"})
        return out
    if name == "hasattr":
        out = mk(args[:1], tags={"kind": "bool", "hasattr": (args[0], args[1].const if args[1].known else None)})
        out.shp |= out.data
        out.data = E
        return out
    if name == "getattr":
        if len(args) >= 2 and args[1].known and args[1].const in ("magnitude", "m") and args[0].tag("kind") == "pintq":
            if not args[0].tag("pint_converted"):
                I.emit("raw_magnitude", e, of=args[0])
            return args[0].copy(term=mk_term("magnitude", args[0].term))
        if len(args) >= 2 and args[1].known and isinstance(args[1].const, str) and args[0].tag("kind") == "self" and isinstance(e, ast.Call):
            fake = ast.Attribute(value=e.args[0], attr=args[1].const, ctx=ast.Load())
            ast.copy_location(fake, e)
            v = I.load_self(fake)
            if len(args) > 2 and v.tag("undeclared_field"):
                from .values import join as _join
                v = _join(v, args[2])          # getattr(self, name, default): the default when the attribute is not set
                v.tags["self_container"] = args[1].const
            return v
        if len(args) >= 2 and args[1].known and args[1].const == "dtype":
            f = args[0].flat()
            return Val(shp=f.data | f.shp, ctrl=f.ctrl, term=mk_term("dtype", args[0].term), tags={"dtype_of": True})
        return mk(args)
    if name == "print":
        return const(None)
    if name == "type":
        f = a0.flat()
        return Val(shp=f.data | f.shp, ctrl=f.ctrl, tags={"typeof": a0}, term=mk_term("type", a0.term))
    if name == "str" or name == "repr":
        return mk(args, tags={"kind": "str", "isstr": True})
    if name == "slice":
        return mk(args, tags={"kind": "slice"})
    if name == "exec":
        I.emit("exec_call", e)
        return Val()
    if name in ("map", "filter"):
        return mk(args)
    I.ctx.note(f"builtin {name} treated as opaque")
    return I.opaque_call(e, args, kws)


def _nonempty(v):
    if v is None:
        return False
    t = v.tag("nonempty")
    if t is not None:
        return bool(t)
    if v.tag("kind") in ("range",):
        return False
    return True      # arrays / tuples of samples: at least one row (stated assumption)


# ------------------------------------------------------------------ methods
def _rebind(I, recv_node, v):
    if isinstance(recv_node, ast.Name):
        I.fr.env[recv_node.id] = v
    elif isinstance(recv_node, ast.Attribute) and isinstance(recv_node.value, ast.Name) and recv_node.value.id == "self":
        I.ctx.selfenv[recv_node.attr] = v


def call_method(I, e, base, attr, args, kws):
    from . import ext_models as X
    recv_node = e.func.value
    kind = base.tag("kind")
    heap = I.ctx.trace.heap

    if base.tag("self_dict") and attr in ("setdefault", "update", "pop", "clear", "__setitem__"):
        key = args[0].const if (args and args[0].known and isinstance(args[0].const, str)) else "__dict__[…]"
        I.emit("self_store", e, attr=key, val=(args[1] if len(args) > 1 else Val()))
        out = mk([base] + args, tags={"kind": "dict", "self_dict_member": key, "notnone": True})
        return out
    if base.tag("self_dict_member") and attr in ("setdefault", "update", "pop", "clear", "__setitem__", "append", "add"):
        I.emit("self_store", e, attr=base.tag("self_dict_member"), val=(args[-1] if args else Val()))
    # --- python containers
    if base.tag("module_const") and attr in ("append", "extend", "insert", "update", "pop", "clear", "setdefault", "add",
                                              "remove", "sort", "popitem"):
        I.emit("global_mutation", e, name=base.tag("module_const"), how="." + attr)
    if kind == "list" and attr in ("append", "extend", "insert"):
        new = args[-1] if args else Val()
        items = [new] if attr != "extend" else (new.items if new.items is not None else [I.iter_elem(new, None)])
        nb = base.copy()
        el = base.tag("elem")
        for it in items:
            el = it if el is None else join(el, it)
        nb.tags = dict(base.tags, elem=el)
        nb.items = (list(base.items) + list(items)) if (base.items is not None and (attr != "extend" or new.items is not None)) else None
        for it in items:
            f = it.flat()
            nb.data |= f.data
            nb.shp |= f.shp
            nb.ctrl |= f.ctrl | I.fr.ctrl[-1]
            nb.refs |= f.refs
            # the container's OWN heap object receives the item — not the list objects that merely belong to earlier items
            own = base.tag("own_obj")
            for oid in ([own] if own is not None and own in heap else base.refs):
                o = heap.get(oid)
                if o is not None and o.kind == "list":
                    o.store(it.with_ctrl(I.fr.ctrl[-1]))
        I.emit("list_mutate", e, target=base, items=items, tnode=recv_node)
        _rebind(I, recv_node, nb)
        return const(None)
    if kind == "dict" or base.tag("kw") is not None:
        if attr == "get":
            kw = base.tag("kw")
            if kw is not None and args and args[0].known:
                if args[0].const in kw:
                    return kw[args[0].const]
                if base.tag("kw_rest") is None and not base.tag("opaque_rest"):
                    return args[1] if len(args) > 1 else const(None)
            return mk([base] + args)
        if attr in ("update",):
            nb = base.copy()
            kw = dict(base.tag("kw") or {})
            okw = args[0].tag("kw") if args else None
            if okw is not None and base.tag("kw") is not None:
                kw.update(okw)
                nb.tags["kw"] = kw
            else:
                nb.tags.pop("kw", None)
            for a in args:
                f = a.flat()
                nb.data |= f.data
                nb.shp |= f.shp
                nb.ctrl |= f.ctrl
                nb.refs |= f.refs
            I.emit("dict_store", e, target=base, key=None, val=args[0] if args else Val(), tnode=recv_node)
            _rebind(I, recv_node, nb)
            return const(None)
        if attr == "pop":
            I.emit("dict_store", e, target=base, key=args[0] if args else None, val=Val(), tnode=recv_node)
            return mk([base] + args)
        if attr == "copy":
            obj = I.new_obj("dict", e)
            out = base.copy()
            out.refs = frozenset({obj.id})
            return out
        if attr in ("items", "keys", "values"):
            kw = base.tag("kw")
            if kw is not None and 0 < len(kw) <= 6 and not args:
                # a literal table with string keys: the view is the fixed sequence of its entries (loops over it are unrolled)
                if attr == "items":
                    its = [Val(items=[const(k), v], tags={"kind": "tuple"}) for k, v in kw.items()]
                elif attr == "keys":
                    its = [const(k) for k in kw]
                else:
                    its = list(kw.values())
                out = mk([base], tags={"kind": "list", "nonempty": True})
                out.items = its
                return out
            return mk([base])
    if kind == "str" or (base.known and isinstance(base.const, str)) or (attr in ("lower", "upper", "casefold", "swapcase", "title", "capitalize")
                                                                         and not args and base.tag("kind") not in ("ndarray",)):
        out = mk([base] + args, tags={"kind": "str"})
        if attr in ("lower", "upper", "casefold", "swapcase", "title", "capitalize"):
            # case folding is not injective ('M' mega / 'm' milli, 'P' peta / 'p' pico): what follows depends on the text only through it
            out = X.lossy(I, e, out, base, "casefold")
        return out
    # --- cvxpy objects
    if base.refs and any(heap[o].kind == "cvxproblem" for o in base.refs if o in heap) and attr in (
            "solve", "is_dcp", "is_dqcp", "is_dpp"):
        return X.problem_method(I, e, base, attr, args, kws)
    if is_cvx(base):
        return X.cvx_method(I, e, base, attr, args, kws)
    # --- random generators / qmc engines
    if kind in ("rng", "qmc", "qmc_multinomial"):
        return X.rng_method(I, e, base, attr, args, kws)
    # --- scipy / sklearn objects
    if kind in ("delaunay", "hull", "nmf", "pca", "interp", "pintq", "ureg"):
        return X.object_method(I, e, base, attr, args, kws)
    # --- ndarray methods map to numpy functions
    name = {"sum": "numpy.sum", "min": "numpy.min", "max": "numpy.max", "mean": "numpy.mean", "copy": "numpy.copy",
            "ravel": "numpy.ravel", "flatten": "numpy.flatten", "reshape": "numpy.reshape", "all": "numpy.all",
            "any": "numpy.any", "astype": "numpy.astype", "std": "numpy.std", "var": "numpy.var",
            "argmin": "numpy.argmin", "argmax": "numpy.argmax", "dot": "numpy.dot", "cumsum": "numpy.cumsum",
            "transpose": "numpy.transpose", "squeeze": "numpy.squeeze", "tolist": "numpy.tolist",
            "clip": "numpy.clip", "round": "numpy.round", "prod": "numpy.prod", "item": "numpy.item",
            "to": "pint.to", "pop": "numpy.pop"}.get(attr)
    if attr in ("sort", "fill", "resize", "put", "partition", "itemset", "setfield", "byteswap") and kind not in ("list",):
        I.emit("inplace", e, target=base, value=join_all(args) if args else Val(), how="method:" + attr, tnode=recv_node)
        return const(None)
    if name is not None:
        out = call_extern(I, e, name, [base] + args, kws, method=True)
        return out
    I.emit("opaque_method", e, base=base, attr=attr, args=args, kws=kws)
    out = I.opaque_call(e, [base] + args, kws)
    return out


# ------------------------------------------------------------------ extern dispatch
def call_extern(I, e, dotted, args, kws, method=False):
    from . import ext_models as X
    raw = dotted
    dotted = X.canonical(dotted)
    ev = I.emit("ext_call", e, dotted=dotted, raw=raw, args=args, kws=kws, method=method)
    fn = X.MODELS.get(dotted)
    if fn is None:
        I.ctx.note(f"no model for external callable {dotted}")
        ev.d["modelled"] = False
        out = I.opaque_call(e, args, kws)
        out.term = mk_term("ext", dotted, *[a.term for a in args[:3]])
    else:
        ev.d["modelled"] = True
        out = fn(I, e, args, kws)
        if out.term is None or out.term == ("?",):
            out.term = mk_term("ext", dotted, *[a.term for a in args[:4]],
                               *[("kw", k, v.term) for k, v in sorted(kws.items()) if k != "**"][:4])
    if out.tag("kind") in ("combinations", "product") and "created_loops" not in out.tags:
        out.tags["created_loops"] = tuple(I.fr.loops)
    # ufunc(..., out=x): the result is written into x (an in-place update of that array)
    if "out" in kws and isinstance(e, ast.Call) and dotted.startswith("numpy."):
        knode = next((k.value for k in e.keywords if k.arg == "out"), None)
        tgt = kws["out"]
        if knode is not None and not (tgt.known and tgt.const is None):
            I.emit("inplace", e, target=tgt, value=out, how="out=", tnode=knode)
            res = out.copy(fresh=tgt.fresh)
            wh = kws.get("where")
            if wh is not None and not (wh.known and wh.const is True):
                # a masked ufunc writes only where the mask holds: elsewhere the target keeps what it held
                res = join(tgt, out).copy(fresh=tgt.fresh)
                res.tags["masked_write"] = wh
                if dotted in ("numpy.divide", "numpy.true_divide") and len(args) >= 2:
                    md = {o.split("|")[0] for o in wh.flat().data}
                    dd = {o.split("|")[0] for o in args[1].flat().data}
                    if md and dd and md != dd and (dd - md):
                        I.type_error(e, "QTY", f"the `where=` mask of this division is computed from {sorted(md)} but the divisor depends on "
                                               f"{sorted(dd)}: the entries left at their initial value are chosen by a different quantity "
                                               f"({', '.join(sorted(dd - md))} is missing from the test) than the one that is inverted",
                                     sub="mismatch")
            if isinstance(knode, ast.Name):
                I.fr.env[knode.id] = res
                if knode.id in I.fr.param_live and tgt.tag("kind") != "int":
                    I.fr.param_mutated.add(knode.id)
            elif isinstance(knode, ast.Attribute) and isinstance(knode.value, ast.Name) and knode.value.id == "self":
                I.ctx.selfenv[knode.attr] = res
                I.emit("self_store", e, attr=knode.attr, val=res, how="item")
            out = res
    ev.d["result"] = out
    return out
