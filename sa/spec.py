"""Oracle helpers: declared abstract inputs (named axes, formal units, frames) transcribed from the
property statements and the public docstrings — never derived from the code under check."""
from __future__ import annotations
from .values import Val, S, Shape, const, ONE, POLY

# formal units
U_FILTER = {"phi": 1}
U_SIGNAL = {"iota": 1}
U_LAMBDA = {"lam": 1}
U_CAPTURE = {"c": 1}
U_INT = {"s": 1}
U_GAIN = {"c": 1, "s": -1}        # A : capture per unit intensity
U_REL = {"rho": 1}                 # relative capture
U_K = {"rho": 1, "c": -1}          # adaptation K : rho / c
U_W = {"w": 1}                     # weights (formal)
U_RELGAIN = {"rho": 1, "s": -1}


def arr(name, shape=None, unit=None, frame=None, sign=None, ndim=None, origin=None, **tags):
    o = origin or name
    t = {"kind": "ndarray", "notnone": True, "notstr": True}
    if shape is not None and not shape.ell:
        t["ndim"] = len(shape.axes)
    if ndim is not None:
        t["ndim"] = ndim
    t.update(tags)
    v = Val(data={o}, shape=shape, unit=unit, frame=frame, sign=sign, fresh=("ALIAS", frozenset({o})),
            term=("in", o), tags=t)
    v.tags.setdefault("deg", {o: 1})
    v.tags.setdefault("poly", {(o,): 1})
    return v


def num(name, unit=None, sign=None, **tags):
    t = {"isnum": True, "notnone": True, "notstr": True}
    t.update(tags)
    return Val(data={name}, shape=S(), unit=unit, sign=sign, fresh="FRESH", term=("in", name), tags=t)


def intv(name, dim=None, **tags):
    t = {"kind": "int", "notnone": True, "notstr": True, "isnum": True}
    if dim is not None:
        t["dim"] = (dim,) if isinstance(dim, str) else dim
    t.update(tags)
    return Val(data={name}, shape=S(), unit=ONE, fresh="FRESH", term=("in", name), tags=t)


def strv(name, value=None):
    if value is not None:
        v = const(value)
        v.data = frozenset({name})
        return v
    return Val(data={name}, tags={"isstr": True, "notnone": True}, term=("in", name))


def none():
    return const(None)


def flag(name, value):
    v = const(value)
    v.data = frozenset({name})
    return v


def opaque(name, **tags):
    t = {"notnone": True}
    t.update(tags)
    return Val(data={name}, term=("in", name), tags=t)


def rel_axis(K):
    return "Fr" if K == "mat" else "F"


# ---------------------------------------------------------------- the linear-fit signature (C04 … C11, C15)
def lsq_inputs(K="vec", baseline="vec", W="mat", lb="nonneg", ub="finite", bs="sym", rel=True, B_frame="TOTAL",
               nonneg_B=False):
    """Declared types of the arguments of the lsq_* family.
    A:(F,SRC)[c/s] GAIN;  B:(N,F)[rho] TOTAL;  lb,ub:(SRC)[s];  W:(N,F)|(F)[w];  K:(F)|(F,F)[rho/c];
    baseline:(F)[c] BASE.  With K=None the relative unit rho is the capture unit c."""
    urel = U_REL if K is not None else U_CAPTURE
    FR = rel_axis(K)               # a matrix K maps the capture axis F onto the adapted axis Fr
    kw = {}
    kw["A"] = arr("A", S("F", "SRC"), U_GAIN, "GAIN")
    if baseline is None and B_frame == "TOTAL":
        B_frame = "LIGHT"          # without a baseline the total capture *is* the light-induced capture
    kw["B"] = arr("B", S("N", FR), urel, B_frame, sign=("NONNEG" if nonneg_B else None))
    if K == "vec":
        kw["K"] = arr("K", S("F"), U_K)
    elif K == "mat":
        kw["K"] = arr("K", S("Fr", "F"), U_K)
    elif K == "scalar":
        kw["K"] = num("K", U_K, sign="POS")         # a plain number (the functional API accepts it; the estimator stores (1,))
    else:
        kw["K"] = none()
    if baseline == "vec":
        kw["baseline"] = arr("baseline", S("F"), U_CAPTURE, "BASE")
    elif baseline == "scalar":
        # a scalar baseline as the estimator stores it: a one-element array
        kw["baseline"] = arr("baseline", S("1"), U_CAPTURE, "BASE")
    else:
        kw["baseline"] = none()
    if W == "mat":
        kw["W"] = arr("W", S("N", FR), U_W, sign="NONNEG")
    elif W == "vec":
        kw["W"] = arr("W", S(FR), U_W, sign="NONNEG")
    elif W == "inverse":
        kw["W"] = strv("W", "inverse")
    else:
        kw["W"] = none()
    if lb is None:
        kw["lb"] = none()
    else:
        kw["lb"] = arr("lb", S("SRC"), U_INT, sign=("NONNEG" if lb == "nonneg" else None), finite=(lb != "neginf"))
    if ub is None:
        kw["ub"] = none()
    else:
        kw["ub"] = arr("ub", S("SRC"), U_INT, finite=("mixed" if ub == "mixed" else ub == "finite"))
    if bs == "sym":
        kw["batch_size"] = intv("batch_size", "bs")
    elif bs == 1:
        v = const(1)
        v.data = frozenset({"batch_size"})
        v.tags.update(kind="int", dim=())
        kw["batch_size"] = v
    elif bs == "full":
        kw["batch_size"] = strv("batch_size", "full")
    elif bs is None:
        kw["batch_size"] = none()
    return kw


def estimator_fields(K="vec", baseline="vec", domain="array", ub="finite", lb="nonneg", W="vec", Epsilon="het",
                     targets=True, uncertainty=None):
    """Declared types of the fields of a ReceptorEstimator with a registered system (rely side of the
    rely/guarantee treatment of `self`)."""
    f = {}
    f["filters"] = arr("self.filters", S("F", "D"), U_FILTER)
    if domain == "array":
        f["domain"] = arr("self.domain", S("D"), U_LAMBDA, isnum=False)
    else:
        f["domain"] = num("self.domain", U_LAMBDA, sign="POS")
    f["filters_uncertainty"] = none() if uncertainty is None else arr("self.filters_uncertainty", S("F", "D"), U_FILTER)
    FR = rel_axis(K)
    f["K"] = arr("self.K", S("F") if K == "vec" else (S("Fr", "F") if K == "mat" else S("1")), U_K)
    f["baseline"] = arr("self.baseline", S("F") if baseline == "vec" else S("1"), U_CAPTURE, "BASE", sign="NONNEG")
    f["A"] = arr("self.A", S("F", "SRC"), U_GAIN, "GAIN", sign="NONNEG")
    f["lb"] = arr("self.lb", S("SRC"), U_INT, sign=("NONNEG" if lb == "nonneg" else None), finite=True)
    f["ub"] = arr("self.ub", S("SRC"), U_INT, finite=(ub == "finite"))
    f["sources"] = arr("self.sources", S("SRC", "D"), U_SIGNAL)
    f["sources_domain"] = f["domain"].copy()
    f["w"] = arr("self.w", S(FR), U_W, sign="NONNEG")
    f["W"] = arr("self.W", S(FR) if W == "vec" else S("N", FR), U_W, sign="NONNEG")
    f["labels"] = opaque("self.labels")
    f["sources_labels"] = opaque("self.sources_labels")
    if Epsilon == "het":
        f["Epsilon"] = strv("self.Epsilon", "heteroscedastic")
    else:
        f["Epsilon"] = arr("self.Epsilon", S("F", "SRC"), {"c": 2, "s": -2}, sign="NONNEG")
    if targets:
        f["B"] = arr("self.B", S("N", FR), U_REL, "TOTAL")
        f["target_B"] = arr("self.target_B", S("N", FR), U_REL, "TOTAL")
    return f
