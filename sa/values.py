"""Abstract values: a product of independent facets, each with a TOP that can never
cause an alarm.

facets
  const   literal value or U (unknown)
  data/shp/ctrl   DEPS: sets of origins (entry parameters, self fields, rng sites)
  shape   Shape (named axes) or None
  unit    dict sym->exp | POLY | None          (QTY units)
  frame   None | 'GAIN' | 'LIGHT' | 'TOTAL' | 'BASE' | ('DIFF', id) | ('CENT', id)
  sign    None | 'NONNEG' | 'POS' | 'ANY'      ('ANY' = may be negative by construction)
  fresh   None | 'FRESH' | ('ALIAS', frozenset(origins))
  refs    heap object ids (cvx leaves, problems, lists, dicts)
  items   list[Val] for tuples (field sensitive)
  term    symbolic term (nested tuples), bounded size
  tags    misc facts: ndim, isnum, kind, dim, elem, ...
"""
from __future__ import annotations

E = frozenset()


class _U:
    def __repr__(self):
        return "U"

    def __bool__(self):
        raise TypeError("truth value of unknown constant")


U = _U()
POLY = "POLY"          # unit-polymorphic literal (0, inf, nan)
ONE = {}               # dimensionless

TERM_CAP = 160
TERM_BOUND_TAGS = {"count_how"}


def term_size(t):
    if not isinstance(t, tuple):
        return 1
    n = 1
    for c in t:
        n += term_size(c)
        if n > TERM_CAP:
            return n
    return n


def mk_term(*parts):
    t = tuple(parts)
    if term_size(t) > TERM_CAP:
        return ("?",)
    return t


# ---------------------------------------------------------------- dims / shapes
# Dim: tuple of sorted symbol strings (a monomial); () is 1; None unknown.

def dim_mul(a, b):
    if a is None or b is None:
        return None
    return tuple(sorted(a + b))


def dim_str(d):
    if d is None:
        return "?"
    if d == ():
        return "1"
    return "⊗".join(d)


class Shape:
    """axes: tuple of Dim (or None for an unknown extent); ell: leading '...'."""
    __slots__ = ("axes", "ell")

    def __init__(self, axes, ell=False):
        self.axes = tuple(axes)
        self.ell = bool(ell)

    def __eq__(self, o):
        return isinstance(o, Shape) and self.axes == o.axes and self.ell == o.ell

    def __hash__(self):
        return hash((self.axes, self.ell))

    def __repr__(self):
        return "(" + ("…," if self.ell else "") + ",".join(dim_str(a) for a in self.axes) + ")"

    @property
    def rank(self):
        return None if self.ell else len(self.axes)


def S(*names, ell=False):
    """Shape from axis names: S('F','D'); '1' -> (), None -> unknown."""
    ax = []
    for n in names:
        if n is None:
            ax.append(None)
        elif n == "1" or n == 1:
            ax.append(())
        elif isinstance(n, tuple):
            ax.append(tuple(sorted(n)))
        else:
            ax.append((n,))
    return Shape(ax, ell)


# ---------------------------------------------------------------- units

def umul(a, b, sign=1):
    if a is None or b is None:
        return None
    if a == POLY and b == POLY:
        return POLY
    if a == POLY:
        return POLY if sign == 1 else None
    if b == POLY:
        return POLY if sign == 1 else None
    r = dict(a)
    for k, v in b.items():
        r[k] = r.get(k, 0) + sign * v
        if r[k] == 0:
            del r[k]
    return r


def upow(a, n):
    if a is None:
        return None
    if a == POLY:
        return POLY
    return {k: v * n for k, v in a.items() if v * n != 0}


def ueq(a, b):
    """(compatible?, resulting unit)"""
    if a is None or b is None:
        return True, (a if b is None else b) if (a is None) != (b is None) else None
    if a == POLY:
        return True, b
    if b == POLY:
        return True, a
    return a == b, a


def ustr(u):
    if u is None:
        return "?"
    if u == POLY:
        return "poly"
    s = "·".join((f"{k}^{v}" if v != 1 else k) for k, v in sorted(u.items()))
    return s or "1"


# ---------------------------------------------------------------- Val

class Val:
    __slots__ = ("const", "data", "shp", "ctrl", "shape", "unit", "frame", "sign", "fresh",
                 "refs", "items", "term", "tags")

    def __init__(self, const=U, data=E, shp=E, ctrl=E, shape=None, unit=None, frame=None,
                 sign=None, fresh=None, refs=E, items=None, term=None, tags=None):
        self.const = const
        self.data = frozenset(data)
        self.shp = frozenset(shp)
        self.ctrl = frozenset(ctrl)
        self.shape = shape
        self.unit = unit
        self.frame = frame
        self.sign = sign
        self.fresh = fresh
        self.refs = frozenset(refs)
        self.items = items
        self.term = term
        self.tags = tags or {}

    # -- helpers
    def copy(self, **kw):
        v = Val(self.const, self.data, self.shp, self.ctrl, self.shape, self.unit, self.frame,
                self.sign, self.fresh, self.refs, self.items, self.term, dict(self.tags))
        for k, x in kw.items():
            setattr(v, k, x)
        return v

    def tag(self, k, default=None):
        return self.tags.get(k, default)

    @property
    def known(self):
        return self.const is not U

    def deps_all(self):
        return self.data | self.shp | self.ctrl

    def flat(self):
        """Collapse tuple items into one value (deps union, other facets joined)."""
        if self.items is None:
            return self
        r = Val(data=self.data, shp=self.shp, ctrl=self.ctrl, refs=self.refs, term=self.term)
        first = True
        for i in self.items:
            f = i.flat()
            if first:
                r = Val(U, r.data | f.data, r.shp | f.shp, r.ctrl | f.ctrl, f.shape, f.unit, f.frame,
                        f.sign, f.fresh, r.refs | f.refs, None, self.term, dict(f.tags))
                first = False
            else:
                j = join(r, f)
                j.term = self.term
                r = j
        r.const = U
        r.items = None
        return r

    def with_ctrl(self, c):
        if not c:
            return self
        v = self.copy()
        v.ctrl = self.ctrl | c
        if self.items is not None:
            v.items = [i.with_ctrl(c) for i in self.items]
        return v

    def __repr__(self):
        bits = []
        if self.const is not U:
            bits.append(f"c={self.const!r}")
        if self.data:
            bits.append("D=" + ",".join(sorted(self.data)))
        if self.shp:
            bits.append("S=" + ",".join(sorted(self.shp)))
        if self.ctrl:
            bits.append("C=" + ",".join(sorted(self.ctrl)))
        if self.shape is not None:
            bits.append(f"sh={self.shape}")
        if self.unit is not None:
            bits.append(f"u=[{ustr(self.unit)}]")
        if self.frame is not None:
            bits.append(f"fr={self.frame}")
        if self.sign:
            bits.append(f"sg={self.sign}")
        if self.fresh:
            bits.append(f"fresh={self.fresh if self.fresh == 'FRESH' else 'ALIAS' + str(sorted(self.fresh[1]))}")
        if self.refs:
            bits.append(f"refs={sorted(self.refs)}")
        if self.items is not None:
            bits.append(f"items={self.items}")
        if self.tags:
            bits.append("tags=" + ",".join(f"{k}:{v}" for k, v in self.tags.items() if k != "elem"))
        return "Val(" + " ".join(bits) + ")"


def join_shape(a, b):
    if a is None or b is None:
        return None
    if a == b:
        return a
    if a.ell != b.ell or len(a.axes) != len(b.axes):
        return None
    return Shape([x if x == y else None for x, y in zip(a.axes, b.axes)], a.ell)


def join_fresh(a, b):
    if a is None or b is None:
        return None
    if a == "FRESH" and b == "FRESH":
        return "FRESH"
    oa = a[1] if a != "FRESH" else E
    ob = b[1] if b != "FRESH" else E
    return ("ALIAS", oa | ob)      # may-alias: union


def join_sign(a, b):
    if a == b:
        return a
    if a is None or b is None:
        return None
    if "ANY" in (a, b):
        return "ANY"
    if {a, b} == {"POS", "NONNEG"}:
        return "NONNEG"
    return None


def join(a: Val, b: Val) -> Val:
    if a is b:
        return a
    const = a.const if (a.const is not U and b.const is not U and type(a.const) is type(b.const)
                        and a.const == b.const) else U
    ok, u = (True, None)
    if a.unit is not None and b.unit is not None:
        ok, u = ueq(a.unit, b.unit)
        if not ok:
            u = None
    items = None
    if a.items is not None and b.items is not None and len(a.items) == len(b.items):
        items = [join(x, y) for x, y in zip(a.items, b.items)]
    elif a.tags.get("kind") == "list" and b.tags.get("kind") == "list":
        if not (a.items is not None and b.items is not None and len(a.items) == len(b.items)):
            a = a.copy(items=None)
            b = b.copy(items=None)
    elif a.items is not None or b.items is not None:
        a2, b2 = a.flat(), b.flat()
        if a2 is not a or b2 is not b:
            return join(a2, b2)
    if a.tags.get("cvx") == "constraint" and b.tags.get("cvx") == "constraint" and a is not b:
        alts = list(a.tags.get("alts") or [a]) + list(b.tags.get("alts") or [b])
        return Val(U, a.data | b.data, a.shp | b.shp, a.ctrl | b.ctrl, None, None, None, None, None, a.refs | b.refs,
                   None, mk_term("phi", a.term, b.term), {"cvx": "constraint", "alts": alts, "node": a.tags.get("node")})
    tags = {}
    for k, v in a.tags.items():
        if k in b.tags:
            if k == "kw" and isinstance(v, dict) and isinstance(b.tags[k], dict):
                o = b.tags[k]
                merged = {}
                for kk in set(v) | set(o):
                    if kk in v and kk in o:
                        merged[kk] = join(v[kk], o[kk])
                    else:
                        one = (v.get(kk) or o.get(kk)).copy()
                        one.tags["maybe_absent"] = True
                        merged[kk] = one
                tags[k] = merged
                continue
            if k == "elem":
                o = b.tags[k]
                tags[k] = join(v, o) if (v is not None and o is not None) else (v if o is None else o)
            elif b.tags[k] == v:
                if k in TERM_BOUND_TAGS and a.term != b.term:
                    continue             # equal marks on different values (k vs k + 1): the choice between them is not that mark
                tags[k] = v
    # rows of a zero-initialised buffer that is filled with probability vectors (every row is written: the
    # allocation counts sum to the number of rows — stated assumption)
    for x, y in ((a, b), (b, a)):
        if x.tags.get("simplex_rows") and y.tags.get("zero_init") and not y.tags.get("simplex_rows"):
            tags["simplex_rows"] = True
    data = a.data | b.data
    # an origin that reaches one side ONLY through a lossy map (o|clamp, o|proj, …) and the other side plainly: on some path the
    # dependence is lossy — remembered as o|how|path (expression-level mixtures such as x - clip(x) never produce it)
    for x_, y_ in ((a, b), (b, a)):
        for o in x_.data:
            if "|" in o and not o.endswith("|path"):
                base = o.split("|", 1)[0]
                if base not in x_.data and base in y_.data:
                    data = data | {o + "|path"}
    # may-alias facts survive a merge when either side carries them
    for k_ in ("self_container", "tail_filled", "tail_filled_from_self", "squared"):
        if k_ not in tags and (a.tags.get(k_) or b.tags.get(k_)):
            tags[k_] = a.tags.get(k_) or b.tags.get(k_)
    # must-dependence: what reaches the value on EVERY joined path (valid right after the merge; plain operations drop the tag)
    tags["must_data"] = frozenset(a.tags.get("must_data", a.data)) & frozenset(b.tags.get("must_data", b.data))
    return Val(const, data, a.shp | b.shp, a.ctrl | b.ctrl, join_shape(a.shape, b.shape), u,
               a.frame if a.frame == b.frame else None, join_sign(a.sign, b.sign),
               join_fresh(a.fresh, b.fresh), a.refs | b.refs, items,
               a.term if a.term == b.term else (mk_term("phi", a.term, b.term) if (a.term and b.term) else None),
               tags)


def join_all(vals):
    r = None
    for v in vals:
        r = v if r is None else join(r, v)
    return r if r is not None else Val()


def const(v, **kw):
    return Val(const=v, term=("lit", repr(v)), **kw)


def join_env(e1, e2):
    out = {}
    for k in set(e1) | set(e2):
        if k in e1 and k in e2:
            out[k] = join(e1[k], e2[k])
        else:
            # defined on one path only: keep the value but mark possibly-undefined
            v = (e1.get(k) or e2.get(k)).copy()
            v.tags["maybe_undef"] = True
            out[k] = v
    return out


def plain_dep(data, o):
    """`o` reaches the value and on no path only through a lossy map.  -> (ok, how) with how = the lossy variants seen"""
    lossy = sorted(x for x in data if x.startswith(o + "|"))
    if o not in data:
        return False, lossy
    onpath = [x for x in lossy if x.endswith("|path")]
    return (not onpath), onpath
