"""Behaviour-preserving source transformations applied to IN-MEMORY copies of dreye's modules (nothing is written, nothing of dreye is
executed): the property's analysis is re-run on each variant and must raise no violation that the unchanged tree does not raise.
This is the false-alarm counterpart of the sensitivity sweep: the operators are refactorings a maintainer applies mechanically.

operators
  rename-locals     every local variable of every function gets a new name (parameters, globals, attributes, keywords untouched)
  temp-return       `return <expr>` becomes `_result = <expr>; return _result`
  ifexp-to-if       `x = a if c else b` becomes an if / else statement
  if-to-ifexp       `if c: x = a` / `else: x = b` (single simple assignments to the same name) becomes a conditional expression
  sort-keywords     keyword arguments of calls are passed in sorted order
  assert-noise      a tautological assertion and a no-op expression statement are inserted at the top of every function body
  method-to-function `x.sum(axis=-1)` becomes `np.sum(x, axis=-1)` (NumPy reductions; not in functions that build cvxpy expressions)
  newaxis           `x[:, None]` becomes `x[:, np.newaxis]`
  unpack-via-temp   `a, b = f(…)` becomes `_packed = f(…); a = _packed[0]; b = _packed[1]`
  swap-if-else      `if c: A else: B` becomes `if not c: B else: A`
  flip-compare      `a < b` becomes `b > a` (not in functions that build cvxpy expressions)
"""
from __future__ import annotations
import ast
import copy
import importlib
import multiprocessing as mp
import os

from .model import Model
from .engine import Analyzer, Report, VIOLATED


def _locals_of(fn):
    params = {a.arg for a in fn.args.posonlyargs + fn.args.args + fn.args.kwonlyargs}
    if fn.args.vararg:
        params.add(fn.args.vararg.arg)
    if fn.args.kwarg:
        params.add(fn.args.kwarg.arg)
    glob = set()
    stored = set()
    for n in ast.walk(fn):
        if isinstance(n, (ast.Global, ast.Nonlocal)):
            glob |= set(n.names)
        elif isinstance(n, ast.Name) and isinstance(n.ctx, ast.Store):
            stored.add(n.id)
        elif isinstance(n, (ast.FunctionDef, ast.ClassDef)) and n is not fn:
            stored.discard(n.name)
            glob.add(n.name)
        elif isinstance(n, (ast.Import, ast.ImportFrom)):
            for a in n.names:
                glob.add((a.asname or a.name).split(".")[0])
    # names bound as parameters of nested functions / lambdas must not be renamed
    for n in ast.walk(fn):
        if isinstance(n, (ast.FunctionDef, ast.Lambda)) and n is not fn:
            for a in n.args.posonlyargs + n.args.args + n.args.kwonlyargs:
                glob.add(a.arg)
    return {x for x in stored if x not in params and x not in glob and not x.startswith("__")}


class _Rename(ast.NodeTransformer):
    def __init__(self, names):
        self.names = names

    def visit_Name(self, n):
        if n.id in self.names:
            return ast.copy_location(ast.Name(id=n.id + "_r", ctx=n.ctx), n)
        return n


def op_rename_locals(tree):
    for fn in [n for n in ast.walk(tree) if isinstance(n, ast.FunctionDef)]:
        # only outermost functions / methods: nested defs are handled with their parent
        names = _locals_of(fn)
        if names:
            _Rename(names).visit(fn)
    return tree


class _TempReturn(ast.NodeTransformer):
    def visit_FunctionDef(self, fn):
        self.generic_visit(fn)
        fn.body = self._blk(fn.body)
        return fn

    def _blk(self, body):
        out = []
        for st in body:
            for f in ("body", "orelse", "finalbody"):
                if isinstance(getattr(st, f, None), list) and not isinstance(st, ast.FunctionDef):
                    setattr(st, f, self._blk(getattr(st, f)))
            if isinstance(st, ast.Try):
                for h in st.handlers:
                    h.body = self._blk(h.body)
            if isinstance(st, ast.Return) and st.value is not None and not isinstance(st.value, (ast.Name, ast.Constant)):
                out.append(ast.copy_location(ast.Assign(targets=[ast.Name(id="_result", ctx=ast.Store())], value=st.value), st))
                out.append(ast.copy_location(ast.Return(value=ast.Name(id="_result", ctx=ast.Load())), st))
            else:
                out.append(st)
        return out


def op_temp_return(tree):
    return _TempReturn().visit(tree)


class _IfExpToIf(ast.NodeTransformer):
    def visit_FunctionDef(self, fn):
        self.generic_visit(fn)
        fn.body = self._blk(fn.body)
        return fn

    def _blk(self, body):
        out = []
        for st in body:
            for f in ("body", "orelse", "finalbody"):
                if isinstance(getattr(st, f, None), list) and not isinstance(st, ast.FunctionDef):
                    setattr(st, f, self._blk(getattr(st, f)))
            if isinstance(st, ast.Assign) and len(st.targets) == 1 and isinstance(st.targets[0], ast.Name) and isinstance(st.value, ast.IfExp):
                t = st.targets[0].id
                out.append(ast.copy_location(ast.If(
                    test=st.value.test,
                    body=[ast.copy_location(ast.Assign(targets=[ast.Name(id=t, ctx=ast.Store())], value=st.value.body), st)],
                    orelse=[ast.copy_location(ast.Assign(targets=[ast.Name(id=t, ctx=ast.Store())], value=st.value.orelse), st)]), st))
            else:
                out.append(st)
        return out


def op_ifexp_to_if(tree):
    return _IfExpToIf().visit(tree)


class _IfToIfExp(ast.NodeTransformer):
    def visit_If(self, st):
        self.generic_visit(st)
        if len(st.body) == 1 and len(st.orelse) == 1 and all(
                isinstance(x, ast.Assign) and len(x.targets) == 1 and isinstance(x.targets[0], ast.Name) for x in (st.body[0], st.orelse[0])) \
                and st.body[0].targets[0].id == st.orelse[0].targets[0].id:
            return ast.copy_location(ast.Assign(
                targets=[ast.Name(id=st.body[0].targets[0].id, ctx=ast.Store())],
                value=ast.IfExp(test=st.test, body=st.body[0].value, orelse=st.orelse[0].value)), st)
        return st


def op_if_to_ifexp(tree):
    return _IfToIfExp().visit(tree)


class _SortKw(ast.NodeTransformer):
    def visit_Call(self, n):
        self.generic_visit(n)
        if n.keywords and all(k.arg is not None for k in n.keywords):
            n.keywords = sorted(n.keywords, key=lambda k: k.arg)
        return n


def op_sort_keywords(tree):
    return _SortKw().visit(tree)


def op_assert_noise(tree):
    for fn in [n for n in ast.walk(tree) if isinstance(n, ast.FunctionDef)]:
        pos = 1 if (fn.body and isinstance(fn.body[0], ast.Expr) and isinstance(fn.body[0].value, ast.Constant)
                    and isinstance(fn.body[0].value.value, str)) else 0
        noise = [ast.Assert(test=ast.Constant(value=True), msg=None), ast.Expr(value=ast.Constant(value=None))]
        for x in noise:
            ast.copy_location(x, fn.body[0] if fn.body else fn)
        fn.body[pos:pos] = noise
    return tree


def _uses_cvx(fn):
    return any(isinstance(n, ast.Name) and n.id in ("cp", "cvxpy") for n in ast.walk(fn))


class _MethodToFunction(ast.NodeTransformer):
    """x.sum(axis=…) -> np.sum(x, axis=…) for NumPy reductions (functions that build cvxpy expressions are left alone)"""
    NAMES = {"sum", "max", "min", "mean", "all", "any", "std", "var", "prod", "cumsum", "argmin", "argmax"}

    def visit_FunctionDef(self, fn):
        if _uses_cvx(fn):
            return fn
        self.generic_visit(fn)
        return fn

    def visit_Call(self, n):
        self.generic_visit(n)
        f = n.func
        if isinstance(f, ast.Attribute) and f.attr in self.NAMES and not (isinstance(f.value, ast.Name) and f.value.id in ("np", "numpy", "cp", "self", "stats", "qmc", "rng")) \
                and not isinstance(f.value, ast.Attribute):
            return ast.copy_location(ast.Call(func=ast.Attribute(value=ast.Name(id="np", ctx=ast.Load()), attr=f.attr, ctx=ast.Load()),
                                              args=[f.value] + n.args, keywords=n.keywords), n)
        return n


def op_method_to_function(tree):
    if not any(isinstance(n, ast.Import) and any(a.name == "numpy" and a.asname == "np" for a in n.names) for n in ast.walk(tree)):
        return tree
    return _MethodToFunction().visit(tree)


class _Newaxis(ast.NodeTransformer):
    def visit_Subscript(self, n):
        self.generic_visit(n)
        def conv(x):
            if isinstance(x, ast.Constant) and x.value is None:
                return ast.copy_location(ast.Attribute(value=ast.Name(id="np", ctx=ast.Load()), attr="newaxis", ctx=ast.Load()), x)
            return x
        if isinstance(n.slice, ast.Tuple):
            n.slice.elts = [conv(x) for x in n.slice.elts]
        else:
            n.slice = conv(n.slice)
        return n


def op_newaxis(tree):
    if not any(isinstance(n, ast.Import) and any(a.name == "numpy" and a.asname == "np" for a in n.names) for n in ast.walk(tree)):
        return tree
    return _Newaxis().visit(tree)


class _UnpackViaTemp(ast.NodeTransformer):
    def visit_FunctionDef(self, fn):
        self.generic_visit(fn)
        fn.body = self._blk(fn.body)
        return fn

    def _blk(self, body):
        out = []
        for st in body:
            for f in ("body", "orelse", "finalbody"):
                if isinstance(getattr(st, f, None), list) and not isinstance(st, ast.FunctionDef):
                    setattr(st, f, self._blk(getattr(st, f)))
            if isinstance(st, ast.Assign) and len(st.targets) == 1 and isinstance(st.targets[0], ast.Tuple) and isinstance(st.value, ast.Call) \
                    and all(isinstance(e, ast.Name) for e in st.targets[0].elts):
                out.append(ast.copy_location(ast.Assign(targets=[ast.Name(id="_packed", ctx=ast.Store())], value=st.value), st))
                for k, e in enumerate(st.targets[0].elts):
                    out.append(ast.copy_location(ast.Assign(targets=[ast.Name(id=e.id, ctx=ast.Store())],
                                                            value=ast.Subscript(value=ast.Name(id="_packed", ctx=ast.Load()),
                                                                                slice=ast.Constant(value=k), ctx=ast.Load())), st))
            else:
                out.append(st)
        return out


def op_unpack_via_temp(tree):
    return _UnpackViaTemp().visit(tree)


class _SwapIfElse(ast.NodeTransformer):
    def visit_If(self, st):
        self.generic_visit(st)
        if st.orelse and not (len(st.orelse) == 1 and isinstance(st.orelse[0], ast.If)):
            t = st.test
            nt = t.operand if (isinstance(t, ast.UnaryOp) and isinstance(t.op, ast.Not)) else ast.UnaryOp(op=ast.Not(), operand=t)
            return ast.copy_location(ast.If(test=nt, body=st.orelse, orelse=st.body), st)
        return st


def op_swap_if_else(tree):
    return _SwapIfElse().visit(tree)


class _FlipCompare(ast.NodeTransformer):
    FLIP = {ast.Lt: ast.Gt, ast.Gt: ast.Lt, ast.LtE: ast.GtE, ast.GtE: ast.LtE}

    def visit_FunctionDef(self, fn):
        if _uses_cvx(fn):
            return fn           # x >= lb and lb <= x build the same constraint, but keep solver-facing code as it is
        self.generic_visit(fn)
        return fn

    def visit_Compare(self, n):
        self.generic_visit(n)
        if len(n.ops) == 1 and type(n.ops[0]) in self.FLIP:
            return ast.copy_location(ast.Compare(left=n.comparators[0], ops=[self.FLIP[type(n.ops[0])]()], comparators=[n.left]), n)
        return n


def op_flip_compare(tree):
    return _FlipCompare().visit(tree)


OPERATORS = [("method-to-function", op_method_to_function), ("newaxis", op_newaxis), ("unpack-via-temp", op_unpack_via_temp),
             ("swap-if-else", op_swap_if_else), ("flip-compare", op_flip_compare),
             ("rename-locals", op_rename_locals), ("temp-return", op_temp_return), ("ifexp-to-if", op_ifexp_to_if),
             ("if-to-ifexp", op_if_to_ifexp), ("sort-keywords", op_sort_keywords), ("assert-noise", op_assert_noise)]


def variants(model, relpaths):
    """one variant per (operator, module): the whole module is transformed"""
    out = []
    for rp in sorted(relpaths):
        mod = next((m for m in model.modules.values() if m.relpath == rp), None)
        if mod is None or "plotting" in rp:
            continue
        for name, op in OPERATORS:
            tree = copy.deepcopy(mod.tree)
            try:
                tree = op(tree)
                ast.fix_missing_locations(tree)
                src = ast.unparse(tree)
                compile(src, rp, "exec")
            except Exception:
                continue
            if src == ast.unparse(mod.tree):
                continue
            out.append((name, rp, src))
    # and all operators composed over all modules at once
    return out


def _run_one(args):
    prop, overrides, label, base_keys = args
    try:
        os.environ["VERIF_SWEEP"] = "1"
        mod = importlib.import_module(f"sa.props.{prop}")
        an = Analyzer(Model(overrides=overrides), opts=getattr(mod, "OPTS", {}))
        rep = Report(prop, "quick", an)
        mod.check(rep, an, "quick")
        problems = rep.problems()
        new = sorted({(o.rule, o.instance, o.where) for o in rep.obls if o.status == VIOLATED and o.skey not in base_keys})
        if new:
            return label, "alarm", [f"{r}: {i} @ {w}" for r, i, w in new[:4]]
        if problems:
            return label, "analysis-error", ["anchors lost: " + "; ".join(problems)[:200]]
        return label, "silent", []
    except Exception as ex:
        return label, "analysis-error", [f"{type(ex).__name__}: {ex}"[:160]]


def metamorph(prop, an, base_report, jobs=None):
    from .engine import structural_key
    files = {q.split(":")[0].replace(".", "/") + ".py" for q in an.funcs_reached}
    vs = variants(an.model, files)
    # composed variant: every operator on every reached module
    comp = {}
    for rp in sorted(files):
        mod = next((m for m in an.model.modules.values() if m.relpath == rp), None)
        if mod is None or "plotting" in rp:
            continue
        tree = copy.deepcopy(mod.tree)
        try:
            for _, op in OPERATORS:
                tree = op(tree)
            ast.fix_missing_locations(tree)
            src = ast.unparse(tree)
            compile(src, rp, "exec")
            comp[rp] = src
        except Exception:
            pass
    base_keys = {o.skey for o in base_report.obls if o.status == VIOLATED}
    tasks = [(prop, {rp: src}, f"{name} on {rp}", base_keys) for name, rp, src in vs]
    if comp:
        tasks.append((prop, comp, f"all operators on {len(comp)} modules", base_keys))
    jobs = jobs or min(16, os.cpu_count() or 4)
    res = []
    if tasks:
        ctx = mp.get_context("fork")
        with ctx.Pool(jobs) as pool:
            res = pool.map(_run_one, tasks, chunksize=1)
    alarms = [r for r in res if r[1] == "alarm"]
    errs = [r for r in res if r[1] == "analysis-error"]
    return {"variants": len(res), "silent": len(res) - len(alarms) - len(errs), "alarms": [{"variant": l, "new_violations": w} for l, st, w in alarms],
            "analysis_errors": [{"variant": l, "error": w} for l, st, w in errs], "operators": [n for n, _ in OPERATORS]}
