"""CLI:  check <ID> [--tier quick|thorough] [--replay FILE]
exit 0: every decided obligation holds (known findings are printed as KNOWN-FINDING)
exit 1: a definite violation not listed in known_findings.json (VIOLATION line with replay file)
exit 2: ANALYSIS-ERROR — an anchor vanished, too little was decided, or the analyser crashed."""
from __future__ import annotations
import argparse
import importlib
import json
import os
import sys
import traceback

from .engine import Analyzer, Report, finish, AnalysisError


def main(argv=None):
    ap = argparse.ArgumentParser()
    ap.add_argument("prop")
    ap.add_argument("--tier", default=os.environ.get("VERIF_TIER", "quick"), choices=["quick", "thorough"])
    ap.add_argument("--replay", default=None)
    ap.add_argument("--repo", default=None)
    a = ap.parse_args(argv)
    prop = a.prop
    if a.repo:
        os.environ["DREYE_REPO"] = a.repo
    try:
        mod = importlib.import_module(f"sa.props.{prop}")
    except ModuleNotFoundError:
        print(f"ANALYSIS-ERROR property={prop} no checker module")
        return 2
    try:
        from .model import Model
        import sa.model as M
        if a.repo:
            M.REPO = __import__("pathlib").Path(a.repo)
        an = Analyzer(Model(a.repo) if a.repo else None, opts=getattr(mod, "OPTS", {}))
        rep = Report(prop, a.tier, an)
        if a.replay:
            rp = json.load(open(a.replay))
            print(f"replaying {rp['rule']} at entry {rp['entry']} construct `{rp['construct']}` on the current tree")
            mod.check(rep, an, "thorough")
            hits = [o for o in rep.obls if o.rule == rp["rule"] and o.entry == rp["entry"]
                    and " ".join(str(o.construct).split()) == " ".join(rp["construct"].split())]
            bad = [o for o in hits if o.status == "VIOLATED"]
            for o in bad[:5]:
                print(f"{o.where}: {o.rule} [{o.instance}] {o.msg}")
            if bad:
                print(f"VIOLATION property={prop} replay={a.replay}")
                return 1
            print(f"replay: instance {'holds' if hits else 'is no longer present'} on the current tree")
            return 0
        mod.check(rep, an, a.tier)
        if a.tier == "thorough" and not os.environ.get("VERIF_NO_SWEEP"):
            from .sweep import sweep
            sw = sweep(prop, an, rep)
            rep.extra = dict(getattr(rep, "extra", None) or {}, sensitivity_sweep=sw)
            print(f"{prop} sensitivity sweep: {sw['mutants']} in-memory AST mutants of {sw['functions_mutated']} reached functions, "
                  f"{sw['killed']} killed, {sw['survived']} survived, {sw['analysis_error']} analysis errors")
        if a.tier == "thorough" and not os.environ.get("VERIF_NO_SWEEP"):
            from .metamorph import metamorph
            mm = metamorph(prop, an, rep)
            rep.extra = dict(getattr(rep, "extra", None) or {}, behaviour_preserving_variants=mm)
            print(f"{prop} behaviour-preserving variants: {mm['variants']} in-memory refactorings ({', '.join(mm['operators'])}), "
                  f"{mm['silent']} silent, {len(mm['alarms'])} alarms, {len(mm['analysis_errors'])} analysis errors")
            for al in mm["alarms"][:5]:
                print(f"  FALSE-ALARM-CANDIDATE {al['variant']}: {al['new_violations'][:2]}")
            for er in mm["analysis_errors"][:5]:
                print(f"  ANALYSIS-ERROR-ON-VARIANT {er['variant']}: {er['error']}")
        return finish(rep, level=getattr(mod, "LEVEL", "other"), explanation=mod.EXPLANATION,
                      rule_text=getattr(mod, "RULE_TEXT", ""), trusted=getattr(mod, "TRUSTED", TRUSTED),
                      assumptions=getattr(mod, "ASSUMPTIONS", ASSUMPTIONS), extra=getattr(rep, "extra", None))
    except AnalysisError as ex:
        print(f"ANALYSIS-ERROR property={prop} {ex}")
        return 2
    except SyntaxError as ex:
        print(f"ANALYSIS-ERROR property={prop} source does not parse: {ex}")
        return 2
    except Exception as ex:      # a crash of the analyser is never a violation
        traceback.print_exc()
        print(f"ANALYSIS-ERROR property={prop} analyser crashed: {type(ex).__name__}: {ex}")
        return 2


TRUSTED = ["CPython semantics of the statement/expression kinds modelled in sa/absint.py",
           "sa/ext_models.py: one-line models of the numpy/scipy/cvxpy/sklearn/pint callables used by dreye",
           "exact real arithmetic (no rounding, solver tolerances or qhull robustness)",
           "the spec tables in sa/spec.py and sa/props/*.py transcribed from the property statements"]
ASSUMPTIONS = ["targets/arrays iterated over have at least one row; every named axis is non-empty (a test `extent == 0` / `0 in x.shape` is false)",
               "callers respect the documented argument kinds of the abstract configuration under analysis"]

if __name__ == "__main__":
    sys.exit(main())
