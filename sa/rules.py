"""Rule families.  Each function inspects analysis Results (traces) and adds obligations to a Report.
Alarms only on definite facts: a TOP anywhere yields UNDECIDED, never VIOLATED."""
from __future__ import annotations
import ast
import importlib

from .engine import HOLDS, VIOLATED, UNDECIDED, AnalysisError
from .model import norm_text
from .values import Val, E, U, POLY, ONE, ustr
from . import ext_models as X

_RES_CACHE = {}


def ext_resolves(dotted):
    """Does `dotted` name an object of the *installed* library?  (import + getattr only)"""
    if dotted in _RES_CACHE:
        return _RES_CACHE[dotted]
    parts = dotted.split(".")
    ok = False
    for i in range(len(parts), 0, -1):
        try:
            obj = importlib.import_module(".".join(parts[:i]))
        except Exception:
            continue
        try:
            for p in parts[i:]:
                obj = getattr(obj, p)
            ok = True
        except Exception:
            ok = False
        break
    _RES_CACHE[dotted] = ok
    return ok


def installed_solvers():
    try:
        import cvxpy
        return set(cvxpy.installed_solvers())
    except Exception:
        return None


def cvxpy_reshape_default():
    """Default `order` of cvxpy.reshape in the installed cvxpy (inspect only)."""
    try:
        import inspect
        import cvxpy
        sig = inspect.signature(cvxpy.reshape)
        p = sig.parameters.get("order")
        if p is None:
            return "F"
        return p.default if isinstance(p.default, str) else "F"
    except Exception:
        return "F"


PSEUDO = ("dreye.ureg",)


def _guarded(ev):
    for h in ev.handlers:
        if any(x in ("AttributeError", "ImportError", "Exception", "BaseException") for x in h):
            return True
    for g in ev.guards:
        txt, pol = g[0], g[1]
        if "hasattr(" in txt and pol:
            return True
    return False


def rule_api(rep, results, entry_label=None):
    """R-API: every external attribute chain / callable reached from the entry points resolves in the
    installed library; solver defaults are installed solvers."""
    seen = set()
    for res in results:
        for ev in res.events("ext_attr", "ext_call"):
            dotted = ev.d.get("raw") or ev.d["dotted"]
            if ev.kind == "ext_call" and ev.d.get("method"):
                continue
            if dotted.startswith(PSEUDO) or dotted.split(".")[0] in ("pint", "dreye"):
                continue
            key = (dotted, ev.fn.qual, ev.text())
            if key in seen:
                continue
            seen.add(key)
            ok = ext_resolves(dotted)
            if not ok:
                # alternatives of a guarded import (try: from a import x / except ImportError: from b import x)
                for local, al in ev.fn.module.imports.items():
                    if len(al) < 2:
                        continue            # only guarded imports have alternatives
                    ds = [(a[1] + "." + a[2]) if a[0] == "from" else a[1] for a in al]
                    for d in ds:
                        if dotted == d or dotted.startswith(d + "."):
                            suffix = dotted[len(d):]
                            if any(ext_resolves(o + suffix) for o in ds if o != d):
                                ok = True
            if not ok and _guarded(ev):
                ok = True
            rep.check("R-API", dotted, ok, where=ev.loc, construct=ev.text(), entry=entry_label or res.entry,
                      config=res.config,
                      msg=(f"`{dotted}` does not exist in the installed library: every call through this path fails"
                           if not ok else "resolves"))
    # solver defaults of every repo function reached
    solvers = installed_solvers()
    done = set()
    for res in results:
        for q in res.ctx.calls_seen:
            if q in done:
                continue
            done.add(q)
            mod, _, name = q.partition(":")
            fn = res.ctx.model.method(mod, *name.split(".")) if "." in name else res.ctx.model.func(mod, name)
            if fn is None:
                continue
            for p, d in fn.defaults.items():
                if p == "solver" and isinstance(d, ast.Attribute):
                    s = d.attr
                    if solvers is None:
                        rep.undecided("R-API", f"solver default {s}", where=fn.loc(d), construct=f"{p}={norm_text(d)}",
                                      entry=entry_label or res.entry, msg="cvxpy not importable")
                    else:
                        rep.check("R-API", f"solver default {s}", s in solvers, where=fn.loc(d),
                                  construct=f"{p}={norm_text(d)}", entry=entry_label or res.entry, config=res.config,
                                  msg=(f"default solver {s} is not among the installed cvxpy solvers {sorted(solvers)}: "
                                       f"the call fails for every input unless a solver is passed")
                                  if s not in solvers else "installed")


# ------------------------------------------------------------------ helpers over traces
def problems_of(res):
    """[(heapobj, objective Val, [constraint Vals])] for every cp.Problem built in the run."""
    out = []
    I = _FakeI(res)
    for o in res.heap.values():
        if o.kind == "cvxproblem":
            out.append((o, o.attrs.get("objective"), X.constraint_vals(I, o.attrs.get("constraints"))))
    return out


class _FakeI:
    def __init__(self, res):
        self.ctx = res.ctx


def closure_deps(res, val, include_ctrl=False):
    """DATA (and optionally CTRL) origins reaching `val` through the heap (params ← stored values)."""
    heap = res.heap
    f = val.flat()
    d, c = set(f.data), set(f.ctrl)
    todo = list(f.refs)
    seen = set()
    while todo:
        oid = todo.pop()
        if oid in seen:
            continue
        seen.add(oid)
        o = heap.get(oid)
        if o is None or o.content is None or o.kind in ("cvxvar", "cvxproblem"):
            continue
        d |= o.content.data
        c |= o.content.ctrl
        todo += list(o.content.refs)
    return (d | c) if include_ctrl else d


def walk_atoms(v, depth=0):
    """Yield (atom name, Val, operands) over a cvx expression tree."""
    if v is None or depth > 60:
        return
    a = v.tag("atom")
    if a is not None:
        yield a[0], v, a[1]
        for o in a[1]:
            yield from walk_atoms(o, depth + 1)
    if v.tag("cvx") == "constraint":
        yield from walk_atoms(v.tag("lhs"), depth + 1)
        yield from walk_atoms(v.tag("rhs"), depth + 1)


def leaves_of(v, depth=0):
    out = set()
    if v is None:
        return out
    return set(v.flat().refs)


# ------------------------------------------------------------------ R-SHAPE / R-QTY: definite type errors
def rule_type_errors(rep, res, facet, rule, entry=None, allow=None, only_funcs=None):
    """Every definite type error of the given facet recorded by the interpreter is a violation.
    allow: callable(ev) -> reason string for an enumerated, reasoned exception."""
    n = 0
    for ev in res.events("type_error"):
        if ev.d["facet"] != facet:
            continue
        if only_funcs is not None and ev.fn.name not in only_funcs:
            continue
        why = allow(ev) if allow else None
        if why:
            rep.advisory(f"{rule}: allowed site {ev.loc} `{ev.text()[:70]}` — {why}")
            continue
        n += 1
        rep.violated(rule, f"{ev.fn.name}", where=ev.loc, construct=ev.text(), entry=entry or res.entry,
                     config=res.config, msg=ev.d["msg"], derivation={"call_path": list(ev.path)})
    return n


def has_sym(shape, sym):
    return shape is not None and any(a is not None and sym in a for a in shape.axes)


def rule_stack(rep, res, entry=None, sym="bs"):
    """R-STACK: in a batched formulation every binary cvx operation combines operands that are stacked the
    same way; regrouping of a sample-major vector is C-order; stacking is sample-major (tile, not repeat)."""
    entry = entry or res.entry
    nerr = rule_type_errors(rep, res, "SHAPE", "R-STACK", entry)
    seen = set()
    for po, obj, cons in problems_of(res):
        for v in [obj] + cons:
            for atom, val, ops in walk_atoms(v):
                if atom in ("add", "sub", "mul", "matmul", "div") and len(ops) == 2:
                    k = id(val)
                    if k in seen:
                        continue
                    seen.add(k)
                    a, b = ops
                    if a.shape is None or b.shape is None or val.shape is None:
                        node = val.tag("node")
                        # an operand of unknown shape: undecided (unless the interpreter already reported it)
                        rep.undecided("R-STACK", atom, where=f"{po.fn.module.relpath}:{getattr(node, 'lineno', 0)}",
                                      construct=norm_text(node) if node is not None else atom, entry=entry,
                                      config=res.config)
                    elif has_sym(a.shape, sym) or has_sym(b.shape, sym):
                        node = val.tag("node")
                        rep.holds("R-STACK", atom, where=f"{po.fn.module.relpath}:{getattr(node, 'lineno', 0)}",
                                  construct=norm_text(node) if node is not None else atom, entry=entry,
                                  config=res.config, msg=f"{a.shape} {atom} {b.shape} -> {val.shape}")
    for ev in res.events("cvx_reshape", "np_reshape"):
        src = ev.d["src"]
        tgt = ev.d["shape"]
        if src.shape is None or tgt is None:
            continue
        if not has_sym(src.shape, sym) or src.shape.rank != 1:
            continue
        inner = tuple(x for x in src.shape.axes[0] if x != sym)
        if tgt.rank == 2 and tgt.axes[1] == (sym,) and tgt.axes[0] == inner and inner:
            # (X, batch): rows are sources/channels, columns samples — for a sample-major vector this needs Fortran order
            lay = ev.d["layout"]
            st = True if lay == "F" else (False if lay == "C" else None)
            rep.check("R-STACK", "regroup sample-major vector into columns", st, where=ev.loc, construct=ev.text(), entry=entry,
                      config=res.config,
                      msg="a sample-major stacked vector (x of sample 0, x of sample 1, …) is reshaped to (·, batch) in C order: the "
                          "columns interleave entries of different samples" if st is False else "F order")
            continue
        if tgt.rank == 2 and tgt.axes[0] == (sym,):
            lay = ev.d["layout"]
            st = True if lay == "C" else (False if lay == "F" else None)
            rep.check("R-STACK", "regroup sample-major vector into rows", st, where=ev.loc, construct=ev.text(),
                      entry=entry, config=res.config,
                      msg=("rows of the regrouped matrix mix different samples: the stacked vector is sample-major "
                           "(ravel()/np.concatenate of rows) but it is reshaped to (batch, ·) in Fortran order"
                           + ("" if ev.d.get("explicit", True) else " (cvxpy's default)")) if st is False else "C order")
    for ev in res.events("np_repeat"):
        src, reps = ev.d["src"], ev.d["reps"]
        if ev.d["name"] == "repeat" and src.shape is not None and src.shape.rank == 1 and src.shape.axes[0] not in ((), None) \
                and reps is not None and (sym in (reps.tag("dim") or ()) or sym in (reps.tag("dim_syms") or ())):
            rep.violated("R-STACK", "stacking of a per-sample vector", where=ev.loc, construct=ev.text(), entry=entry,
                         config=res.config,
                         msg="np.repeat repeats element-wise (x0,x0,…,x1,x1,…): not the sample-major stacking "
                             "(x,x,…) used by block_diag/ravel — entries land on the wrong source/channel for batch_size > 1")
    # padded last batch: the padding is appended at the tail, so the valid rows are the leading ones
    for ev in res.events("inplace"):
        v = ev.d["value"]
        if v.tag("suffix_slice") and v.tag("suffix_slice") != ("N",) and sol_ids(v):      # (the last rows of the SAMPLE axis are the last batch: fine)
            rep.violated("R-STACK", "valid rows of a padded batch are its leading rows", where=ev.loc, construct=ev.text(), entry=entry,
                         config=res.config,
                         msg="the rows copied back from the stacked solution are taken from its END (x[-k:]); the zero padding of the last "
                             "batch is appended at the tail, so these are the padding / shifted samples")
    # x[j:] = extremum(x[:k]) — the padded tail of a batch vector is filled from the real rows: the tail must start where the real rows end
    import ast as _ast
    seen = set()
    for ev in res.events("inplace"):
        n = ev.node
        if not (isinstance(n, _ast.Assign) and len(n.targets) == 1 and isinstance(n.targets[0], _ast.Subscript)):
            continue
        t, v = n.targets[0], n.value
        if not (isinstance(t.slice, _ast.Slice) and t.slice.lower is not None and t.slice.upper is None and isinstance(t.value, _ast.Name)):
            continue
        if not (isinstance(v, _ast.Call) and v.args and isinstance(v.args[0], _ast.Subscript) and isinstance(v.args[0].slice, _ast.Slice)
                and isinstance(v.args[0].value, _ast.Name) and v.args[0].value.id == t.value.id and v.args[0].slice.lower is None
                and v.args[0].slice.upper is not None and ev.d["value"].tag("extremum") is not None):
            continue
        k = (ev.loc, ev.text())
        if k in seen:
            continue
        seen.add(k)
        j_, k_ = norm_text(t.slice.lower), norm_text(v.args[0].slice.upper)
        rep.check("R-STACK", "the padded tail starts where the real rows end", j_ == k_, where=ev.loc, construct=ev.text(), entry=entry,
                  config=res.config,
                  msg=f"the tail `[{j_}:]` is filled with an extremum of the real rows `[:{k_}]`, but the two boundaries differ: real rows "
                      f"between them are overwritten with another row's value (or padded rows keep their own)")
    # zero padding of the last batch goes BEHIND the real rows (the write-back takes the leading rows of the stacked solution)
    for ev in res.events("np_pad"):
        b_ = ev.d["before"]
        if not any("parallel" in q or "batched" in q or "ravel_last" in q for q in ev.path) and not ev.fn.module.name.endswith("parallel"):
            continue
        st = True if (b_.known and b_.const == 0) else (False if not b_.known or b_.const else None)
        rep.check("R-STACK", "padding rows follow the real rows of the last batch", st, where=ev.loc, construct=ev.text()[:80], entry=entry,
                  config=res.config,
                  msg="np.pad puts the zero rows IN FRONT of the remaining samples: the rows copied back from the stacked solution (the leading "
                      "ones) are then the solutions of the padding, and the real samples of the last batch are lost")
    # a per-sample summation written as a constant matrix: the batch index must be the MAJOR index of the summed (sample-major) vector
    for ev in res.events("group_sum_matrix"):
        g = ev.d["groups"]
        if not (isinstance(g, tuple) and sym in g):
            continue
        rep.check("R-STACK", "per-sample sums group contiguous entries of the sample-major vector", bool(ev.d["contiguous"]), where=ev.loc,
                  construct=ev.text(), entry=entry, config=res.config,
                  msg="np.kron(ones((1, n)), eye(batch)) sums entries that lie `batch` apart: in the sample-major stacked vector those belong "
                      "to different samples (the block matrix is np.kron(eye(batch), ones((1, n)))) — each 'total' mixes sources of several samples")
    # per-row scalar Parameters (one tolerance / requested total per sample) of a padded batch: the rows appended as padding carry the
    # zero fill of the iterated arrays; a constraint `f(x_row) ≤ 0 (+ eps)` on a padded row is infeasible as soon as the bounds keep
    # f(x_row) away from 0 (lb > 0), and the whole batch fails.  The padded tail of such a Parameter must be set explicitly.
    padded = any(ev.d["callee"].name == "batched_iteration" and (ev.d["kws"].get("pad") is not None and ev.d["kws"]["pad"].known
                                                                  and ev.d["kws"]["pad"].const is True) for ev in res.events("call"))
    if padded:
        I = _FakeI(res)
        used = set()
        for po, obj, cons in problems_of(res):
            for c in cons:
                used |= set(c.flat().refs)
        for o, stores in param_stores(res):
            if o.id not in used or o.shape is None or o.shape.ell or len(o.shape.axes) != 1 or o.shape.axes[0] != (sym,):
                continue
            st = [s_ for s_ in stores if s_.loops]
            if not st:
                continue
            ok = any(s_.d["val"].tag("tail_filled") or s_.d["val"].tag("row_select") for s_ in st)
            selfred = [s_ for s_ in st if s_.d["val"].tag("tail_filled_from_self")]
            if selfred:
                how_ = selfred[0].d["val"].tag("tail_filled_from_self")
                rep.violated("R-STACK", "padded rows of a per-row parameter take the value of a real row", where=selfred[0].loc,
                             construct=how_[1][:80], entry=entry, config=res.config,
                             msg=f"the padded rows are filled with the `{how_[0]}` of the whole padded vector: the zero padding itself takes part in "
                                 f"that extremum, so the padded rows are bounded by 0 (+ eps) and are infeasible as soon as the lower bounds keep "
                                 f"the total away from 0 — the call fails for batch sizes that do not divide the number of samples")
                continue
            rep.check("R-STACK", "per-row parameters of a padded batch get an explicit value for the padded rows", ok, where=st[0].loc,
                      construct=st[0].text(), entry=entry, config=res.config,
                      msg="this per-sample Parameter enters a constraint and receives the iterated array as it is: on the padded last batch "
                          "its padded rows are 0, so the padded rows must satisfy the constraint with a bound of 0 (e.g. Σx ≤ 0 + eps) although "
                          "their variables are still confined to [lb, ub] — infeasible for lb > 0, and the call fails only for batch sizes "
                          "that do not divide the number of samples")
    return nerr


def rule_every_iteration_solves(rep, res, entry=None):
    """R-TYPESTATE: no iteration of a solve loop is skipped before the solve (rows would keep their initial zeros)"""
    entry = entry or res.entry
    solves = [sv for sv in res.events("solve") if sv.loops]
    for sv in solves:
        loop = sv.loops[-1]
        skips = [c for c in res.events("continue") if c.loops and c.loops[-1] == loop and c.fn is sv.fn and c.node.lineno < sv.node.lineno]
        for c in skips:
            und = [g[0] for g in c.guards if len(g) > 3 and not g[3]]
            rep.violated("R-TYPESTATE", "every batch of the solve loop is solved", where=c.loc, construct=f"continue before {norm_text(sv.node)[:40]}",
                         entry=entry, config=res.config,
                         msg=f"under the guard {und} the iteration is skipped before problem.solve(): those rows keep the zeros of the result "
                             f"buffer instead of the fitted intensities (result depends on which rows share a batch)")
        # a solve that is itself conditional inside the loop (memoised batches): the condition must see everything the batch's
        # parameters are computed from, otherwise a batch inherits the solution of a batch with other weights / targets
        inner = [g for g in sv.guards if len(g) > 4 and not g[3] and loop[0] == sv.fn.qual and getattr(g[2], "lineno", 0) > loop[1]]
        if inner:
            plain = lambda ds: {o.split("|")[0] for o in ds if "@" not in o and "#" not in o}
            gdeps = set()
            for g in inner:
                gdeps |= plain(g[4] or ())
            pdeps = set()
            for st in res.events("attr_store"):
                if st.d["attr"] == "value" and st.loops and st.loops[-1] == loop and st.fn is sv.fn:
                    pdeps |= plain(st.d["val"].flat().data)
            missing = sorted(pdeps - gdeps)
            inner_nodes = set()
            for g in inner:
                inner_nodes |= {id(n_) for n_ in ast.walk(g[2])}
            for tv in res.events("abs_tolerance"):
                at = tv.d.get("atol")
                if id(tv.node) in inner_nodes and not (at is not None and at.known and at.const == 0 and tv.d.get("rtol") is not None
                                                       and tv.d["rtol"].known and tv.d["rtol"].const == 0):
                    rep.violated("R-TYPESTATE", "a batch is solved whenever any of its parameters differ", where=tv.loc, construct=tv.text(),
                                 entry=entry, config=res.config,
                                 msg="problem.solve() is skipped when the batch's parameters are merely CLOSE (within a tolerance) to those of the "
                                     "previous batch: the inherited solution reproduces / optimises the previous targets, not these, to no better "
                                     "than that tolerance — which exceeds a tight requested fit tolerance")
            rep.check("R-TYPESTATE", "a batch is solved whenever any of its parameters differ", not missing, where=sv.loc,
                      construct=f"{norm_text(sv.node)[:40]} under `{inner[-1][0][:60]}`", entry=entry, config=res.config,
                      msg=f"problem.solve() is skipped under a test that depends on {sorted(gdeps)} only, while the parameters of the batch are also "
                          f"computed from {missing}: a batch with different {missing} silently inherits the previous batch's solution")
        # … and no batch's rows are filled with a stand-in constant instead of the solution (a whole batch marked NaN / 0 because ONE of
        # its rows is infeasible makes the feasible rows depend on which rows share their batch)
        for st in res.events("inplace"):
            if not (st.loops and st.loops[-1] == loop and st.fn is sv.fn and st.d.get("how") == "subscript"):
                continue
            v = st.d["value"]
            if sol_ids(v) or not (v.known or v.tag("extconst") is not None):
                continue
            if not st.d["target"].tag("zero_init") and st.d["target"].tag("kind") != "ndarray":
                continue
            und = [g[0] for g in st.guards if len(g) > 3 and not g[3] and getattr(g[2], "lineno", 0) > loop[1]]
            if not und:
                continue
            rep.violated("R-TYPESTATE", "every batch of the solve loop is solved", where=st.loc, construct=st.text()[:80], entry=entry,
                         config=res.config,
                         msg=f"under the guard {und} the rows of the whole batch are filled with a constant instead of the solver's result: rows "
                             f"that are feasible on their own lose their solution when they share a batch with an infeasible row — the result "
                             f"depends on the batch size")
        if not skips:
            rep.holds("R-TYPESTATE", "every batch of the solve loop is solved", where=sv.loc, construct=norm_text(sv.node)[:60], entry=entry,
                      config=res.config)


def rule_row_pick(rep, res, entry=None, origins=("W", "B", "self.W", "self.B")):
    """R-ROWSEP: one fixed row of a per-sample array (W[0], B[0]) is used for every sample"""
    entry = entry or res.entry
    seen = set()
    for ev in res.events("const_row_pick"):
        b = ev.d["base"]
        if not (set(origins) & set(b.flat().data)):
            continue
        k = (ev.loc, ev.text())
        if k in seen:
            continue
        seen.add(k)
        rep.violated("R-ROWSEP", "per-sample arrays are not reduced to one fixed row", where=ev.loc, construct=ev.text(), entry=entry,
                     config=res.config,
                     msg=f"row {ev.d['index']} of a per-sample array (samples × channels) is used for all samples: with per-sample weights/"
                         f"targets every other row is fitted against the wrong data")


def rule_iterator_reuse(rep, res, entry=None):
    entry = entry or res.entry
    seen = set()
    for ev in res.events("iterator_reuse"):
        k = (ev.loc, ev.text())
        if k in seen:
            continue
        seen.add(k)
        rep.violated("R-TYPESTATE", "one-shot iterators are not shared between loop iterations", where=ev.loc, construct=ev.text(), entry=entry,
                     config=res.config,
                     msg=(f"a one-shot `{ev.d['kind']}` iterator created outside the loop is consumed inside it: it is exhausted after the first "
                          f"sample, every later sample sees an empty sequence") if "zipped with itself" not in ev.d["kind"] else
                         ("one iterator object is passed twice to zip: both positions draw from the same stream, so items are paired (0,1), (2,3), … "
                          "and an unpaired last item is dropped — later items are never compared with their neighbours"))


def _canon_call_text(node):
    """construct text of a reducer call for the identity of a finding: keywords that only spell out a default (`axis=None`,
    `keepdims=False`) are left out, so that writing the defaults explicitly does not make a known construct look new"""
    if isinstance(node, ast.Call) and node.keywords:
        kws = [k for k in node.keywords if not (isinstance(k.value, ast.Constant) and k.value.value in (None, False))]
        if len(kws) != len(node.keywords):
            node = ast.Call(func=node.func, args=node.args, keywords=kws)
    return norm_text(node)


def rule_sep(rep, res, entry=None, sym="bs"):
    """R-SEP: reducers that collapse the stacked axis are additive in the objective and absent from the
    constraints (element-wise or per-row after a C-order regroup)."""
    entry = entry or res.entry
    for po, obj, cons in problems_of(res):
        for role, vals in (("objective", [obj]), ("constraint", cons)):
            for v in vals:
                for atom, val, ops in walk_atoms(v):
                    if atom not in X.CVX_ADDITIVE | X.CVX_MONO_ADDITIVE | X.CVX_COUPLING | {"norm?"}:
                        continue
                    src = ops[0].shape
                    ax = val.tag("reduce_axis")
                    node = val.tag("node")
                    where = f"{po.fn.module.relpath}:{getattr(node, 'lineno', 0)}"
                    text = _canon_call_text(node) if node is not None else atom
                    if src is None:
                        rep.undecided("R-SEP", f"{role}:{atom}", where=where, construct=text, entry=entry, config=res.config)
                        continue
                    # which axes are collapsed?
                    if ax is None:
                        collapsed = [a for a in src.axes]
                    elif ax == "?":
                        rep.undecided("R-SEP", f"{role}:{atom}", where=where, construct=text, entry=entry, config=res.config)
                        continue
                    else:
                        try:
                            collapsed = [src.axes[ax]]
                        except IndexError:
                            continue
                    hits = [a for a in collapsed if a is not None and sym in a]
                    if not hits:
                        if has_sym(src, sym):
                            rep.holds("R-SEP", f"{role}:{atom}", where=where, construct=text, entry=entry,
                                      config=res.config, msg=f"{atom} over {src} keeps the batch axis (per-row)")
                        continue
                    if role == "objective":
                        back = _broadcast_back(v, val, sym)
                        if back is not None:
                            bnode = back.tag("node")
                            rep.violated("R-SEP", f"{role}:{atom}", where=where, construct=text, entry=entry, config=res.config,
                                         msg=f"`{atom}` collapses the batch-stacked axis of {src} and the result is combined again with a "
                                             f"batch-stacked operand (`{norm_text(bnode)[:60] if bnode is not None else 'elementwise'}`): one "
                                             f"statistic of the WHOLE batch (padded rows included) enters every sample's term, so rows of one "
                                             f"batch influence each other")
                        elif atom in X.CVX_ADDITIVE or atom in X.CVX_MONO_ADDITIVE:
                            rep.holds("R-SEP", f"{role}:{atom}", where=where, construct=text, entry=entry,
                                      config=res.config, msg=f"additive reducer {atom} over stacked axis of {src}")
                        elif atom in X.CVX_COUPLING:
                            rep.violated("R-SEP", f"{role}:{atom}", where=where, construct=text, entry=entry,
                                         config=res.config,
                                         msg=f"objective reduces the batch-stacked axis of {src} with the coupling "
                                             f"reducer `{atom}`: the stacked programme is not the direct sum of the "
                                             f"per-sample programmes, so rows of one batch influence each other")
                        else:
                            rep.undecided("R-SEP", f"{role}:{atom}", where=where, construct=text, entry=entry, config=res.config)
                    else:
                        rep.violated("R-SEP", f"{role}:{atom}", where=where, construct=text, entry=entry,
                                     config=res.config,
                                     msg=f"constraint collapses the batch-stacked axis of {src} with `{atom}`: one joint "
                                         f"constraint for the whole batch instead of one per sample")


def _broadcast_back(root, target, sym, depth=0):
    """the atom inside `root` that combines (an expression containing) `target` — a value whose stacked axis was collapsed — elementwise
    with an operand that still carries the stacked axis; None if the collapsed value only flows to the root through scalars"""
    def contains(v, d=0):
        if v is target:
            return True
        a = v.tag("atom") if v is not None else None
        return bool(a) and d < 60 and any(contains(o, d + 1) for o in a[1])
    def walk(v, d=0):
        a = v.tag("atom") if v is not None else None
        if not a or d > 60 or v is target:
            return None
        ops = a[1]
        inside = [o for o in ops if contains(o)]
        if inside and a[0] in ("add", "sub", "mul", "multiply", "div", "maximum", "minimum", "hstack", "vstack") and len(ops) >= 2:
            others = [o for o in ops if o not in inside]
            if any(has_sym(o.shape, sym) for o in others) and not any(has_sym(o.shape, sym) for o in inside):
                return v
        for o in inside:
            r = walk(o, d + 1)
            if r is not None:
                return r
        return None
    return walk(root)


def _rel_guards(ev, ref):
    """guards of ev beyond the common prefix with ref's guards"""
    g, r = list(ev.guards), list(ref.guards)
    i = 0
    while i < len(g) and i < len(r) and g[i][0] == r[i][0] and g[i][1] == r[i][1]:
        i += 1
    return g[i:]


def definitely_stored(stores, solve_ev):
    """must-analysis over guard polarity: stored on every path from the loop head to the solve?"""
    rels = [_rel_guards(s, solve_ev) for s in stores]
    if any(len(r) == 0 for r in rels):
        return True
    singles = [(r[0][0], r[0][1]) for r in rels if len(r) == 1]
    for (t, pol) in singles:
        if (t, not pol) in singles:
            return True
    return False


def rule_refresh(rep, res, entry=None):
    """R-TYPESTATE(a): inside a solve loop every Parameter of the problem is stored on every path from the
    loop head to problem.solve()."""
    entry = entry or res.entry
    heap = res.heap
    for sv in res.events("solve"):
        if not sv.loops:
            continue
        loop = sv.loops[-1]
        for pid in sv.d["params"]:
            po = heap[pid]
            stores = [s for s in po.stores if s.loops and loop in s.loops and s.path[:len(sv.path)] == sv.path[:len(s.path)]
                      or (s.loops and loop in s.loops)]
            stores = [s for s in po.stores if s.loops and loop in s.loops]
            name = norm_text(po.node)
            decl = f"{po.fn.module.relpath}:{po.node.lineno}"
            if not stores:
                outside = [s for s in po.stores]
                rep.violated("R-TYPESTATE", "parameter refreshed per iteration", where=sv.loc,
                             construct=f"{norm_text(sv.node)} ← Parameter declared at `{name}`", entry=entry,
                             config=res.config,
                             msg=(f"Parameter declared at {decl} is used by the problem solved in the loop at {sv.loc} but "
                                  f"is never assigned inside that loop"
                                  + (f" (assigned {len(outside)}× outside it: a value of another row survives into every solve)"
                                     if outside else " (never assigned at all)")))
            else:
                ok = definitely_stored(stores, sv)
                und = [g[0] for s_ in stores for g in _rel_guards(s_, sv) if len(g) > 3 and not g[3]]
                st = True if ok else (False if und else None)
                rep.check("R-TYPESTATE", "parameter refreshed per iteration", st, where=stores[0].loc,
                          construct=f"{norm_text(stores[0].node)}", entry=entry, config=res.config,
                          msg="stored on every path to solve" if ok else
                          f"the Parameter declared at {decl} is assigned inside the solve loop only under the guard(s) {sorted(set(und))}: on the "
                          f"other path the value of the previous iteration (another row) is solved again")


def rule_defassign(rep, res, entry=None, funcs=None):
    """R-DEFASSIGN: a name first bound in a loop body is used after the loop although the loop may run zero times."""
    entry = entry or res.entry
    seen = set()
    for ev in res.events("maybe_undef_use"):
        if ev.d.get("loop") is None:
            continue
        if funcs is not None and ev.fn.name not in funcs:
            continue
        k = (ev.fn.qual, ev.d["name"], ev.loc)
        if k in seen:
            continue
        seen.add(k)
        rep.violated("R-DEFASSIGN", ev.d["name"], where=ev.loc, construct=f"{ev.d['name']} in {ev.fn.name}",
                     entry=entry, config=res.config,
                     msg=f"`{ev.d['name']}` is bound only by the loop at line {ev.d['loop'][1]} of {ev.fn.name}, which runs "
                         f"zero times when its range is empty; it is read afterwards → UnboundLocalError")
    return len(seen)


def rule_value(rep, res, entry=None):
    """R-VALUE: a bound ndarray method (missing call parentheses) used where an array is meant."""
    entry = entry or res.entry
    n = 0
    for ev in res.events("method_as_value"):
        n += 1
        rep.violated("R-VALUE", ev.d["method"], where=ev.loc, construct=ev.text(), entry=entry, config=res.config,
                     msg=f"`.{ev.d['method']}` is not called: the bound method object is subscripted/assigned "
                         f"where an array is meant → TypeError")
    return n


def param_stores(res):
    """[(heapobj, [store events])] for every cvx Parameter."""
    return [(o, o.stores) for o in res.heap.values() if o.kind == "cvxparam"]


def rule_rowsep(rep, res, entry=None, allowed=None):
    """R-ROWSEP: nothing that flows into a per-sample Parameter or into the returned rows has passed through a
    reduction that collapses the sample axis N (xsample taint)."""
    entry = entry or res.entry
    for o, stores in param_stores(res):
        for s in stores:
            v = s.d["val"].flat()
            bad = sorted(x for x in v.data if x.startswith("xsample@"))
            if v.tag("filled_with_extremum") is not None and s.loops:
                rep.violated("R-ROWSEP", "parameter value is row-local", where=s.loc, construct=s.text(), entry=entry, config=res.config,
                             msg="every slot of this per-sample Parameter is filled with ONE extremum taken over the rows of the batch: the "
                                 "tolerance/target of a row depends on the other rows that happen to share its batch")
                continue
            rep.check("R-ROWSEP", "parameter value is row-local", not bad, where=s.loc, construct=s.text(), entry=entry,
                      config=res.config,
                      msg=(f"the value stored into this per-sample Parameter depends on a reduction over the sample axis "
                           f"({', '.join(b.split('@')[1] for b in bad)}): row i of the result depends on other rows")
                      if bad else "no cross-sample reduction in its history")


def rule_purity(rep, res, entry=None, rule="R-PURITY", ignore_origins=()):
    """R-PURITY: no in-place write (x[...] = v, x op= v, mutating method) whose target may share memory with a
    caller-supplied array or a stored field of the estimator."""
    entry = entry or res.entry
    n = 0
    seen = set()
    for ev in res.events("inplace"):
        t = ev.d["target"]
        if t.tag("kind") in ("list", "dict", "int") or t.tag("isnum"):
            continue
        fr = t.fresh
        # one construct may be reached with several targets (a helper called with a fresh array and with the caller's array):
        # each freshness class is judged once
        k = (ev.loc, ev.text(), "F" if fr == "FRESH" else ("U" if fr is None else tuple(sorted(fr[1]))))
        if k in seen:
            continue
        seen.add(k)
        n += 1
        if fr == "FRESH":
            rep.holds(rule, "in-place write targets a fresh array", where=ev.loc, construct=ev.text(), entry=entry,
                      config=res.config, msg="target allocated inside the call")
        elif fr is None:
            rep.undecided(rule, "in-place write targets a fresh array", where=ev.loc, construct=ev.text(), entry=entry,
                          config=res.config)
        else:
            origins = sorted(o for o in fr[1] if o not in ignore_origins)
            if not origins:
                rep.holds(rule, "in-place write targets a fresh array", where=ev.loc, construct=ev.text(), entry=entry,
                          config=res.config)
                continue
            what = "the caller's array" if not origins[0].startswith("self.") else "the estimator's stored field"
            rep.violated(rule, "in-place write targets a fresh array", where=ev.loc, construct=ev.text(), entry=entry,
                         config=res.config,
                         msg=f"in-place update of an array that may share memory with {what} `{', '.join(origins)}` "
                             f"(reached only through views: asarray/atleast_nd/basic slicing/attribute load, no copy): "
                             f"the argument is modified and repeated calls give different answers")
    # one summary obligation per analysed run, so that the rule stays anchored when a refactoring removes every in-place write
    # (results collected in a list and stacked): the path was analysed, and it writes into no array it did not allocate
    if not any(o.rule == rule and o.status == "VIOLATED" and o.entry == entry and o.config == res.config for o in rep.obls):
        rep.holds(rule, "no in-place write reaches an array of the caller", where=res.fn.loc(), construct=f"in-place writes on the path of {res.fn.name}",
                  entry=entry, config=res.config, msg=f"{n} in-place write site(s), each into an array allocated inside the call")
    return n


def rule_dtype_casts(rep, res, entry=None, rule="R-DTYPE"):
    """an input array is cast to a dtype derived from ANOTHER input (np.result_type(a, b), other.dtype): integer/bool data
    then truncate coordinates or weights that are legitimately fractional"""
    entry = entry or res.entry
    seen = set()
    for ev in res.events("dtype_cast"):
        k = (ev.loc, ev.text())
        if k in seen:
            continue
        seen.add(k)
        rep.violated(rule, "no input is cast to another input's dtype", where=ev.loc, construct=ev.text(), entry=entry, config=res.config,
                     msg=(f"a freshly computed real-valued grid is produced in a dtype taken from the input arrays {sorted(ev.d['dtype_src'])}: "
                          f"with integer-typed inputs the grid points are truncated to integers (non-uniform grid, wrong positions)")
                     if ev.d.get("computed") else
                         (f"the value is converted to a dtype derived from {sorted(ev.d['dtype_src'])}: with integer/bool data there, fractional "
                          f"values (sample points, wavelengths, grids) are silently truncated"))
    return len(seen)


def rule_dtype(rep, res, entry=None, rule="R-DTYPE"):
    """R-DTYPE: a result buffer whose element type is inherited from a caller array (zeros_like/empty_like
    without dtype=) receives solver output: integer targets silently truncate the fitted intensities."""
    entry = entry or res.entry
    for ev in res.events("inplace"):
        t = ev.d["target"]
        src = t.tag("dtype_from")
        if not src:
            continue
        v = ev.d["value"].flat()
        solved = bool(sol_ids(v))
        if t.tag("dtype_copy") and (solved or v.tag("floating")):
            rep.violated(rule, "result buffer element type", where=ev.loc, construct=ev.text(), entry=entry, config=res.config,
                         msg=f"a {'solver' if solved else 'floating-point (linear solve / quotient)'} result is stored into a copy / tiling of the caller's "
                             f"`{', '.join(sorted(src))}`, which keeps that array's dtype: integer-typed `{', '.join(sorted(src))}` truncate it")
            continue
        val_is_input = isinstance(ev.d["value"].fresh, tuple) and bool(ev.d["value"].fresh[1]) and ev.d["value"].tag("kind") == "ndarray"
        if not solved and not v.tag("floating"):
            # a copy of a caller array receives values of ANOTHER input (arbitrary, generally fractional numbers)
            plain_src = {o.split("|")[0] for o in src}
            other = sorted(o for o in v.data if o not in plain_src and "@" not in o and "#" not in o and "|" not in o)
            if other and not v.known and v.tag("kind") != "int" and not v.tag("boolarr"):
                rep.violated(rule, "result buffer element type", where=ev.loc, construct=ev.text(), entry=entry, config=res.config,
                             msg=f"values computed from `{', '.join(other)}` are stored into a buffer that keeps the dtype of the caller's "
                                 f"`{', '.join(sorted(src))}`: with integer-typed `{', '.join(sorted(src))}` fractional values are truncated on the store")
            continue
        if not solved and v.tag("floating"):
            rep.violated(rule, "result buffer element type", where=ev.loc, construct=ev.text(), entry=entry, config=res.config,
                         msg=f"a floating-point result (linear solve / quotient) is stored into a buffer whose dtype is inherited from the "
                             f"caller's `{', '.join(sorted(src))}` (…_like / np.full without dtype=): an integer-typed `{', '.join(sorted(src))}` truncates it")
            continue
        if solved:
            rep.violated(rule, "result buffer element type", where=ev.loc, construct=ev.text(), entry=entry,
                         config=res.config,
                         msg=f"solver output is stored into a buffer whose dtype is inherited from the caller's "
                             f"`{', '.join(sorted(src))}` (…_like without dtype=): integer-typed targets truncate the fitted "
                             f"values")


def sol_ids(v):
    """ids of the cvx Variables whose solved value flows into v"""
    return {int(o[4:]) for o in v.flat().data if o.startswith("sol#")}


def objective_nf(obj):
    """(sense, expr) with leading minus signs folded into the sense (Minimize(-f) == Maximize(f))."""
    if obj is None or obj.tag("cvx") != "objective":
        return None, None
    sense = obj.tag("sense")
    if not obj.tag("atom"):
        return sense, None          # a join of two objectives: the expression is not a single tree
    expr = obj.tag("atom")[1][0]
    for _ in range(8):
        a = expr.tag("atom")
        if a and a[0] == "neg":
            expr = a[1][0]
            sense = "Maximize" if sense == "Minimize" else "Minimize"
        elif a and a[0] == "div" and not a[1][1].tag("cvx") and _positive_scalar(a[1][1]):
            expr = a[1][0]          # f / n with n > 0 has the same minimiser
        elif a and a[0] == "mul" and any(not o.tag("cvx") and _positive_scalar(o) for o in a[1]) \
                and sum(1 for o in a[1] if o.tag("cvx")) == 1:
            expr = [o for o in a[1] if o.tag("cvx")][0]
        else:
            break
    return sense, expr


def _positive_scalar(v):
    if v.known and isinstance(v.const, (int, float)) and not isinstance(v.const, bool):
        return v.const > 0
    return v.tag("dim") is not None or v.sign == "POS"


def atoms_in(v):
    return [a for a, _, _ in walk_atoms(v)]


def leaf_kinds(res, v):
    """(param ids, var ids) among the leaves of a cvx expression"""
    ps, vs = set(), set()
    for r in v.flat().refs:
        o = res.heap.get(r)
        if o is None:
            continue
        if o.kind == "cvxparam":
            ps.add(r)
        elif o.kind == "cvxvar":
            vs.add(r)
    return ps, vs


def rule_no_global_state(rep, res, entry=None, rule="R-PURITY"):
    """no module-level mutable state is written on the analysed path (caches make results history dependent)"""
    entry = entry or res.entry
    n = 0
    for ev in res.events("global_mutation", "global_stmt"):
        n += 1
        rep.violated(rule, "no module-level mutable state", where=ev.loc, construct=ev.text(), entry=entry, config=res.config,
                     msg=f"module-level object `{ev.d.get('name', ev.d.get('names'))}` is mutated ({ev.d.get('how', 'global')}): "
                         f"the result of a call depends on earlier calls in the same process")
    return n


def rule_effect_free(rep, res, entry=None, allowed=(), rule="R-EFFECT", reg=None, what=None):
    """a query leaves the answers to later queries unchanged: it writes no REGISTERED field of the estimator (transitively through
    self. calls).  A field the specification does not declare (a cache introduced later) may be written by a query only if every
    registration that changes something the cached value was computed from also resets that field (`reg`: {registration: write set});
    then the check is UNDECIDED (whether the cache key covers the query's arguments is not decided), otherwise it is stale after that
    registration and VIOLATED."""
    entry = entry or res.entry
    evs = [ev for ev in res.events("self_store") if ev.d["attr"] not in allowed]
    writes = sorted({ev.d["attr"] for ev in evs})
    if not evs:
        rep.holds(rule, "query leaves the estimator unchanged", where=res.fn.loc(), construct=f"write set of {res.fn.name}",
                  entry=entry, config=res.config, msg="write set = ∅")
        return writes
    declared = set(getattr(res, "self_fields_declared", ()) or ())
    by_attr = {}
    for ev in evs:
        by_attr.setdefault(ev.d["attr"], []).append(ev)
    for attr, es in sorted(by_attr.items()):
        ev = es[0]
        is_cache = reg is not None and attr.startswith("_") and attr not in declared and all(
            (e.d.get("val") is None or not e.d["val"].flat().tag("registered_value")) for e in es)
        if not is_cache:
            rep.violated(rule, "query leaves the estimator unchanged", where=ev.loc, construct=ev.text(), entry=entry, config=res.config,
                         msg=(f"{what}, yet it " if what else "a query ") + f"stores into self.{attr}: later answers depend on the history of queries")
            continue
        deps = set()
        for e in es:
            v = e.d.get("val")
            if v is not None:
                deps |= {o[5:] for o in v.flat().deps_all() if o.startswith("self.") and o[5:] != attr and not o[5:].startswith("_")}
        stale = sorted(r for r, ws in reg.items() if (ws & deps) and attr not in ws)
        # a cache that stores, next to the value, a KEY computed from everything the value depends on (the bytes of A, lb, ub, K, …)
        # cannot go stale whatever changes the fields: a changed field is a different key
        want = {"self." + d for d in deps}
        def covers(kv):
            return kv is not None and want and want <= set(kv.flat().deps_all())
        keyed = False
        for e in es:
            v = e.d.get("val")
            if covers(e.d.get("key")):
                keyed = True
            if v is not None and v.items and len(v.items) >= 2 and any(covers(it) for it in v.items[:-1]):
                keyed = True
        if stale and keyed:
            rep.undecided(rule, "query leaves the estimator unchanged", where=ev.loc, construct=ev.text(), entry=entry, config=res.config,
                          msg=f"self.{attr} caches a value together with a key computed from all of {sorted(deps)}: a changed field is a different "
                              f"key, so it cannot go stale (that the key is compared on every read is not decided)")
            continue
        if stale:
            rep.violated(rule, "query leaves the estimator unchanged", where=ev.loc, construct=ev.text(), entry=entry, config=res.config,
                         msg=(f"{what}: it " if what else "a query ") + f"caches a value computed from {sorted(deps)} in self.{attr}, "
                             f"but {', '.join(stale)} — which change{'s' if len(stale) == 1 else ''} what it was computed from — "
                             f"do{'es' if len(stale) == 1 else ''} not reset self.{attr}: after such a registration later queries are answered from the stale value")
        else:
            rep.undecided(rule, "query leaves the estimator unchanged", where=ev.loc, construct=ev.text(), entry=entry, config=res.config,
                          msg=f"self.{attr} is a cache of a value computed from {sorted(deps)}; every registration that writes one of them also "
                              f"resets it — whether its key covers the query's arguments is not decided")
    return writes

def near(ev):
    """the event happens in the entry function itself or in a PRIVATE helper (`_name`) of the entry's own module / class that the
    entry reaches: extracting a block of an entry point into a private helper does not move it out of sight"""
    path = ev.path
    if len(path) <= 1:
        return True
    def split(q):
        mod, _, name = q.partition(":")
        cls, _, fn = name.rpartition(".")
        return mod, cls, fn
    m0, c0, _ = split(path[0])
    for q in path[1:]:
        m, c, f = split(q)
        if m != m0 or (c and c != c0) or not f.startswith("_") or f.startswith("__"):
            return False
    return True


def rule_extent_coincidence(rep, res, entry=None, rule="R-DISPATCH"):
    """the meaning of an argument is never chosen by comparing the extents of two unrelated axes"""
    entry = entry or res.entry
    seen = set()
    for ev in res.events("extent_coincidence"):
        k = (ev.loc, ev.text())
        if k in seen:
            continue
        seen.add(k)
        a, b = ev.d["axes"]
        rep.violated(rule, "no dispatch on a coincidence of unrelated extents", where=ev.loc, construct=ev.text(), entry=entry, config=res.config,
                     msg=f"the branch is chosen by whether the extent of axis {a} equals that of axis {b}: whenever the two happen to coincide "
                         f"(e.g. as many samples as channels) the other interpretation of the argument is taken")


def rule_min_vs_max_exact(rep, res, entry=None, rule="R-VALUE"):
    """whether a quantity "varies at all" is not decided by an exact order test between its computed minimum and maximum
    (`Xmaxs[k] > Xmins[k]`): both come out of floating-point solves of different sub-systems and differ by rounding for a quantity the
    data pins.  Decided on the syntax of every reached function: a comparison whose two sides are the same constant subscript of two
    different parameters of the function."""
    entry = entry or res.entry
    fns = {ev.d["callee"] for ev in res.events("call")} | {res.fn}
    n = 0
    for fn in sorted(fns, key=lambda f: f.qual):
        params = {a.arg for a in fn.node.args.args}
        for c in ast.walk(fn.node):
            if not (isinstance(c, ast.Compare) and len(c.ops) == 1 and isinstance(c.ops[0], (ast.Gt, ast.GtE, ast.Lt, ast.LtE, ast.NotEq, ast.Eq))):
                continue
            l, r = c.left, c.comparators[0]
            if not (isinstance(l, ast.Subscript) and isinstance(r, ast.Subscript) and isinstance(l.value, ast.Name) and isinstance(r.value, ast.Name)
                    and l.value.id in params and r.value.id in params and l.value.id != r.value.id and norm_text(l.slice) == norm_text(r.slice)):
                continue
            names = (l.value.id.lower(), r.value.id.lower())
            if not (any("max" in x for x in names) and any("min" in x for x in names)):
                continue
            n += 1
            rep.violated(rule, "a pinned quantity is not detected by an exact min-vs-max test", where=fn.loc(c), construct=norm_text(c), entry=entry,
                         config=res.config,
                         msg=f"`{norm_text(c)}` compares a computed maximum with a computed minimum exactly: for a source the target pins the two "
                             f"differ by rounding (1e-16), the test is true, the source is walked although it does not vary, and the remaining "
                             f"sub-system is singular (LinAlgError, or spaced solutions far outside the bounds)")
    return n


def rule_last_iteration_wins(rep, res, entry=None, rule="R-COVER"):
    """a verdict over ALL items of a loop is accumulated (`ok = ok and …`, `ok &= …`, an early exit when it fails): a flag that is simply
    re-assigned in every iteration (`ok = test(item)`) and read after the loop reports the LAST item only.  Decided on the syntax of every
    reached function; only flags assigned from a predicate (comparison, np.array_equal / all / any / isclose / allclose) are instances."""
    entry = entry or res.entry
    fns = {ev.d["callee"] for ev in res.events("call")} | {res.fn}
    preds = ("array_equal", "array_equiv", "all", "any", "isclose", "allclose", "equal", "issubset")
    n = 0
    for fn in sorted(fns, key=lambda f: f.qual):
        for loop in [x for x in ast.walk(fn.node) if isinstance(x, (ast.For, ast.While))]:
            for st in ast.walk(loop):
                if not (isinstance(st, ast.Assign) and len(st.targets) == 1 and isinstance(st.targets[0], ast.Name)):
                    continue
                v = st.targets[0].id
                val = st.value
                is_pred = isinstance(val, ast.Compare) or (isinstance(val, ast.Call) and (
                    (isinstance(val.func, ast.Attribute) and val.func.attr in preds) or (isinstance(val.func, ast.Name) and val.func.id in preds)))
                if not is_pred:
                    continue
                names_in_val = {x.id for x in ast.walk(val) if isinstance(x, ast.Name)}
                read_after = any(isinstance(x, ast.Name) and x.id == v and isinstance(x.ctx, ast.Load) and getattr(x, "lineno", 0) > loop.end_lineno
                                 for x in ast.walk(fn.node))
                if not read_after:
                    continue
                n += 1
                tested_in_loop = any(isinstance(t, (ast.If, ast.IfExp, ast.Assert, ast.While)) and v in {x.id for x in ast.walk(t.test) if isinstance(x, ast.Name)}
                                     for t in ast.walk(loop))
                aug = any(isinstance(t, ast.AugAssign) and isinstance(t.target, ast.Name) and t.target.id == v for t in ast.walk(loop))
                ok = (v in names_in_val) or tested_in_loop or aug
                rep.check(rule, "a verdict over all items of a loop is accumulated", ok, where=fn.loc(st), construct=norm_text(st)[:80], entry=entry,
                          config=res.config,
                          msg=f"`{v}` is overwritten in every iteration and read after the loop: only the LAST item decides (an earlier item that "
                              f"fails the test is forgotten)")
    return n


def rule_fixed_column(rep, res, entry=None, arrays=("A",), rule="R-VALUE"):
    """a function that addresses the columns of the capture matrix through a VARIABLE source index (`A[:, jdx]`, `A[:, rest]`) does not also
    address one fixed column (`A[:, 0]`): the fixed column is the walked / removed source only when that index happens to be 0.
    Decided on the syntax of every reached function (belief contradiction within one function)."""
    entry = entry or res.entry
    fns = {ev.d["callee"] for ev in res.events("call")} | {res.fn}
    n = 0
    for fn in sorted(fns, key=lambda f: f.qual):
        var_cols, fixed = [], []
        for sub in ast.walk(fn.node):
            if not (isinstance(sub, ast.Subscript) and isinstance(sub.value, ast.Name) and sub.value.id in arrays
                    and isinstance(sub.slice, ast.Tuple) and len(sub.slice.elts) == 2 and isinstance(sub.slice.elts[0], ast.Slice)
                    and sub.slice.elts[0].lower is None and sub.slice.elts[0].upper is None):
                continue
            c = sub.slice.elts[1]
            if isinstance(c, ast.Name):
                var_cols.append(sub)
            elif isinstance(c, ast.Constant) and isinstance(c.value, int) and not isinstance(c.value, bool):
                fixed.append(sub)
        if not var_cols:
            continue
        n += 1
        for sub in fixed:
            rep.violated(rule, "columns of the capture matrix are addressed by the source index in use", where=fn.loc(sub), construct=norm_text(sub),
                         entry=entry, config=res.config,
                         msg=f"`{norm_text(sub)}` is one fixed column although the function selects the walked / removed source by a variable "
                             f"(`{norm_text(var_cols[0])}`): the capture taken out per step belongs to another source whenever that index is not "
                             f"{sub.slice.elts[1].value}")
        if not fixed:
            rep.holds(rule, "columns of the capture matrix are addressed by the source index in use", where=fn.loc(var_cols[0]),
                      construct=norm_text(var_cols[0]), entry=entry, config=res.config)
    return n


def rule_extremum_siblings(rep, res, entry=None, rule="R-VALUE"):
    """sibling stores disagree: an array that collects an extremum (`T[m] = X.min(axis=0)`) receives, at another store of the same
    function, ONE PARTICULAR ROW of a table (`T[m] = Y[0]`, `Y[-1]`) — the first / last row of a table is its column-wise extremum only
    if every column is sorted, which a lexicographic order of the rows does not give.  Decided on the syntax of every reached function."""
    entry = entry or res.entry
    fns = {ev.d["callee"] for ev in res.events("call")} | {res.fn}
    n_inst = 0
    fn_node = None
    def kind(v):
        for n in ast.walk(v):
            if isinstance(n, ast.Call):
                nm = n.func.attr if isinstance(n.func, ast.Attribute) else n.func.id if isinstance(n.func, ast.Name) else None
                if nm in ("min", "max", "amin", "amax", "nanmin", "nanmax", "minimum", "maximum", "argmin", "argmax"):
                    return "min" if "min" in nm else "max"
                if nm == "reduce" and isinstance(n.func, ast.Attribute) and isinstance(n.func.value, ast.Attribute) \
                        and n.func.value.attr in ("minimum", "maximum"):
                    return "min" if n.func.value.attr == "minimum" else "max"
                if nm in ("sort", "partition") and any(k.arg == "axis" and isinstance(k.value, ast.Constant) and k.value.value == 0 for k in n.keywords):
                    return "min"        # first / last row of a table whose every COLUMN is sorted is its column-wise extremum
        if isinstance(v, ast.Subscript):
            sl = v.slice
            is_pick = (isinstance(sl, ast.UnaryOp) and isinstance(sl.op, ast.USub) and isinstance(sl.operand, ast.Constant)) or (
                isinstance(sl, ast.Constant) and isinstance(sl.value, int) and not isinstance(sl.value, bool))
            if is_pick:
                # the first / last row of a local table that was sorted column by column is an extremum, not a pick
                if isinstance(v.value, ast.Name) and fn_node is not None:
                    defs = [a.value for a in ast.walk(fn_node) if isinstance(a, ast.Assign) and len(a.targets) == 1
                            and isinstance(a.targets[0], ast.Name) and a.targets[0].id == v.value.id]
                    if defs and all(kind(d) in ("min", "max") for d in defs):
                        return "min"
                return "pick"
        return None
    for fn in sorted(fns, key=lambda f: f.qual):
        fn_node = fn.node
        groups = {}
        for st in ast.walk(fn.node):
            if isinstance(st, ast.Assign) and len(st.targets) == 1 and isinstance(st.targets[0], ast.Subscript) \
                    and isinstance(st.targets[0].value, ast.Name):
                groups.setdefault(st.targets[0].value.id, []).append((st, kind(st.value)))
        for name, sts in groups.items():
            ext = [k for _, k in sts if k in ("min", "max")]
            picks = [st for st, k in sts if k == "pick"]
            if not ext:
                continue
            n_inst += 1
            for st in picks:
                rep.violated(rule, "an array of extrema receives an extremum at every store", where=fn.loc(st), construct=norm_text(st)[:80],
                             entry=entry, config=res.config,
                             msg=f"`{name}` collects a column-wise {ext[0]} at its other store(s), but here it receives one particular row "
                                 f"(`{norm_text(st.value)[:40]}`): the first / last row of a table holds the column-wise extremes only if every "
                                 f"column is sorted — rows in lexicographic order sort the first column only")
            if not picks:
                rep.holds(rule, "an array of extrema receives an extremum at every store", where=fn.loc(sts[0][0]), construct=f"stores into {name}",
                          entry=entry, config=res.config)
    return n_inst


def rule_iter_arrays_per_sample(rep, res, entry=None, rule="R-STACK", sample=("N",)):
    """the arrays handed to the batch iterator are iterated TOGETHER (zipped row by row, or sliced with the same windows): each has one
    entry per sample.  An array with a single entry (a scalar promoted by np.atleast_1d, not broadcast to the number of samples) ends the
    zipped iteration after the first sample and leaves the remaining result rows at their initial value."""
    entry = entry or res.entry
    n = 0
    for ev in res.events("call"):
        if ev.d["callee"].name != "batched_iteration" or not ev.d["args"]:
            continue
        its = ev.d["args"][1] if len(ev.d["args"]) > 1 else ev.d["kws"].get("iter_arrays")
        fn = ev.d["callee"]
        bound = dict(ev.d["kws"])
        for i, a in enumerate(ev.d["args"]):
            if i < len(fn.params):
                bound.setdefault(fn.params[i], a)
        its = bound.get("iter_arrays")
        if its is None or its.items is None:
            continue
        for k, it in enumerate(its.items):
            sh = it.flat().shape
            if sh is None or sh.ell or not sh.axes or sh.axes[0] is None:
                continue
            n += 1
            ok = sh.axes[0] == sample or sample[0] in sh.axes[0]
            rep.check(rule, "arrays iterated with the targets have one entry per sample", ok, where=ev.loc,
                      construct=f"iter_arrays[{k}] of {ev.text()[:60]}", entry=entry, config=res.config,
                      msg=f"an array of shape {sh} is iterated together with the per-sample targets: with a single entry the zipped iteration "
                          f"stops after the first sample (batch_size=1) and the remaining rows of the result keep their initial zeros; other "
                          f"batch sizes fail on the shape")
    return n


def rule_count_denominator(rep, res, entry=None, rule="R-VALUE", counts=("n", "num", "n_samples", "n_points", "steps", "n_steps", "size")):
    """a quotient whose denominator is `count − c` (c a positive literal) for a count PARAMETER of the function is a division by zero for
    count = c (np.linspace and friends handle a single point; a hand-written step does not) unless the function tests that parameter
    before.  Decided on the syntax of every function the analysed path reaches."""
    import ast as _ast
    entry = entry or res.entry
    fns = {ev.d["callee"] for ev in res.events("call")} | {res.fn}
    n_inst = 0
    for fn in sorted(fns, key=lambda f: f.qual):
        args = fn.node.args
        params = {a.arg for a in args.posonlyargs + args.args + args.kwonlyargs} & set(counts)
        if not params:
            continue
        guarded = set()
        for n in _ast.walk(fn.node):
            if isinstance(n, (_ast.If, _ast.Assert, _ast.IfExp, _ast.While)):
                for c in _ast.walk(n.test):
                    if isinstance(c, _ast.Compare):
                        guarded |= {x.id for x in _ast.walk(c) if isinstance(x, _ast.Name)} & params
        # locals that hold `count - c`
        minus = {}
        def is_minus(e):
            return isinstance(e, _ast.BinOp) and isinstance(e.op, _ast.Sub) and isinstance(e.left, _ast.Name) and e.left.id in params \
                and isinstance(e.right, _ast.Constant) and isinstance(e.right.value, int) and e.right.value > 0
        for n in _ast.walk(fn.node):
            if isinstance(n, _ast.Assign) and len(n.targets) == 1 and isinstance(n.targets[0], _ast.Name) and is_minus(n.value):
                minus[n.targets[0].id] = n.value
        for n in _ast.walk(fn.node):
            den = n.right if isinstance(n, _ast.BinOp) and isinstance(n.op, (_ast.Div, _ast.FloorDiv, _ast.Mod)) else \
                n.value if isinstance(n, _ast.AugAssign) and isinstance(n.op, (_ast.Div, _ast.FloorDiv, _ast.Mod)) else None
            if den is None:
                continue
            hit = den if is_minus(den) else minus.get(den.id) if isinstance(den, _ast.Name) else None
            if hit is None:
                continue
            n_inst += 1
            p_ = hit.left.id
            if p_ in guarded:
                rep.holds(rule, "count − c as a denominator is guarded", where=fn.loc(n), construct=norm_text(n)[:90], entry=entry,
                          config=res.config, msg=f"`{p_}` is tested in {fn.name}")
            else:
                rep.violated(rule, "count − c as a denominator is guarded", where=fn.loc(n), construct=norm_text(n)[:90], entry=entry,
                             config=res.config,
                             msg=f"`{norm_text(hit)}` divides although `{p_}` = {hit.right.value} is an admissible count: the step is a division "
                                 f"by zero (inf/NaN intensities, or ZeroDivisionError) where a single point is well defined")
    return n_inst


_PROGRESS_WRAPPERS = {"tqdm", "trange", "track", "progress_bar"}


def rule_display_neutral(rep, res, entry=None, rule="R-NOFLOW"):
    """a display setting (`verbose`) wraps an iteration in a progress bar and selects nothing else: in `bar(IT, …) if verbose else IT'`
    the two iterables must be the same expression (after inlining the function's single-assignment locals).  Decided on the syntax of
    every function the analysed path reaches; only selections where one side carries a progress wrapper are instances."""
    import ast as _ast
    entry = entry or res.entry
    fns = {ev.d["callee"] for ev in res.events("call")} | {res.fn}
    n_inst = 0
    for fn in sorted(fns, key=lambda f: f.qual):
        args = fn.node.args
        params = {a.arg for a in args.posonlyargs + args.args + args.kwonlyargs}
        disp = {p for p in params if p in ("verbose", "progress", "show_progress", "progressbar")}
        if not disp:
            continue
        assigns = {}
        for n in _ast.walk(fn.node):
            if isinstance(n, _ast.Assign) and len(n.targets) == 1 and isinstance(n.targets[0], _ast.Name):
                assigns.setdefault(n.targets[0].id, []).append(n.value)
            elif isinstance(n, (_ast.AugAssign, _ast.For, _ast.comprehension)):
                for t in _ast.walk(n.target):
                    if isinstance(t, _ast.Name):
                        assigns.setdefault(t.id, []).extend([None, None])
        single = {k: v[0] for k, v in assigns.items() if len(v) == 1 and v[0] is not None and k not in params}

        def expand(node, depth=0):
            class T(_ast.NodeTransformer):
                def visit_Name(self, n):
                    if isinstance(n.ctx, _ast.Load) and n.id in single and depth < 4:
                        return expand(single[n.id], depth + 1)
                    return n
            import copy
            return T().visit(copy.deepcopy(node))

        def strip(node):
            if isinstance(node, _ast.Call):
                f = node.func
                nm = f.id if isinstance(f, _ast.Name) else f.attr if isinstance(f, _ast.Attribute) else None
                if nm in _PROGRESS_WRAPPERS and node.args:
                    return node.args[0], True
            return node, False

        pairs = []
        for n in _ast.walk(fn.node):
            if isinstance(n, _ast.IfExp) and {x.id for x in _ast.walk(n.test) if isinstance(x, _ast.Name)} & disp:
                pairs.append((n, n.body, n.orelse))
            elif isinstance(n, _ast.If) and n.orelse and {x.id for x in _ast.walk(n.test) if isinstance(x, _ast.Name)} & disp \
                    and len(n.body) == 1 and len(n.orelse) == 1 and all(
                        isinstance(b, _ast.Assign) and len(b.targets) == 1 and isinstance(b.targets[0], _ast.Name) for b in (n.body[0], n.orelse[0])) \
                    and n.body[0].targets[0].id == n.orelse[0].targets[0].id:
                pairs.append((n, n.body[0].value, n.orelse[0].value))
        for node, a, b in pairs:
            a0, wa = strip(a)
            b0, wb = strip(b)
            if not (wa or wb):
                continue
            n_inst += 1
            ta, tb = norm_text(expand(a0)), norm_text(expand(b0))
            if ta == tb:
                rep.holds(rule, "progress display selects nothing but the display", where=fn.loc(node), construct=norm_text(node)[:100],
                          entry=entry, config=res.config, msg=f"both sides iterate over `{ta[:80]}`")
            else:
                rep.violated(rule, "progress display selects nothing but the display", where=fn.loc(node), construct=norm_text(node)[:100],
                             entry=entry, config=res.config,
                             msg=f"with the progress bar the loop runs over `{ta[:90]}`, without it over `{tb[:90]}`: the display setting "
                                 f"`{', '.join(sorted(disp))}` changes which batches are solved")
    return n_inst


def rule_block_cover(rep, res, entry=None, rule="R-COVER"):
    """a result buffer filled block by block — `for i in range(n // k): buf[i*k:(i+1)*k] = …` — covers only the ⌊n/k⌋ full blocks:
    the trailing n mod k entries keep their initial value (NaN / 0) unless the remainder is handled after the loop or the trip count
    is rounded up.  Decided on the syntax of every function the analysed path reaches."""
    import ast as _ast
    entry = entry or res.entry
    fns = {ev.d["callee"] for ev in res.events("call")} | {res.fn}
    seen = set()
    for fn in sorted(fns, key=lambda f: f.qual):
        body_lists = [n.body for n in _ast.walk(fn.node) if hasattr(n, "body") and isinstance(getattr(n, "body"), list)]
        body_lists += [n.orelse for n in _ast.walk(fn.node) if isinstance(getattr(n, "orelse", None), list) and n.orelse]
        for body in body_lists:
            for pos, st in enumerate(body):
                if not (isinstance(st, _ast.For) and isinstance(st.target, _ast.Name) and isinstance(st.iter, _ast.Call)
                        and isinstance(st.iter.func, _ast.Name) and st.iter.func.id == "range" and len(st.iter.args) == 1):
                    continue
                fd = [n for n in _ast.walk(st.iter.args[0]) if isinstance(n, _ast.BinOp) and isinstance(n.op, _ast.FloorDiv)]
                if not fd:
                    continue
                block = norm_text(fd[0].right)
                # rounded-up trip counts: -(-n // k), (n + k - 1) // k, n // k + 1, n // k + (n % k > 0)
                left = fd[0].left
                arg_txt = norm_text(st.iter.args[0])
                if (isinstance(left, _ast.UnaryOp) and isinstance(left.op, _ast.USub)) or block in norm_text(left) \
                        or "%" in arg_txt or "+ 1" in arg_txt or "ceil" in arg_txt:
                    continue
                i = st.target.id
                # slices i*block:(i+1)*block, written inline or through `sl = slice(i*block, (i+1)*block)`
                def is_block_slice(lo, hi):
                    return lo is not None and hi is not None and i in {n.id for n in _ast.walk(lo) if isinstance(n, _ast.Name)} \
                        and block in norm_text(lo) and block in norm_text(hi)
                slnames = set()
                for n in _ast.walk(st):
                    if isinstance(n, _ast.Assign) and isinstance(n.value, _ast.Call) and isinstance(n.value.func, _ast.Name) \
                            and n.value.func.id == "slice" and len(n.value.args) == 2 and is_block_slice(*n.value.args):
                        slnames |= {t.id for t in n.targets if isinstance(t, _ast.Name)}
                stored = set()
                for n in _ast.walk(st):
                    if isinstance(n, _ast.Subscript) and isinstance(n.ctx, _ast.Store) and isinstance(n.value, _ast.Name):
                        sl = n.slice
                        if (isinstance(sl, _ast.Slice) and is_block_slice(sl.lower, sl.upper)) or (isinstance(sl, _ast.Name) and sl.id in slnames):
                            stored.add(n.value.id)
                if not stored:
                    continue
                # remainder handled after the loop: a later store into the same buffer through a slice
                later = set()
                for st2 in body[pos + 1:]:
                    for n in _ast.walk(st2):
                        if isinstance(n, _ast.Subscript) and isinstance(n.ctx, _ast.Store) and isinstance(n.value, _ast.Name) and n.value.id in stored:
                            later.add(n.value.id)
                for buf in sorted(stored - later):
                    k = (fn.qual, st.lineno, buf)
                    if k in seen:
                        continue
                    seen.add(k)
                    rep.violated(rule, "block-wise filling covers the whole buffer", where=fn.loc(st), construct=norm_text(st.iter)[:80] + f" → {buf}[block]",
                                 entry=entry, config=res.config,
                                 msg=f"`{buf}` is filled in blocks of {block} over range({norm_text(st.iter.args[0])}): only the full blocks are visited, "
                                     f"the trailing (n mod {block}) entries keep their initial value and silently take part in the following reduction")
    # step form: `for s in range(0, STOP, k): buf[s : s + k] = …` covers everything iff STOP is the full extent (the last slice is
    # clipped); a STOP shortened by the block size (`n - k + 1`, `n - k`) visits only the full blocks
    for fn in sorted(fns, key=lambda f: f.qual):
        for st in _ast.walk(fn.node):
            if not (isinstance(st, _ast.For) and isinstance(st.target, _ast.Name) and isinstance(st.iter, _ast.Call)
                    and isinstance(st.iter.func, _ast.Name) and st.iter.func.id == "range" and len(st.iter.args) == 3):
                continue
            start, stop, step = st.iter.args
            if not (isinstance(start, _ast.Constant) and start.value == 0):
                continue
            block = norm_text(step)
            if isinstance(step, _ast.Constant) or not isinstance(stop, _ast.BinOp):
                continue
            subs_block = any(isinstance(n, _ast.BinOp) and isinstance(n.op, _ast.Sub) and block in norm_text(n.right) for n in _ast.walk(stop))
            if not subs_block:
                continue
            i = st.target.id
            stored = set()
            for n in _ast.walk(st):
                if isinstance(n, _ast.Subscript) and isinstance(n.ctx, _ast.Store) and isinstance(n.value, _ast.Name):
                    sl = n.slice.elts[-1] if isinstance(n.slice, _ast.Tuple) and n.slice.elts else n.slice
                    if isinstance(sl, _ast.Slice) and sl.lower is not None and sl.upper is not None and norm_text(sl.lower) == i \
                            and block in norm_text(sl.upper):
                        stored.add(n.value.id)
            for buf in sorted(stored):
                k = (fn.qual, st.lineno, buf)
                if k in seen:
                    continue
                seen.add(k)
                rep.violated(rule, "block-wise filling covers the whole buffer", where=fn.loc(st), construct=norm_text(st.iter)[:80] + f" → {buf}[block]",
                             entry=entry, config=res.config,
                             msg=f"`{buf}` is filled in blocks of {block} over {norm_text(st.iter)}: the stop is shortened by the block size, so the "
                                 f"trailing partial block is never visited and its entries keep their initial value")
    return len(seen)


def rule_every_iteration_reaches(rep, res, kind, what, entry=None, fn_name=None, rule="R-TYPESTATE"):
    """no iteration of the loop that contains the `kind` event (e.g. the interpolator construction) is skipped by a `continue` under a
    guard the configuration leaves undecided: every element of the iterated sequence goes through that step"""
    entry = entry or res.entry
    keyevs = [ev for ev in res.events(kind) if ev.loops and (fn_name is None or ev.fn.name == fn_name)]
    done = set()
    for kv in keyevs:
        loop = kv.loops[-1]
        if loop in done:
            continue
        done.add(loop)
        skips = [c for c in res.events("continue") if c.loops and c.loops[-1] == loop and c.fn is kv.fn and c.node.lineno < kv.node.lineno]
        for c in skips:
            und = [g[0] for g in c.guards if len(g) > 3 and not g[3]]
            rep.violated(rule, f"every element of the loop goes through {what}", where=c.loc, construct=f"continue before {norm_text(kv.node)[:50]}",
                         entry=entry, config=res.config,
                         msg=f"under the guard {und} the iteration is skipped before {what}: that element is handed on unprocessed")
        if not skips:
            rep.holds(rule, f"every element of the loop goes through {what}", where=kv.loc, construct=norm_text(kv.node)[:60], entry=entry,
                      config=res.config)


# ------------------------------------------------------------------ index spaces (def-use over the syntax tree of every reached function)
_POS_FUNCS = {"flatnonzero", "nonzero", "where", "argwhere", "argsort", "argmin", "argmax"}
_MASK_FUNCS = {"all", "any", "isfinite", "isnan", "isinf", "isclose", "logical_and", "logical_or", "logical_not", "isin"}


def rule_index_space(rep, res, entry=None, rule="R-SHAPE"):
    """positions computed in a FILTERED array (np.flatnonzero / where / argsort … of something derived from Y[mask]) index only arrays
    that went through the same filter: row k of Y[mask] is not row k of Y.  Decided per reached function by def-use over its local
    names (all assignments of a name are merged; unknown provenance = no filter)."""
    entry = entry or res.entry
    model = res.ctx.model
    n = 0
    for q in sorted(res.ctx.calls_seen):
        mod, _, name = q.partition(":")
        fn = model.method(mod, *name.split(".")) if "." in name else model.func(mod, name)
        if fn is None:
            continue
        assigns = {}
        for st in ast.walk(fn.node):
            if isinstance(st, ast.Assign):
                for t in st.targets:
                    if isinstance(t, ast.Name):
                        assigns.setdefault(t.id, []).append(st.value)
                    elif isinstance(t, ast.Tuple) and isinstance(st.value, ast.Tuple) and len(t.elts) == len(st.value.elts):
                        for a_, b_ in zip(t.elts, st.value.elts):
                            if isinstance(a_, ast.Name):
                                assigns.setdefault(a_.id, []).append(b_)
            elif isinstance(st, ast.AugAssign) and isinstance(st.target, ast.Name):
                assigns.setdefault(st.target.id, []).append(st.value)

        def is_mask(x, seen=()):
            if isinstance(x, ast.Compare):
                return True
            if isinstance(x, ast.UnaryOp) and isinstance(x.op, ast.Invert):
                return is_mask(x.operand, seen)
            if isinstance(x, ast.BinOp) and isinstance(x.op, (ast.BitAnd, ast.BitOr)):
                return is_mask(x.left, seen) and is_mask(x.right, seen)
            if isinstance(x, ast.Call) and isinstance(x.func, ast.Attribute) and x.func.attr in _MASK_FUNCS:
                return True
            if isinstance(x, ast.Name) and x.id not in seen and x.id in assigns:
                return all(is_mask(v, seen + (x.id,)) for v in assigns[x.id])
            return False

        def filters(x, line, seen=frozenset()):
            """keys of the row masks through which the ROWS of x are derived (index expressions select, they are not followed; only
            assignments textually before `line` count)"""
            out = set()
            stack = [x]
            while stack:
                sub = stack.pop()
                if isinstance(sub, ast.Subscript):
                    sl = sub.slice
                    el0 = sl.elts[0] if isinstance(sl, ast.Tuple) and sl.elts else sl
                    if not isinstance(el0, ast.Slice) and is_mask(el0):
                        out.add(norm_text(el0))
                    stack.append(sub.value)
                    continue
                if isinstance(sub, ast.Name):
                    if sub.id in assigns and sub.id not in seen:
                        for v in assigns[sub.id]:
                            if getattr(v, "lineno", 0) < line:
                                out |= filters(v, getattr(v, "lineno", line), seen | {sub.id})
                    continue
                stack.extend(ast.iter_child_nodes(sub))
            return out

        pos = {}
        for nm, vals in assigns.items():
            for v in vals:
                c = v.value if isinstance(v, ast.Subscript) else v
                if isinstance(c, ast.Call) and isinstance(c.func, ast.Attribute) and c.func.attr in _POS_FUNCS and len(c.args) == 1:
                    f_ = filters(c.args[0], c.lineno)
                    if f_ and len(vals) == 1:
                        pos[nm] = (f_, c)
        if not pos:
            continue
        for sub in ast.walk(fn.node):
            if not isinstance(sub, ast.Subscript):
                continue
            elts = sub.slice.elts if isinstance(sub.slice, ast.Tuple) else [sub.slice]
            for el in elts:
                if isinstance(el, ast.Name) and el.id in pos:
                    need, c = pos[el.id]
                    have = filters(sub.value, sub.lineno)
                    n += 1
                    ok = need <= have
                    rep.check(rule, "positions found in a filtered array index arrays filtered the same way", ok, where=fn.loc(sub),
                              construct=norm_text(sub)[:80], entry=entry, config=res.config,
                              msg=f"`{el.id}` holds positions within rows selected by `{', '.join(sorted(need))}` ({norm_text(c)[:60]}), but it indexes "
                                  f"`{norm_text(sub.value)[:40]}`, which was not filtered by that mask: position k of the filtered rows is a different "
                                  f"row of the unfiltered array whenever a row was filtered out before it")
    return n


def rule_pair_orientation(rep, res, entry=None, rule="R-COVER"):
    """every unordered pair is considered: inside a loop over itertools.combinations(x, 2) — each unordered pair ONCE — a skip guarded by
    an order test between the two members (f[i] > f[j]) drops the pair for good; the same test inside a loop over ordered pairs
    (product(x, x)) merely selects the orientation."""
    entry = entry or res.entry
    model = res.ctx.model
    n = 0
    for q in sorted(res.ctx.calls_seen):
        mod, _, name = q.partition(":")
        fn = model.method(mod, *name.split(".")) if "." in name else model.func(mod, name)
        if fn is None:
            continue
        for loop in ast.walk(fn.node):
            if not (isinstance(loop, ast.For) and isinstance(loop.iter, ast.Call) and isinstance(loop.target, ast.Tuple)
                    and len(loop.target.elts) == 2 and all(isinstance(t, ast.Name) for t in loop.target.elts)):
                continue
            f = loop.iter.func
            fname = f.attr if isinstance(f, ast.Attribute) else (f.id if isinstance(f, ast.Name) else "")
            if fname != "combinations" or len(loop.iter.args) != 2 or not (isinstance(loop.iter.args[1], ast.Constant) and loop.iter.args[1].value == 2):
                continue
            a, b = (t.id for t in loop.target.elts)
            n += 1
            bad = None
            for st in ast.walk(loop):
                if not (isinstance(st, ast.If) and isinstance(st.test, ast.Compare) and len(st.test.ops) == 1
                        and isinstance(st.test.ops[0], (ast.Gt, ast.Lt, ast.GtE, ast.LtE))):
                    continue
                lt, rt = norm_text(st.test.left), norm_text(st.test.comparators[0])
                import re as _re
                swap = _re.sub(rf"\b({a}|{b})\b", lambda m: b if m.group(1) == a else a, lt)
                if swap == rt and lt != rt and any(isinstance(x, ast.Continue) for x in st.body):
                    bad = st
                    break
            rep.check(rule, "no unordered pair is dropped by an order test", bad is None, where=fn.loc(bad if bad is not None else loop),
                      construct=norm_text(bad.test if bad is not None else loop.iter)[:80], entry=entry, config=res.config,
                      msg="pairs are enumerated once each (combinations(…, 2)) and a pair is skipped when its members are in the 'wrong' order: "
                          "pairs that arrive in that order are never considered (with ordered pairs the test only picks the orientation)")
    return n


def rule_facet_pairs(rep, model, mod="dreye.api.project", entry=None, rule="R-COVER"):
    """the slice of a hull at a given total is spanned by the crossing points of ALL its edges; the edges are the pairs of vertices of
    each facet (every pair of a simplicial facet is an edge).  A loop over the facets (`for e in hull.simplices`) must therefore visit
    every pair of e — `product(e, e)`, `combinations(e, 2)`, `permutations(e, 2)` or two nested loops — not only consecutive vertices
    (`zip(e, np.roll(e, -1))`, `zip(e[:-1], e[1:])`), which is complete for triangles only."""
    n_inst = 0
    fns = [f for f in model.all_funcs() if f.module.name == mod]
    for fn in fns:
        for outer in ast.walk(fn.node):
            if not (isinstance(outer, ast.For) and isinstance(outer.target, ast.Name)
                    and any(isinstance(x, ast.Attribute) and x.attr == "simplices" for x in ast.walk(outer.iter))):
                continue
            e = outer.target.id
            # names computed from the facet inside the loop (`below = [i for i in e if …]`) stand for (parts of) the facet
            derived = {e}
            for _ in range(3):
                for a in ast.walk(outer):
                    if isinstance(a, ast.Assign) and len(a.targets) == 1 and isinstance(a.targets[0], ast.Name) \
                            and derived & {x.id for x in ast.walk(a.value) if isinstance(x, ast.Name)}:
                        derived.add(a.targets[0].id)
            def over_e(node):
                return bool(derived & {x.id for x in ast.walk(node) if isinstance(x, ast.Name)})
            for inner in ast.walk(outer):
                if inner is outer or not isinstance(inner, ast.For) or not over_e(inner.iter):
                    continue
                tg = inner.target
                it = inner.iter
                where = fn.loc(inner)
                ent = entry or fn.name
                if isinstance(tg, ast.Tuple) and len(tg.elts) == 2:
                    n_inst += 1
                    nm = None
                    if isinstance(it, ast.Call):
                        nm = it.func.id if isinstance(it.func, ast.Name) else it.func.attr if isinstance(it.func, ast.Attribute) else None
                    if nm in ("product", "combinations", "permutations", "combinations_with_replacement"):
                        rep.holds(rule, "every pair of a facet's vertices is visited", where=where, construct=norm_text(it)[:80], entry=ent)
                    elif nm in ("zip", "pairwise"):
                        rep.violated(rule, "every pair of a facet's vertices is visited", where=where, construct=norm_text(it)[:80], entry=ent,
                                     msg="only consecutive vertices of each facet are paired: a facet of a hull in ≥ 4 dimensions is a simplex with "
                                         "more edges than vertices, so edges (and their crossing points with the requested total) are lost — the "
                                         "slice is a strict subset of the gamut's slice")
                    else:
                        rep.undecided(rule, "every pair of a facet's vertices is visited", where=where, construct=norm_text(it)[:80], entry=ent)
                elif isinstance(tg, ast.Name) and any(isinstance(x, ast.For) and x is not inner and isinstance(x.target, ast.Name) and over_e(x.iter)
                                                      for x in ast.walk(inner)):
                    n_inst += 1
                    rep.holds(rule, "every pair of a facet's vertices is visited", where=where, construct="nested loops over " + e, entry=ent)
                # only edges that CROSS the requested total contribute a point: each yielded pair is selected by a test of its two ends
                # against the total (or drawn from the two sides to begin with); a pair on one side is extrapolated outside the hull
                if isinstance(tg, ast.Tuple) and len(tg.elts) == 2 and all(isinstance(x, ast.Name) for x in tg.elts):
                    others = [a.arg for a in fn.node.args.args[1:]]
                    side = set(others)
                    for _ in range(4):
                        for a in ast.walk(fn.node):
                            if isinstance(a, ast.Assign) and len(a.targets) == 1 and isinstance(a.targets[0], ast.Name) \
                                    and side & {x.id for x in ast.walk(a.value) if isinstance(x, ast.Name)}:
                                side.add(a.targets[0].id)
                    ij = {x.id for x in tg.elts}
                    yields = [y for y in ast.walk(inner) if isinstance(y, (ast.Yield, ast.YieldFrom))]
                    if yields and others:
                        tests = [t.test for t in ast.walk(inner) if isinstance(t, ast.If)]
                        sel = [t for t in tests if (side & {x.id for x in ast.walk(t) if isinstance(x, ast.Name)})
                               and (ij & {x.id for x in ast.walk(t) if isinstance(x, ast.Name)})]
                        from_sides = bool(side & {x.id for x in ast.walk(it) if isinstance(x, ast.Name)} - {e})
                        rep.check(rule, "only pairs on opposite sides of the total are intersected with it", bool(sel) or from_sides, where=where,
                                  construct=norm_text(it)[:80], entry=ent,
                                  msg=f"no test inside the pair loop compares the two ends ({', '.join(sorted(ij))}) with the requested total "
                                      f"(`{'`, `'.join(others)}`): pairs with both ends on the same side are yielded too, and the line through them "
                                      f"is extrapolated to the total — a point outside the hull")
    return n_inst


def rule_alias(rep, model, mod, cls, alias, target, entry=None, rule="R-FORWARD"):
    """an alias method (`def in_gamut(self, …): return self.in_hull(…)`) hands on EVERYTHING it accepts: `*args, **kwargs` as they are,
    or every named parameter of its own signature under the same name (or in the target's position)."""
    fn, tg = model.method(mod, cls, alias), model.method(mod, cls, target)
    entry = entry or f"{cls}.{alias}"
    if fn is None or tg is None:
        rep.undecided(rule, f"alias {alias} → {target}", where=f"{mod.replace('.', '/')}.py", construct=f"{alias} / {target}", entry=entry)
        return
    calls = [n for n in ast.walk(fn.node) if isinstance(n, ast.Call) and isinstance(n.func, ast.Attribute) and n.func.attr == target
             and isinstance(n.func.value, ast.Name) and n.func.value.id == "self"]
    if not calls:
        rep.violated(rule, f"alias {alias} forwards to {target}", where=fn.loc(), construct=f"def {alias}", entry=entry,
                     msg=f"the alias does not call self.{target}")
        return
    a = fn.node.args
    own = [x.arg for x in a.posonlyargs + a.args if x.arg != "self"] + [x.arg for x in a.kwonlyargs]
    tparams = [p for p in tg.params if p != "self"]
    for c in calls:
        star = any(isinstance(x, ast.Starred) for x in c.args)
        dstar = any(k.arg is None for k in c.keywords)
        passed = set()
        for i, x in enumerate(c.args):
            if isinstance(x, ast.Name) and i < len(tparams) and not isinstance(x, ast.Starred):
                passed.add(x.id)
        for k in c.keywords:
            if k.arg is not None and isinstance(k.value, ast.Name):
                passed.add(k.value.id)
        missing = [p for p in own if p not in passed]
        ok = (not missing) and (a.vararg is None or star) and (a.kwarg is None or dstar)
        rep.check(rule, f"alias {alias} forwards everything it accepts to {target}", ok, where=fn.loc(c), construct=norm_text(c)[:80], entry=entry,
                  msg=f"the alias accepts {missing or ['*args/**kwargs']} but does not hand {'them' if len(missing) != 1 else 'it'} on: the target's "
                      f"default is used whatever the caller passes (e.g. relative=False is silently ignored)")


def rule_full_block_count(rep, res, entry=None, rule="R-COVER"):
    """a function that handles the remainder `n % k` separately iterates over exactly ⌊n / k⌋ full blocks: a trip count obtained by ROUNDING
    the quotient (round / rint / around / ceil of n / k) visits one block too many whenever the remainder is at least half a block —
    the last 'full' block then reads past the end (a short slice) and the remainder is handled a second time.  Decided on the syntax of
    every reached function that computes a remainder."""
    import ast as _ast
    entry = entry or res.entry
    fns = {ev.d["callee"] for ev in res.events("call")} | {res.fn}
    n_inst = 0
    for fn in sorted(fns, key=lambda f: f.qual):
        mods = [(norm_text(n.left), norm_text(n.right)) for n in _ast.walk(fn.node) if isinstance(n, _ast.BinOp) and isinstance(n.op, _ast.Mod)
                and not isinstance(n.left, _ast.Constant)]
        if not mods:
            continue
        local = {}
        for n in _ast.walk(fn.node):
            if isinstance(n, _ast.Assign) and len(n.targets) == 1 and isinstance(n.targets[0], _ast.Name):
                local.setdefault(n.targets[0].id, []).append(n.value)
        def expand(node, depth=0):
            out = [node]
            if depth < 2:
                for m in _ast.walk(node):
                    if isinstance(m, _ast.Name) and len(local.get(m.id, [])) == 1:
                        out += expand(local[m.id][0], depth + 1)
            return out
        for c in _ast.walk(fn.node):
            if not (isinstance(c, _ast.Call) and isinstance(c.func, _ast.Name) and c.func.id == "range" and len(c.args) == 1):
                continue
            for ex in expand(c.args[0]):
                for q in _ast.walk(ex):
                    if not (isinstance(q, _ast.BinOp) and isinstance(q.op, (_ast.Div, _ast.FloorDiv))
                            and (norm_text(q.left), norm_text(q.right)) in mods):
                        continue
                    n_inst += 1
                    wrappers = {(w.func.attr if isinstance(w.func, _ast.Attribute) else getattr(w.func, "id", "")) for w in _ast.walk(ex)
                                if isinstance(w, _ast.Call) and any(x is q for x in _ast.walk(w))}
                    bad = wrappers & {"round", "rint", "around", "round_", "ceil"}
                    if isinstance(q.op, _ast.Div) and bad:
                        rep.violated(rule, "the loop over full blocks runs ⌊n / k⌋ times", where=fn.loc(c), construct=norm_text(ex)[:80], entry=entry,
                                     config=res.config,
                                     msg=f"the number of full blocks is `{norm_text(ex)[:70]}` ({'/'.join(sorted(bad))} of the quotient) while the remainder "
                                         f"`{mods[0][0]} % {mods[0][1]}` is handled separately: when the remainder is at least half a block one block too "
                                         f"many is taken, reading past the last sample")
                    else:
                        rep.holds(rule, "the loop over full blocks runs ⌊n / k⌋ times", where=fn.loc(c), construct=norm_text(ex)[:80], entry=entry,
                                  config=res.config)
    return n_inst
