"""Program model of /repo/dreye: modules, imports (with try/except alternatives),
functions, classes, module-level constants and aliases.  Pure `ast`; never imports dreye."""
from __future__ import annotations
import ast
import hashlib
import os
import pathlib

REPO = pathlib.Path(os.environ.get("DREYE_REPO", "/repo"))
PKG = "dreye"


class FuncInfo:
    def __init__(self, module, node, cls=None):
        self.module = module
        self.node = node
        self.cls = cls
        self.name = node.name
        self.qual = f"{module.name}:{cls + '.' if cls else ''}{node.name}"
        a = node.args
        self.params = [p.arg for p in a.posonlyargs + a.args]
        self.kwonly = [p.arg for p in a.kwonlyargs]
        self.vararg = a.vararg.arg if a.vararg else None
        self.kwarg = a.kwarg.arg if a.kwarg else None
        nd = len(a.defaults)
        self.defaults = dict(zip(self.params[len(self.params) - nd:], a.defaults))
        for p, d in zip(self.kwonly, a.kw_defaults):
            if d is not None:
                self.defaults[p] = d
        self.is_generator = any(isinstance(n, (ast.Yield, ast.YieldFrom)) for n in ast.walk(node))
        self.is_property = any(isinstance(d, ast.Name) and d.id == "property" for d in node.decorator_list)

    @property
    def file(self):
        return self.module.relpath

    def loc(self, node=None):
        return f"{self.module.relpath}:{(node or self.node).lineno}"

    def __repr__(self):
        return f"<Func {self.qual}>"


class Module:
    def __init__(self, name, path, relpath, src):
        self.name = name
        self.path = path
        self.relpath = relpath
        self.src = src
        self.tree = ast.parse(src, filename=str(path))
        self.imports = {}        # local name -> list of alternatives: ('mod', dotted) | ('from', dotted_mod, attr)
        self.funcs = {}
        self.classes = {}        # name -> {method name: FuncInfo}
        self.consts = {}         # module-level NAME = expr (ast)
        self.import_guards = {}  # local name -> set of exception names guarding the import
        self._scan()

    def _add_import(self, local, alt, guards=()):
        self.imports.setdefault(local, []).append(alt)
        if guards:
            self.import_guards.setdefault(local, set()).update(guards)

    def _scan_import(self, n, guards=()):
        if isinstance(n, ast.Import):
            for a in n.names:
                local = a.asname or a.name.split(".")[0]
                target = a.name if a.asname else a.name.split(".")[0]
                self._add_import(local, ("mod", target), guards)
        elif isinstance(n, ast.ImportFrom):
            mod = n.module or ""
            if n.level:
                base = self.name.split(".")
                base = base[: len(base) - n.level]
                mod = ".".join(base + ([mod] if mod else []))
            for a in n.names:
                self._add_import(a.asname or a.name, ("from", mod, a.name), guards)

    def _scan(self):
        for n in self.tree.body:
            if isinstance(n, (ast.Import, ast.ImportFrom)):
                self._scan_import(n)
            elif isinstance(n, ast.Try):
                caught = set()
                for h in n.handlers:
                    t = h.type
                    names = [t] if not isinstance(t, ast.Tuple) else list(t.elts)
                    for x in names:
                        if isinstance(x, ast.Name):
                            caught.add(x.id)
                        elif x is None:
                            caught.add("BaseException")
                for s in n.body:
                    if isinstance(s, (ast.Import, ast.ImportFrom)):
                        self._scan_import(s, caught)
                for h in n.handlers:
                    for s in h.body:
                        if isinstance(s, (ast.Import, ast.ImportFrom)):
                            self._scan_import(s, caught)
            elif isinstance(n, ast.FunctionDef):
                self.funcs[n.name] = FuncInfo(self, n)
            elif isinstance(n, ast.ClassDef):
                ms = {}
                for m in n.body:
                    if isinstance(m, ast.FunctionDef):
                        ms[m.name] = FuncInfo(self, m, cls=n.name)
                self.classes[n.name] = ms
            elif isinstance(n, ast.Assign) and len(n.targets) == 1 and isinstance(n.targets[0], ast.Name):
                self.consts[n.targets[0].id] = n.value
            elif isinstance(n, ast.AnnAssign) and isinstance(n.target, ast.Name) and n.value is not None:
                self.consts[n.target.id] = n.value


class Model:
    def __init__(self, repo=None, overrides=None):
        """overrides: {relative path: source text} — in-memory variants of files (sensitivity sweep); nothing is written."""
        self.overrides = dict(overrides or {})
        self.repo = pathlib.Path(repo or REPO)
        self.modules = {}
        self.digest = hashlib.sha256()
        root = self.repo / PKG
        if not root.is_dir():
            raise FileNotFoundError(f"{root} not found")
        for p in sorted(root.rglob("*.py")):
            rel = p.relative_to(self.repo)
            parts = list(rel.with_suffix("").parts)
            if parts[-1] == "__init__":
                parts = parts[:-1]
            name = ".".join(parts)
            src = self.overrides.get(str(rel)) if str(rel) in self.overrides else p.read_text()
            self.digest.update(str(rel).encode() + b"\0" + src.encode())
            try:
                self.modules[name] = Module(name, p, str(rel), src)
            except SyntaxError as ex:       # a file that does not compile: the tree is not a valid input
                raise
        self.digest = self.digest.hexdigest()

    # ------------------------------------------------------------ lookup
    def module(self, name):
        return self.modules.get(name)

    def func(self, modname, fname):
        """Resolve a function through re-exports/aliases.  Returns FuncInfo or None."""
        seen = set()
        while (modname, fname) not in seen:
            seen.add((modname, fname))
            m = self.modules.get(modname)
            if m is None:
                return None
            if fname in m.funcs:
                return m.funcs[fname]
            if fname in m.consts and isinstance(m.consts[fname], ast.Name):   # alias = other
                fname = m.consts[fname].id
                continue
            if fname in m.imports:
                alt = m.imports[fname][0]
                if alt[0] == "from":
                    modname, fname = alt[1], alt[2]
                    continue
            return None
        return None

    def method(self, modname, cls, mname):
        m = self.modules.get(modname)
        if m and cls in m.classes:
            return m.classes[cls].get(mname)
        return None

    def resolve_name(self, module, name):
        """What does global `name` denote in `module`?
        -> ('func', FuncInfo) | ('class', modname, clsname) | ('ext', dotted) | ('const', ast, module) | None"""
        if name in module.funcs:
            return ("func", module.funcs[name])
        if name in module.classes:
            return ("class", module.name, name)
        if name in module.consts:
            v = module.consts[name]
            if isinstance(v, ast.Name) and v.id != name:
                return self.resolve_name(module, v.id)
            return ("const", v, module)
        if name in module.imports:
            for alt in module.imports[name]:
                if alt[0] == "mod":
                    if alt[1].split(".")[0] == PKG:
                        return ("repomod", alt[1])
                    return ("ext", alt[1])
                modname, attr = alt[1], alt[2]
                if modname.split(".")[0] == PKG:
                    tm = self.modules.get(modname)
                    if tm is not None:
                        r = self.resolve_name(tm, attr)
                        if r is not None:
                            return r
                    if f"{modname}.{attr}" in self.modules:
                        return ("repomod", f"{modname}.{attr}")
                    continue
                return ("ext", f"{modname}.{attr}")
        return None

    def all_funcs(self):
        for m in self.modules.values():
            for f in m.funcs.values():
                yield f
            for ms in m.classes.values():
                for f in ms.values():
                    yield f


def norm_text(node):
    """Normalised source text of a node (line-number free key for findings)."""
    try:
        return " ".join(ast.unparse(node).split())
    except Exception:
        return type(node).__name__
