"""Analysis driver (two-pass abstract interpretation per entry point and configuration),
obligations, verdicts, evidence and known-findings handling."""
from __future__ import annotations
import hashlib
import json
import os
import pathlib
import sys
import time
import traceback

from .model import Model, norm_text
from .absint import Ctx, Interp, Event
from . import ext_models
from .values import Val

HOLDS, VIOLATED, UNDECIDED = "HOLDS", "VIOLATED", "UNDECIDED"
VERIF = pathlib.Path(__file__).resolve().parent.parent


class AnalysisError(Exception):
    """The analysis lost an anchor or cannot decide enough: exit 2, never a VIOLATION."""


class Result:
    def __init__(self, entry, fn, config_name, ctx, value):
        self.entry, self.fn, self.config, self.ctx, self.value = entry, fn, config_name, ctx, value
        self.trace = ctx.trace

    def events(self, *kinds):
        return self.trace.of(*kinds)

    @property
    def heap(self):
        return self.trace.heap


class Analyzer:
    def __init__(self, model=None, opts=None):
        self.model = model or Model()
        self.opts = dict(opts or {})
        self.runs = 0
        self.nodes = 0
        self.funcs_reached = set()
        self.notes = []

    def resolve(self, entry):
        """entry: 'pkg.mod:func' or 'pkg.mod:Class.method'"""
        mod, _, name = entry.partition(":")
        if "." in name:
            cls, meth = name.split(".", 1)
            fn = self.model.method(mod, cls, meth)
            return fn, (mod, cls)
        return self.model.func(mod, name), None

    def run(self, entry, kws=None, args=None, self_fields=None, spec=None, config="default", passes=2):
        fn, cls = self.resolve(entry)
        if fn is None:
            raise AnalysisError(f"anchor lost: entry point {entry} not found in {self.model.repo}")
        prior = None
        ctx = None
        val = None
        for p in range(passes):
            ctx = Ctx(self.model, ext_models, prior=prior, spec=dict(spec or {}), opts=self.opts)
            if cls is not None:
                ctx.self_cls = cls
            if self_fields is not None:
                if callable(self_fields):
                    ctx.spec["self_field"] = self_fields
                else:
                    ctx.selfenv = {k: v.copy() for k, v in self_fields.items()}
            interp = Interp(ctx)
            kk = {k: v.copy() for k, v in (kws or {}).items()}
            val = interp.run_function(fn, [a.copy() for a in (args or [])], kk)
            prior = ctx.trace
        self.runs += 1
        self.nodes += ctx.nodes_seen
        self.funcs_reached |= ctx.calls_seen
        for n in ctx.warn:
            if n not in self.notes:
                self.notes.append(n)
        r = Result(entry, fn, config, ctx, val)
        r.self_fields_declared = set(self_fields) if isinstance(self_fields, dict) else set()
        r.inputs = dict(kws or {})
        return r


class Obligation:
    def __init__(self, prop, rule, instance, status, where="", construct="", entry="", msg="", config="",
                 derivation=None):
        self.prop, self.rule, self.instance, self.status = prop, rule, instance, status
        self.where, self.construct, self.entry, self.msg, self.config = where, construct, entry, msg, config
        self.derivation = derivation

    @property
    def key(self):
        """identity used for de-duplication and for known findings (no line numbers)"""
        return (self.prop, self.rule, self.entry, " ".join(str(self.construct).split()))

    @property
    def skey(self):
        """key with local names abstracted (stable under renaming of locals)"""
        return (self.prop, self.rule, self.entry, structural_key(self.construct))

    def to_json(self):
        return {"rule": self.rule, "instance": self.instance, "status": self.status, "where": self.where,
                "construct": self.construct, "entry": self.entry, "config": self.config, "msg": self.msg,
                "derivation": self.derivation}


def ev_where(ev):
    return ev.loc if isinstance(ev, Event) else str(ev)


class Report:
    """Collects obligations for one property check."""

    def __init__(self, prop, tier, analyzer):
        self.prop, self.tier, self.an = prop, tier, analyzer
        self.obls = []
        self.advisories = []
        self.t0 = time.time()
        self.minimums = {}       # rule -> minimum number of decided obligations (frozen by hand)
        self.configs = set()

    def add(self, rule, instance, status, where="", construct="", entry="", msg="", config="", derivation=None):
        o = Obligation(self.prop, rule, instance, status, where, construct, entry, msg, config, derivation)
        self.obls.append(o)
        if config:
            self.configs.add((entry, config))
        return o

    def holds(self, rule, instance, **kw):
        return self.add(rule, instance, HOLDS, **kw)

    def violated(self, rule, instance, **kw):
        return self.add(rule, instance, VIOLATED, **kw)

    def undecided(self, rule, instance, **kw):
        return self.add(rule, instance, UNDECIDED, **kw)

    def check(self, rule, instance, cond, **kw):
        """cond: True -> HOLDS, False -> VIOLATED, None -> UNDECIDED"""
        st = HOLDS if cond is True else (VIOLATED if cond is False else UNDECIDED)
        return self.add(rule, instance, st, **kw)

    def advisory(self, text):
        if text not in self.advisories:
            self.advisories.append(text)

    def require(self, rule, n):
        self.minimums[rule] = max(n, self.minimums.get(rule, 0))

    def problems(self):
        """frozen minimums that are not met (lost anchors)"""
        decided = {}
        for o in self.obls:
            if o.status != UNDECIDED:
                decided[o.rule] = decided.get(o.rule, 0) + 1
        return [f"rule {rule}: {decided.get(rule, 0)} decided obligations < frozen minimum {n}"
                for rule, n in self.minimums.items() if decided.get(rule, 0) < n]


# ------------------------------------------------------------------ known findings
def load_known():
    p = VERIF / "known_findings.json"
    if not p.exists():
        return {"known": [], "fixed": []}
    return json.loads(p.read_text())


import re as _re

_TOK = _re.compile(r"[A-Za-z_][A-Za-z_0-9]*|\d+\.?\d*|\S")


def structural_key(text):
    """Construct text with local variable names abstracted away (cp.max(cp.abs(num) / denom) → cp.max(cp.abs(_) / _)):
    identifiers that are not a module prefix, an attribute/function name or a keyword-argument name become `_`.
    Keys findings by the shape of the construct, so that renaming a local does not turn a known finding into a new one."""
    toks = _TOK.findall(str(text))
    out = []
    for i, t in enumerate(toks):
        if _re.match(r"[A-Za-z_]", t):
            nxt = toks[i + 1] if i + 1 < len(toks) else ""
            prv = toks[i - 1] if i else ""
            if nxt in (".", "(") or prv == "." or (nxt == "=" and (toks[i + 2] if i + 2 < len(toks) else "") != "="):
                out.append(t)
            else:
                out.append("_")
        else:
            out.append(t)
    return " ".join(out)


def match_known(o, known):
    for k in known.get("known", []):
        if k["property"] == o.prop and k["rule"] == o.rule and k.get("entry", o.entry) == o.entry \
                and structural_key(k["construct"]) == structural_key(o.construct):
            return k
    return None


# ------------------------------------------------------------------ finish: verdict, evidence, exit code
def finish(rep: Report, level="other", explanation="", rule_text="", trusted=(), assumptions=(), extra=None):
    prop = rep.prop
    known = load_known()
    # de-duplicate violations by key (the same construct is reached under many configurations)
    by_key = {}
    for o in rep.obls:
        if o.status == VIOLATED:
            by_key.setdefault(o.key, []).append(o)
    decided = {}
    for o in rep.obls:
        if o.status != UNDECIDED:
            decided[o.rule] = decided.get(o.rule, 0) + 1
    problems = []
    for rule, n in rep.minimums.items():
        if decided.get(rule, 0) < n:
            problems.append(f"rule {rule}: {decided.get(rule, 0)} decided obligations < frozen minimum {n}")
    out_lines = []
    new_viol = []
    known_hit = []
    for key, obs in sorted(by_key.items()):
        o = obs[0]
        k = match_known(o, known)
        if k is not None:
            known_hit.append((o, k))
        else:
            new_viol.append((o, obs))
    ev_dir = pathlib.Path(os.environ.get("VERIF_EVIDENCE_DIR") or (VERIF / "evidence"))
    ev_dir.mkdir(parents=True, exist_ok=True)
    replay_dir = ev_dir / "replay"
    exit_code = 0
    if problems:
        for p in problems:
            print(f"ANALYSIS-ERROR property={prop} {p}")
        exit_code = 2
    for o, k in known_hit:
        print(f"KNOWN-FINDING: property={prop} rule={o.rule} entry={o.entry} construct=`{o.construct}` — {k.get('what', o.msg)}")
    if new_viol:          # a definite violation stands whether or not other anchors were lost
        replay_dir.mkdir(exist_ok=True)
        for o, obs in new_viol:
            h = hashlib.sha1(repr(o.key).encode()).hexdigest()[:10]
            rp = replay_dir / f"{prop}-{h}.json"
            rp.write_text(json.dumps({"property": prop, "rule": o.rule, "entry": o.entry, "construct": o.construct,
                                      "where": o.where, "msg": o.msg, "configs": sorted({x.config for x in obs})[:20],
                                      "instance": o.instance, "derivation": o.derivation,
                                      "repo_digest": rep.an.model.digest}, indent=1, default=str))
            print(f"{o.where}: {o.rule} [{o.instance}] {o.msg}  (entry {o.entry}; construct `{o.construct}`; "
                  f"{len(obs)} configuration(s))")
            print(f"VIOLATION property={prop} replay={rp}")
        exit_code = 1
    n_h = sum(1 for o in rep.obls if o.status == HOLDS)
    n_v = sum(1 for o in rep.obls if o.status == VIOLATED)
    n_u = sum(1 for o in rep.obls if o.status == UNDECIDED)
    distinct = len({(o.rule, o.instance, o.entry, o.construct) for o in rep.obls if o.status != UNDECIDED and o.construct})
    by_rule = {}
    for o in rep.obls:
        r = by_rule.setdefault(o.rule, {"HOLDS": 0, "VIOLATED": 0, "UNDECIDED": 0})
        r[o.status] += 1
    samples = []
    seen_rules = {}
    for o in rep.obls:
        if seen_rules.get((o.rule, o.status), 0) < 3 and o.status != UNDECIDED:
            seen_rules[(o.rule, o.status)] = seen_rules.get((o.rule, o.status), 0) + 1
            samples.append(o.to_json())
    samples = samples[:60]
    cov = {
        "evaluations": len(rep.obls),
        "distinct_nontrivial": distinct,
        "rule": ("obligations are rule instances whose slots are filled from constructs found in /repo's source "
                 "(entry point × abstract configuration × construct); one is non-trivial and distinct when it was "
                 "decided (not UNDECIDED) from at least one real construct, counted once per "
                 "(rule, instance, entry, construct)"),
        "samples": samples,
        "explanation": explanation,
        "obligations": len(rep.obls),
        "discharged": n_h,
        "by_rule": by_rule,
        "holds": n_h, "violated": n_v, "undecided": n_u,
        "known_findings_reported": [{"rule": o.rule, "entry": o.entry, "construct": o.construct} for o, _ in known_hit],
        "rule_text": rule_text,
        "trusted_base": list(trusted),
        "configurations": len(rep.configs),
        "analysis_runs": rep.an.runs,
        "ast_nodes_interpreted": rep.an.nodes,
        "repo_functions_reached": len(rep.an.funcs_reached),
        "functions": sorted(rep.an.funcs_reached)[:80],
        "external_models": len(ext_models.MODELS),
        "frozen_minimums": rep.minimums,
        "analysis_notes": rep.an.notes[:30],
        "advisories": rep.advisories,
        "repo_digest": rep.an.model.digest,
        "exhaustive": rep.tier == "thorough",
    }
    if extra:
        cov.update(extra)
    evd = {
        "property_id": prop,
        "tier": rep.tier,
        "seed": int(os.environ.get("VERIF_SEED", "0") or 0),
        "level": level,
        "coverage": cov,
        "assumptions": list(assumptions),
        "wall_s": round(time.time() - rep.t0, 3),
        "violations": len(new_viol),
    }
    (ev_dir / f"{prop}.json").write_text(json.dumps(evd, indent=1, default=str))
    print(f"{prop} [{rep.tier}] obligations={len(rep.obls)} holds={n_h} violated={n_v} undecided={n_u} "
          f"known={len(known_hit)} new={len(new_viol)} configs={len(rep.configs)} runs={rep.an.runs} "
          f"wall={evd['wall_s']}s exit={exit_code}")
    for a in rep.advisories:
        print(f"ADVISORY: {a}")
    return exit_code
