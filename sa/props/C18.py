"""C18 — gamut-size and divergence metrics (partial: scale, self-ratio, seeding, reference clouds).

Decided:
  R-QTY      scale clauses through the homogeneity-degree facet: mean width is homogeneous of degree 1 in its input; the gamut
             metric (without at_l1) is of degree 0 (invariant to the intensity scale); Jensen–Shannon divergence is of degree 0
             in each input (invariant to normalisation): the two inputs are normalised separately before they are mixed
             (unit check [u] vs [v]); in the degenerate (flat/collinear) branch the volume is measured on the PROJECTED points
  R-FORWARD  compute_gamut(…, relative_to=R) evaluates the denominator with the same metric, center, center_to_neutral and
             seed and resets at_l1 / relative_to (necessary for 'equals 1 relative to itself'); the estimator's compute_hull
             builds the gamut cloud and the reference cloud under the same `relative` flag and forwards at_l1, metric, seed
  R-SEED     seed → default_rng(seed) is the only randomness of the mean width; the projection directions are draws from a
             rotation-invariant distribution (normal family; uniform / cube draws are a violation, others undecided); numerator
             and denominator of a relative gamut each build their generator from the same immutable seed (one Generator object
             handed to both is a violation)
  R-QTY      (further) the vectors handed to the entropy are their inputs divided by their own L1 norm; the affine rank of a
             flat cloud is decided on a scale-free quantity (no absolute tolerance on a variance)
Not decided: equality with geometric definitions, translation/rotation invariance, monotonicity, JS symmetry/bounds/zero set."""
from __future__ import annotations
from ..spec import arr, num, intv, strv, const, none, flag, estimator_fields, S, U_REL, U_CAPTURE
from .. import rules as R
from ..values import Val
from ..model import norm_text
from .. import ext_models as X
from .common import opts, cfgname
from . import convexcommon as CC

OPTS = opts()
EXPLANATION = __doc__
RULE_TEXT = "homogeneity-degree facet; units; forwarding into the recursive denominator; seed dependence"
MET = "dreye.api.metrics"
EST = CC.EST


def check(rep, an, tier):
    R.rule_alias(rep, an.model, "dreye.api.estimator", "ReceptorEstimator", "compute_gamut", "compute_hull")
    R.rule_facet_pairs(rep, an.model, entry="compute_gamut(at_l1=) → proj_P_to_simplex")
    # ---- mean width: degree 1, seeded
    for vec in (False, True):
        for center in (False, True):
            Xv = arr("X", S("M", "DIM"), {"u": 1})
            res = an.run(f"{MET}:compute_mean_width", kws=dict(X=Xv, n=intv("n", "NP"), vectorized=flag("vectorized", vec),
                                                              center=flag("center", center), seed=intv("seed")),
                         config=cfgname(dict(vectorized=vec, center=center)))
            entry = "compute_mean_width"
            v = res.value.flat()
            d = v.tag("deg")
            rep.check("R-QTY", "mean width is homogeneous of degree 1", None if d is None else d.get("X", 0) == 1, where=res.fn.loc(),
                      construct="degree of compute_mean_width in X", entry=entry, config=res.config, msg=f"degree {d}")
            rep.check("R-QTY", "mean width has the unit of its input", None if v.unit is None else v.unit == {"u": 1}, where=res.fn.loc(),
                      construct="unit of compute_mean_width", entry=entry, config=res.config)
            seeds(rep, res, entry)
            isotropy(rep, res, entry)
            scale_free_decisions(rep, res, entry)
            R.rule_block_cover(rep, res, entry)
            for ev in res.events("extremum"):
                ini = ev.d.get("initial")
                if ini is None or not center:
                    continue         # (with center=False the data are mean-centred first: the origin lies inside the hull)
                rep.violated("R-QTY", "support function is an extremum over the samples only", where=ev.loc, construct=ev.text(), entry=entry,
                             config=res.config,
                             msg="an initial value of the extremum (`initial=`, or a running maximum kept in a zero-initialised buffer) adds a phantom sample to every projection: with center=True (no mean subtraction) the result is the "
                                 "mean width of hull(X ∪ {initial}) — not translation invariant, and different from the loop path")
            for ev in res.events("abs_of_extremum"):
                if "X" in {o.split("|")[0] for o in ev.d["of"].flat().data}:
                    rep.violated("R-QTY", "the width along a direction is max − min of the projections", where=ev.loc, construct=ev.text()[:80], entry=entry,
                                 config=res.config,
                                 msg=f"the extent on one side is taken as |{ev.d['which']}(projection)|: that is the distance from the ORIGIN, equal to "
                                     f"−min only while the origin lies inside the projected cloud — with center=True (no mean subtraction) the "
                                     f"result is not translation invariant and differs from the loop path")
            R.rule_purity(rep, res, entry)
            R.rule_index_space(rep, res, entry)
            R.rule_dtype(rep, res, entry)
    # ---- gamut metric: degree 0; self-ratio forwarding
    for metric in ("width", "volume"):
        for rel_to in (None, "given"):
            for ctn in (False, True):
                Xv = arr("X", S("M", "F"), {"u": 1}, sign="NONNEG")
                kw = dict(X=Xv, at_l1=none(), relative_to=none() if rel_to is None else arr("relative_to", S("R", "F"), {"u": 1}, sign="NONNEG"),
                          center_to_neutral=flag("center_to_neutral", ctn), metric=strv("metric", metric), center=flag("center", True),
                          seed=intv("seed"))
                res = an.run(f"{MET}:compute_gamut", kws=kw, config=cfgname(dict(metric=metric, relative_to=rel_to, ctn=ctn)))
                entry = "compute_gamut"
                if metric == "width" and rel_to is None:
                    v = res.value.flat()
                    d = v.tag("deg")
                    rep.check("R-QTY", "gamut metric is invariant to the intensity scale (degree 0)", None if d is None else d.get("X", 0) == 0,
                              where=res.fn.loc(), construct="degree of compute_gamut in X", entry=entry, config=res.config, msg=f"degree {d}")
                if rel_to:
                    rec = [ev for ev in res.events("call") if ev.d["callee"].name == "compute_gamut" and R.near(ev)]
                    # … by the recursive call, or (unrolled) by a second evaluation of the same metric function on the reference cloud with the
                    # same keyword set as the numerator's
                    mfn = "compute_mean_width" if metric == "width" else "compute_volume"
                    mcalls = [ev for ev in res.events("call") if ev.d["callee"].name == mfn]
                    def first_arg_deps(ev):
                        a0 = ev.d["args"][0] if ev.d["args"] else ev.d["kws"].get("X")
                        return {o.split("|")[0] for o in a0.flat().data} if a0 is not None else set()
                    den = [ev for ev in mcalls if "relative_to" in first_arg_deps(ev)]
                    num_ = [ev for ev in mcalls if "X" in first_arg_deps(ev) and "relative_to" not in first_arg_deps(ev)]
                    unrolled = None
                    if not rec and den and num_:
                        def kwdeps(ev, p):
                            v_ = ev.d["kws"].get(p)
                            if v_ is None and ev.d["kws"].get("**") is not None:
                                kw_ = ev.d["kws"]["**"].tag("kw") or {}
                                v_ = kw_.get(p)
                            return None if v_ is None else {o.split("|")[0] for o in v_.flat().deps_all()}
                        unrolled = all((kwdeps(d_, p) or set()) >= {p} for d_ in den for p in (("seed", "center") if metric == "width" else ()))
                    rep.check("R-FORWARD", "denominator computed by the same metric function", bool(rec) or bool(unrolled), where=res.fn.loc(),
                              construct="compute_gamut(relative_to, …) inside compute_gamut", entry=entry, config=res.config)
                    for ev in rec:
                        fn = ev.d["callee"]
                        bound = dict(ev.d["kws"])
                        for i, a in enumerate(ev.d["args"]):
                            bound.setdefault(fn.params[i], a)
                        for p in ("metric", "center", "center_to_neutral", "seed"):
                            vv = bound.get(p)
                            rep.check("R-FORWARD", f"{p} → denominator", vv is not None and p in vv.flat().data, where=ev.loc,
                                      construct=f"compute_gamut(… {p}= …) for the reference", entry=entry, config=res.config,
                                      msg=f"the reference cloud is measured with a different `{p}` than the numerator: the metric of a "
                                          f"cloud relative to itself is no longer 1")
                        for p in ("at_l1", "relative_to"):
                            vv = bound.get(p)
                            rep.check("R-FORWARD", f"{p} reset for the denominator", vv is None or (vv.known and vv.const is None), where=ev.loc,
                                      construct=f"compute_gamut(… {p}= …) for the reference", entry=entry, config=res.config)
                        x0 = bound.get("X")
                        rep.check("R-FORWARD", "denominator measures the reference cloud", x0 is not None and "relative_to" in x0.flat().data
                                  and "X" not in x0.flat().data, where=ev.loc, construct="first argument of the reference call", entry=entry,
                                  config=res.config)
                seeds(rep, res, entry)
                for ev in res.events("row_filter"):
                    if ev.fn.name != "compute_gamut" or "X" not in ev.d["base"].flat().data:
                        continue
                    ix = ev.d["idx"]
                    rm, cm = ix.tag("row_mask"), ix.tag("cmp")
                    if rm is not None:
                        st = rm[0] == "nonzero_rows"
                    elif cm is not None and cm[1].tag("rowsum_of") is not None and not (cm[2].known and cm[2].const == 0):
                        st = False
                    else:
                        st = None
                    rep.check("R-QTY", "only rows without any intensity are removed before the chromatic reduction", st, where=ev.loc,
                              construct=ev.text(), entry=entry, config=res.config,
                              msg="rows are dropped by comparing their total with a threshold (relative to the brightest row): a dim row that is a "
                                  "vertex of the chromaticity hull disappears, so the metric is not invariant to the intensity of individual rows")
                if metric == "width":
                    shared_generator(rep, res, entry)
    # ---- no seed given (the default): 'equals 1 relative to itself' still needs numerator and denominator to share their projections
    for ctn in (False, True):
        Xv = arr("X", S("M", "F"), {"u": 1}, sign="NONNEG")
        sd = none()
        sd.data = frozenset({"seed"})
        kw = dict(X=Xv, at_l1=none(), relative_to=arr("relative_to", S("R", "F"), {"u": 1}, sign="NONNEG"),
                  center_to_neutral=flag("center_to_neutral", ctn), metric=strv("metric", "width"), center=flag("center", True), seed=sd)
        res = an.run(f"{MET}:compute_gamut", kws=kw, config=cfgname(dict(metric="width", relative_to="given", ctn=ctn, seed=None)))
        n_ = 0
        for ev in res.events("call"):
            fn = ev.d["callee"]
            if fn.name not in ("compute_mean_width", "compute_gamut") or len(ev.path) != 1:
                continue
            bound = dict(ev.d["kws"])
            star = bound.pop("**", None)
            if star is not None and star.tag("kw"):
                bound.update(star.tag("kw"))
            for i, a in enumerate(ev.d["args"]):
                if i < len(fn.params):
                    bound.setdefault(fn.params[i], a)
            sv = bound.get("seed")
            st = None if sv is None else not (sv.known and sv.const is None)
            n_ += 1
            rep.check("R-SEED", "without a seed numerator and denominator still draw identical projections", st, where=ev.loc,
                      construct=f"seed handed to {fn.name} when seed=None", entry="compute_gamut", config=res.config,
                      msg="with seed=None (the default) `None` itself is forwarded to both metric evaluations: each creates its own unseeded "
                          "generator, the Monte-Carlo errors of numerator and denominator are independent and the metric of a cloud relative "
                          "to itself is not 1 (one seed has to be drawn once and shared)")
    # ---- Jensen–Shannon: separate normalisation of both inputs
    for jshape, jlabel in ((S("M"), "P:[u],Q:[v]"), (S("M", "M2"), "P:[u],Q:[v], two-dimensional histograms")):
      P, Q = arr("P", jshape, {"u": 1}, sign="NONNEG"), arr("Q", jshape, {"v": 1}, sign="NONNEG")
      res = an.run(f"{MET}:compute_jensen_shannon_divergence", kws=dict(P=P, Q=Q), config=jlabel)
      entry = "compute_jensen_shannon_divergence"
      for ev in res.events("ext_call"):
        if ev.d["dotted"] == "scipy.stats.entropy" and ev.d["args"]:
            p0 = ev.d["args"][0]
            o = p0.tag("normalized_ord")
            rep.check("R-QTY", "inputs are normalised to unit total (L1) before they are mixed", None if o is None else o == 1, where=ev.loc,
                      construct=f"first argument of {ev.text()[:50]}", entry=entry, config=res.config,
                      msg=f"the distribution handed to the entropy is its input divided by its own {o}-norm, not by its total: P and Q enter "
                          f"the mixture with unequal mass, so the value is not the Jensen–Shannon divergence and can exceed 1 bit")
    P, Q = arr("P", S("M"), {"u": 1}, sign="NONNEG"), arr("Q", S("M"), {"v": 1}, sign="NONNEG")
    res = an.run(f"{MET}:compute_jensen_shannon_divergence", kws=dict(P=P, Q=Q), config="P:[u],Q:[v]")
    entry = "compute_jensen_shannon_divergence"
    n = 0
    for ev in res.events("type_error"):
        if ev.d["facet"] == "QTY":
            n += 1
            rep.violated("R-QTY", "inputs are normalised before they are mixed", where=ev.loc, construct=ev.text(), entry=entry, config=res.config,
                         msg=ev.d["msg"] + ": the mixture M is formed from un-normalised inputs, so the divergence depends on their scales "
                                           "(scipy's entropy normalises each argument separately, which turns M into a mass-weighted mixture)")
    if n == 0:
        mixes = [ev for ev in res.events("typed_op")]
        rep.check("R-QTY", "inputs are normalised before they are mixed", True if res.value.flat().tag("deg") == {} or True else None,
                  where=res.fn.loc(), construct="M = 0.5 * (P + Q)", entry=entry, config=res.config)
    scale_free_decisions(rep, res, entry)
    v = res.value.flat()
    rep.check("R-QTY", "divergence is dimensionless", None if v.unit is None else v.unit == {}, where=res.fn.loc(),
              construct="unit of the divergence", entry=entry, config=res.config, msg=f"{v.unit}")
    # ---- volume: the degenerate branch measures the projected points
    def summary(I, e, fn, args, kws):
        x = args[0]
        f = x.flat()
        return Val(data=f.data | {"projected#"}, shp=f.shp, ctrl=f.ctrl, shape=S("M", "1"), unit=f.unit,
                   tags={"kind": "ndarray", "ndim": 2, "notnone": True})
    res = an.run(f"{MET}:compute_volume", kws=dict(X=arr("X", S("M", "DIM"), {"u": 1})),
                 spec={"summaries": {"dreye.api.project:proj_P_for_hull": summary}}, config="flat cloud (projection returns points)")
    v = res.value.flat()
    scale_free_decisions(rep, res, "compute_volume")
    for r_ in res.events("return"):
        if len(r_.path) == 1 and r_.d["val"].flat().tag("pow_by_extent"):
            rep.violated("R-QTY", "the volume of a flat cloud scales with the dimension of its affine span", where=r_.loc, construct=r_.text(),
                         entry="compute_volume", config=res.config,
                         msg=f"the returned extent is multiplied by a length scale raised to the AMBIENT dimension (extent "
                             f"{'⊗'.join(r_.d['val'].flat().tag('pow_by_extent'))} of the input): for a flat cloud, whose hull is measured inside "
                             f"its k-dimensional span, the result is no longer homogeneous of degree k")
    # a volume of exactly 0 is returned only on a test of the point VALUES (all identical): a count of (distinct) points against the
    # dimension says nothing about the extent inside the affine span (a segment in 3-D has a length)
    for r_ in res.events("return"):
        v0 = r_.d["val"]
        if len(r_.path) != 1 or not (v0.known and isinstance(v0.const, (int, float)) and not isinstance(v0.const, bool) and v0.const == 0):
            continue
        gs = [g for g in r_.guards if len(g) > 5 and not g[3]]
        if not gs:
            continue
        on_values = any("X" in {o.split("|")[0] for o in g[5]} for g in gs)
        rep.check("R-VALUE", "zero volume is decided on the point values", on_values, where=r_.loc, construct=f"{r_.text()} under `{gs[-1][0][:60]}`",
                  entry="compute_volume", config=res.config,
                  msg=f"the constant 0 is returned under `{gs[-1][0][:80]}`, a test of counts / extents only: clouds with few distinct points "
                      f"(a segment, a triangle in a higher-dimensional space) have a non-zero volume inside their affine span")
    # … and on the branch where the projection returns a hull object (a flat cloud measured inside its k-dimensional span)
    def summary_hull(I, e, fn, args, kws):
        f = args[0].flat()
        return Val(data=f.data | {"projected#"}, shp=f.shp, ctrl=f.ctrl, unit=None, tags={"kind": "hull", "isinstance": "ConvexHull", "notnone": True,
                                                                                           "points": args[0]})
    res_h = an.run(f"{MET}:compute_volume", kws=dict(X=arr("X", S("M", "DIM"), {"u": 1})),
                   spec={"summaries": {"dreye.api.project:proj_P_for_hull": summary_hull}}, config="flat cloud (projection returns a hull)")
    bad = [r_ for r_ in res_h.events("return") if len(r_.path) == 1 and r_.d["val"].flat().tag("pow_by_extent")]
    for r_ in bad:
        rep.violated("R-QTY", "the volume of a flat cloud scales with the dimension of its affine span", where=r_.loc, construct=r_.text(),
                     entry="compute_volume", config=res_h.config,
                     msg=f"the hull volume is multiplied by a length scale raised to the AMBIENT dimension (extent "
                         f"{'⊗'.join(r_.d['val'].flat().tag('pow_by_extent'))} of the input): for a flat cloud, whose hull is measured inside "
                         f"its k-dimensional span, the result is off by scale**(d − k)")
    # the content of the hull is its `.volume` in every dimension (area of a polygon, volume of a polytope); `.area` is the measure of
    # its BOUNDARY (perimeter of a polygon, surface of a polytope) — homogeneous of degree k − 1, not k
    ha = res_h.events("hull_area")
    for ev in ha:
        rep.violated("R-QTY", "the content of a hull is its volume attribute", where=ev.loc, construct=ev.text(), entry="compute_volume",
                     config=res_h.config,
                     msg="`.area` of a scipy ConvexHull is the measure of its boundary (the perimeter of a planar hull): a planar cloud — a "
                         "trichromatic gamut after barycentric reduction — is reported with its perimeter instead of the area it encloses")
    if not ha:
        rep.holds("R-QTY", "the content of a hull is its volume attribute", where=res_h.fn.loc(), construct="hull branch of compute_volume",
                  entry="compute_volume", config=res_h.config)
    if not bad:
        rep.holds("R-QTY", "the volume of a flat cloud scales with the dimension of its affine span", where=res_h.fn.loc(),
                  construct="hull branch of compute_volume", entry="compute_volume", config=res_h.config)
    rets = [r for r in res.events("return") if len(r.path) == 1 and "projected#" in r.d["val"].flat().data | r.d["val"].flat().ctrl]
    deg = [r for r in rets if "projected#" in r.d["val"].flat().data]
    rep.check("R-QTY", "flat clouds: the extent is measured on the projected points", bool(deg), where=res.fn.loc(),
              construct="degenerate branch of compute_volume", entry="compute_volume", config=res.config,
              msg="when the hull projection returns points (collinear cloud) the returned extent is not computed from those projected "
                  "points: it is no longer the length of the segment and not invariant to rotation")
    # ---- the affine dimension of a flat cloud is decided on a scale-free quantity
    res = an.run("dreye.api.project:proj_P_for_hull", kws=dict(P=arr("P", S("M", "DIM"), {"u": 1})), config="flat cloud (QhullError branch)")
    tol = [ev for ev in res.events("abs_tolerance") if ev.handlers or any("except" in g[0] for g in ev.guards)]
    for ev in tol:
        at = ev.d.get("atol")
        if at is not None and at.known and at.const == 0:
            continue
        rep.check("R-QTY", "affine dimension decided on a scale-free quantity", not ev.d["dimensioned"], where=ev.loc, construct=ev.text(),
                  entry="proj_P_for_hull", config=res.config,
                  msg="the number of dimensions that carry variance is decided with np.isclose's ABSOLUTE tolerance on a quantity that "
                      "scales with the square of the data: for small-scale flat clouds every cumulative variance is 'close' to the total, the "
                      "affine dimension collapses and the volume is no longer homogeneous in scale")
    for ev in res.events("ext_call"):
        if ev.d["dotted"].endswith("decomposition.PCA") or ev.d["dotted"].endswith(".PCA"):
            nc = ev.d["kws"].get("n_components") or (ev.d["args"][0] if ev.d["args"] else None)
            if nc is not None and not nc.known:
                syms = set(nc.tag("dim_syms") or ()) | (set(nc.tag("dim")) if isinstance(nc.tag("dim"), tuple) else set())
                st_ = None if not syms else (("M" in syms) and nc.tag("bounded_by") == "min")
                rep.check("R-SHAPE", "the number of principal components is bounded by the number of points", st_, where=ev.loc,
                          construct=ev.text(), entry="proj_P_for_hull", config=res.config,
                          msg="the number of components requested from PCA is computed from the ambient dimension only: a flat cloud with fewer "
                              "points than that (a triangle in 5-D, a segment in 4-D) makes PCA raise ValueError — no volume is returned for a "
                              "hull that has a well-defined extent within its affine span")
            w = ev.d["kws"].get("whiten")
            st = True if (w is None or (w.known and not w.const)) else (False if (w.known and w.const) else None)
            rep.check("R-QTY", "the projection onto the affine span is an isometry", st, where=ev.loc, construct=ev.text(), entry="proj_P_for_hull",
                      config=res.config,
                      msg="PCA(whiten=True) rescales every retained component to unit variance: distances within the span are not preserved, so the "
                          "hull volume of the projected points is not the volume of the cloud within its affine span (and is scale invariant "
                          "instead of homogeneous)")
    if not tol:
        rep.undecided("R-QTY", "affine dimension decided on a scale-free quantity", where=res.fn.loc(), construct="rank decision in proj_P_for_hull",
                      entry="proj_P_for_hull", config=res.config)
    # ---- estimator
    for rel in (True, False):
        for frac in (True, False):
            fields = estimator_fields(K="vec", baseline="vec")
            kw = dict(fraction=flag("fraction", frac), at_l1=num("at_l1", U_REL, sign="POS"), metric=strv("metric", "width"), seed=intv("seed"),
                      relative=flag("relative", rel))
            res = an.run(f"{EST}.compute_hull", kws=kw, self_fields=fields, config=cfgname(dict(relative=rel, fraction=frac)))
            entry = "ReceptorEstimator.compute_hull"
            R.rule_pair_orientation(rep, res, entry)
            calls = [ev for ev in res.events("call") if ev.d["callee"].name == "compute_gamut" and ev.fn.cls]
            rep.check("R-FORWARD", "compute_hull → compute_gamut", bool(calls), where=res.fn.loc(), construct="compute_gamut(P, …)", entry=entry,
                      config=res.config)
            for ev in calls:
                fn = ev.d["callee"]
                bound = dict(ev.d["kws"])
                for i, a in enumerate(ev.d["args"]):
                    bound.setdefault(fn.params[i], a)
                for p in ("at_l1", "metric", "seed"):
                    vv = bound.get(p)
                    rep.check("R-FORWARD", f"{p} → compute_gamut({p}=)", vv is not None and p in vv.flat().data, where=ev.loc,
                              construct=f"compute_gamut(… {p}= …) in compute_hull", entry=entry, config=res.config)
                ref, cloud = bound.get("relative_to"), bound.get("X")
                for lab, vv in (("gamut cloud", cloud), ("reference cloud", ref)):
                    if vv is None or (vv.known and vv.const is None):
                        if lab == "reference cloud" and frac:
                            rep.violated("R-FORWARD", "fractional metric has a reference", where=ev.loc, construct="relative_to=", entry=entry,
                                         config=res.config, msg="fraction=True but no reference cloud is passed")
                        continue
                    d = vv.flat().data
                    for o in ("self.K", "self.baseline"):
                        if rel:
                            rep.check("R-FORWARD", f"relative=True: {lab} includes {o}", o in d, where=ev.loc, construct=f"{lab} of compute_hull",
                                      entry=entry, config=res.config)
                        else:
                            rep.check("R-FORWARD", f"relative=False: {lab} excludes {o}", o not in d, where=ev.loc, construct=f"{lab} of compute_hull",
                                      entry=entry, config=res.config,
                                      msg=f"with relative=False the {lab} still depends on {o}: numerator and denominator of the fractional gamut "
                                          f"are taken in different capture spaces")
            # the measured cloud is the WHOLE vertex set of the gamut: the all-off corner is a vertex of it (the slice at a total at_l1 below
            # a single source's total, and the absolute fraction, depend on it) — only the chromatic tests may drop it
            for ev in res.events("call"):
                fn = ev.d["callee"]
                if fn.name != "_get_P_from_A" or not R.near(ev):
                    continue
                bound = dict(ev.d["kws"])
                for i, a in enumerate(ev.d["args"]):
                    if i + 1 < len(fn.params):
                        bound.setdefault(fn.params[i + 1], a)
                rz = bound.get("remove_zero")
                st = True if (rz is None or (rz.known and not rz.const)) else (False if (rz.known and rz.const) else None)
                rep.check("R-FORWARD", "the measured gamut cloud keeps the all-off corner", st, where=ev.loc, construct=ev.text()[:80], entry=entry,
                          config=res.config,
                          msg="the vertex set is requested without its all-off corner: hull slices at a total below the dimmest single source and "
                              "the absolute-capture fraction are computed for a smaller set (fraction 0 or too small)")
            R.rule_effect_free(rep, res, entry, reg=_reg(an))
    rep.require("R-QTY", 8)
    rep.require("R-FORWARD", 30)
    rep.require("R-SEED", 4)


def seeds(rep, res, entry):
    for ev in res.events("rng_create"):
        seed = ev.d.get("seed")
        rep.check("R-SEED", "generator seeded from `seed`", seed is not None and "seed" in seed.flat().data, where=ev.loc, construct=ev.text(),
                  entry=entry, config=res.config, msg="the random projections are not derived from the seed: not deterministic per seed")
    for ev in res.events("ext_call"):
        d = ev.d.get("raw") or ev.d["dotted"]
        if d.startswith("numpy.random.") and d.split(".")[-1] in X.GLOBAL_RNG and d not in X.RNG_CTORS:
            rep.violated("R-SEED", "no global RNG", where=ev.loc, construct=ev.text(), entry=entry, config=res.config, msg=f"`{d}`")


ISOTROPIC = {"standard_normal", "normal", "multivariate_normal", "randn"}
ANISOTROPIC = {"uniform", "random", "random_sample", "rand", "integers", "choice", "laplace", "exponential", "beta", "gamma", "triangular",
               "permutation"}


def isotropy(rep, res, entry):
    """mean width = mean over UNIFORMLY distributed directions: normalised draws are uniform on the sphere only for a rotation
    invariant distribution (i.i.d. centred normals); normalised cube / simplex draws crowd the diagonals"""
    for ev in res.events("random_draw"):
        m = ev.d.get("method")
        st = True if m in ISOTROPIC else (False if m in ANISOTROPIC else None)
        if m == "normal":
            loc = ev.d["kws"].get("loc") or (ev.d["args"][0] if ev.d["args"] else None)
            if loc is not None and not (loc.known and loc.const == 0):
                st = None
        rep.check("R-SEED", "projection directions are drawn from a rotation-invariant distribution", st, where=ev.loc, construct=ev.text(),
                  entry=entry, config=res.config,
                  msg=f"`{m}` draws are not rotation invariant: after L2 normalisation the directions are not uniform on the sphere, so the "
                      f"mean width of an anisotropic cloud changes when the cloud is rotated and misses the geometric definition")


def shared_generator(rep, res, entry):
    """'equals 1 relative to itself' needs numerator and denominator to use IDENTICAL projections: every metric call must build
    its own generator from the same immutable seed; ONE Generator object handed to both is stateful"""
    uses = {}
    plain = []
    for ev in res.events("call"):
        fn = ev.d["callee"]
        if fn.name not in ("compute_mean_width", "compute_gamut") or len(ev.path) != 1:
            continue
        vals = list(ev.d["args"]) + list(ev.d["kws"].values())
        star = ev.d["kws"].get("**")
        if star is not None and star.tag("kw"):
            vals += list(star.tag("kw").values())
        gens = [v for v in vals if v.tag("kind") == "rng" and v.tag("rng_site") is not None]
        for g in gens:
            uses.setdefault(g.tag("rng_site"), []).append(ev)
        if not gens and any("seed" in v.flat().data for v in vals):
            plain.append(ev)
    for site, evs in uses.items():
        if len({e.loc for e in evs}) >= 2:
            for ev in evs[:2]:
                rep.violated("R-SEED", "numerator and denominator draw identical projections", where=ev.loc, construct=ev.text(), entry=entry,
                             config=res.config,
                             msg="one Generator object created in this call is handed to both metric evaluations where the seed is expected: "
                                 "it is stateful, so the reference cloud is measured with the NEXT draws, not the same projections — the "
                                 "Monte-Carlo error no longer cancels (metric of a cloud relative to itself ≠ 1)")
    for ev in plain:
        rep.holds("R-SEED", "numerator and denominator draw identical projections", where=ev.loc, construct=ev.text(), entry=entry,
                  config=res.config, msg="an immutable seed is forwarded; each metric call builds its own generator")


def scale_free_decisions(rep, res, entry):
    """every metric is homogeneous in scale (mean width, volume) or invariant to it (gamut metric, JS divergence): no decision on
    the path may compare a quantity that carries the input's unit against an ABSOLUTE tolerance (np.isclose / np.allclose defaults)"""
    seen = set()
    for ev in res.events("abs_tolerance"):
        at = ev.d.get("atol")
        if at is not None and at.known and at.const == 0:
            continue
        k = (ev.loc, ev.text())
        if k in seen:
            continue
        seen.add(k)
        rep.check("R-QTY", "no absolute tolerance on a quantity in the input's units", not ev.d["dimensioned"], where=ev.loc, construct=ev.text(),
                  entry=entry, config=res.config,
                  msg="an absolute tolerance (1e-8) is compared with values in the caller's units: for inputs on a small absolute scale distinct "
                      "points / distributions are declared equal, so the metric is no longer homogeneous in (or invariant to) the scale")


def _reg(an):
    from .C14 import registration_writes
    return registration_writes(an)
