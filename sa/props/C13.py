"""C13 — sampling in the gamut (necessary structure).

Decided:
  R-API      every external name on the sampling path resolves in the installed libraries
  R-SEED     every random generator / QMC engine (including the helper engine of the multinomial allocation, whose own seed=
             is ignored by SciPy when an engine is supplied) is derived from `seed`; no draw from a global generator; the
             returned samples depend on `seed` and on no unseeded entropy source ⇒ identical for identical seeds
  R-SHAPE    the pseudo-random branch returns exactly n rows; in the QMC branch the per-simplex counts handed to np.repeat sum to
             n by construction (rows of a multinomial draw with n trials; rounded shares are a violation)
  membership by construction: every returned row is Σ_j w_j v_j with v_j the vertices of a simplex of the triangulated hull
             and w a probability vector: weights are Dirichlet draws or non-negative QMC points divided by their own L1 norm
             (simplex rows), combined with the simplex vertices by a contraction over the vertex index; simplex indices of a
             triangulation index the very point array that was triangulated
  R-FORWARD  the estimator forwards n, seed, engine and samples the vertex cloud built under the caller's `relative` flag
             (K and baseline tied to the same flag); with l1 the samples are re-expanded with exactly that total
  R-DIM1     with two receptors and l1 no 1-wide data reaches qhull
  R-DISPATCH engine ∈ {None,'Sobol','Halton','LHC', QMCEngine}; other strings → NameError, other types → TypeError; seed
             ∈ {None,int,Generator} else TypeError
Not decided: uniformity (distributional); that the cone cross-section used for l1 equals the gamut slice at that total
(reported as an advisory); hull degeneracy."""
from __future__ import annotations
from ..spec import arr, num, intv, strv, const, none, flag, opaque, estimator_fields, S, U_REL, U_INT, U_CAPTURE
from .. import rules as R
from ..values import Val
from ..model import norm_text
from .. import ext_models as X
from .common import opts, cfgname
from . import formulation as F
from . import convexcommon as CC
from .C12 import hooks as c12hooks, fields_for

OPTS = opts()
EXPLANATION = __doc__
RULE_TEXT = "seed dependence of every RNG construction and of the result; simplex-row (probability vector) facet; index typestate"
EST = CC.EST
SAMP = "dreye.api.sampling:sample_in_hull"


def seed_val(kind):
    if kind == "int":
        v = intv("seed")
        v.tags.pop("dim", None)
        return v
    if kind is None:
        v = none()
        v.data = frozenset({"seed"})
        return v
    return Val(data={"seed"}, tags={"kind": "rng", "isinstance": "Generator", "notnone": True, "notstr": True}, term=("in", "seed"))


def engine_val(kind):
    if kind is None:
        return none()
    if kind == "object":
        return Val(data={"engine"}, tags={"kind": "qmc", "isinstance": "QMCEngine", "notnone": True, "notstr": True, "qmc_dim": None},
                   term=("in", "engine"))
    return strv("engine", kind)


def check(rep, an, tier):
    R.rule_alias(rep, an.model, "dreye.api.estimator", "ReceptorEstimator", "sample_in_gamut", "sample_in_hull")
    if R.rule_facet_pairs(rep, an.model, entry="sample_in_hull(l1=) → proj_P_to_simplex") < 1:
        rep.undecided("R-COVER", "every pair of a facet's vertices is visited", where="dreye/api/project.py", construct="loop over hull.simplices",
                      entry="sample_in_hull(l1=)", msg="no loop over the facets of the hull was found in the slice construction")
    rep.require("R-COVER", 1)
    # the bounds every clause below speaks of are the REGISTERED ones: registration keeps / replaces exactly what it is given
    from .C14 import register_bounds_rule
    register_bounds_rule(rep, an)
    results = []
    entry = "sample_in_hull"
    for eng in (None, "Sobol", "Halton", "LHC", "object"):
        for sd in ("int", None, "generator"):
            if tier == "quick" and sd == "generator" and eng not in (None, "Sobol"):
                continue
            P = arr("P", S("M", "DIM"), U_REL, sign="NONNEG")
            kw = dict(P=P, n=intv("n", "NSAMP"), seed=seed_val(sd), engine=engine_val(eng), qhull_options=none())
            cfg = cfgname(dict(engine=eng, seed=sd))
            res = an.run(SAMP, kws=kw, config=cfg)
            results.append(res)
            v = res.value.flat()
            # --- seeding
            for ev in res.events("rng_create"):
                seed = ev.d.get("seed")
                if ev.d.get("multinomial"):
                    engv = ev.d.get("engine")
                    ok = engv is not None and "seed" in (engv.flat().data | engv.flat().shp) and not engv.tag("unseeded")
                    if sd is None:
                        ok = True           # no seed requested: nothing to reproduce
                    rep.check("R-SEED", "helper engine of the multinomial allocation is seeded", ok, where=ev.loc, construct=ev.text(),
                              entry=entry, config=cfg,
                              msg="MultinomialQMC ignores its own seed= when an engine is supplied, and the supplied engine is not "
                                  "derived from `seed`: two calls with the same seed allocate different counts")
                    continue
                ok = seed is not None and "seed" in (seed.flat().data | seed.flat().shp)
                if sd is None and ev.d.get("qmc") and seed is not None and seed.tag("kind") == "rng" and not ok:
                    ok = True       # no seed requested: the engine is driven by the call's own fresh generator
                if sd is None and not ev.d.get("qmc"):
                    ok = seed is None or (seed.known and seed.const is None)      # default_rng(None) / default_rng(): documented 'no seed'
                rep.check("R-SEED", "generator derived from `seed`", ok, where=ev.loc, construct=ev.text(), entry=entry, config=cfg,
                          msg="a generator/engine on the sampling path is not derived from the seed argument")
            if sd != None:
                ent = sorted(o for o in v.data if o.startswith("entropy@"))
                # a caller-supplied engine object carries its own state: the seed need not reach the samples then
                rep.check("R-SEED", "samples depend on the seed and on no unseeded source", ("seed" in v.data or eng == "object") and not ent,
                          where=res.fn.loc(),
                          construct="samples returned by sample_in_hull", entry=entry, config=cfg,
                          msg=f"unseeded entropy reaches the samples from {ent}" if ent else "seed does not reach the samples")
            for ev in res.events("ext_call"):
                d = ev.d["dotted"]
                if d.startswith("numpy.random.") and d.split(".")[-1] in X.GLOBAL_RNG and d not in X.RNG_CTORS:
                    rep.violated("R-SEED", "no global RNG", where=ev.loc, construct=ev.text(), entry=entry, config=cfg,
                                 msg=f"`{d}` draws from NumPy's global generator")
            # --- convex combination of simplex vertices
            cc = v.tag("convex_comb_of")
            raw = [ev for ev in res.events("ext_call") if ev.d["dotted"] == "numpy.einsum" and any(
                a.tag("unit_cube") and not a.tag("simplex_rows") for a in ev.d["args"][1:])]
            st = True if cc is not None else (False if raw else None)
            rep.check("R-SIMPLEX", "rows are convex combinations of simplex vertices", st, where=res.fn.loc(),
                      construct="weights × vertices contraction in sample_in_hull", entry=entry, config=cfg,
                      msg="the returned rows are not provably Σ w_j v_j with a probability vector w: the weights are not Dirichlet draws "
                          "/ L1-normalised non-negative points, or the contraction does not sum over the vertex index")
            if cc is not None:
                so = cc.tag("simplices_of") or (cc.tag("rowsof") if cc.tag("rowsof") is not None else None)
                rep.check("R-SIMPLEX", "vertices are those of the triangulated hull", "P" in cc.flat().data, where=res.fn.loc(),
                          construct="vertex array of the contraction", entry=entry, config=cfg)
            R.rule_type_errors(rep, res, "INDEX", "R-SIMPLEX", entry)
            # simplex shares are proportional to volume at every scale of the captures: no absolute tolerance on a volume / coordinate
            for tv in res.events("abs_tolerance"):
                at = tv.d.get("atol")
                if tv.d.get("dimensioned") and not (at is not None and at.known and at.const == 0):
                    rep.violated("R-QTY", "simplex shares do not depend on an absolute tolerance", where=tv.loc, construct=tv.text(), entry=entry,
                                 config=cfg,
                                 msg="an absolute tolerance is applied to a quantity that scales with the captures (simplex volumes / coordinates): "
                                     "for hulls in small units the test fires although the volumes differ, and the samples are no longer drawn "
                                     "in proportion to volume (not uniform over the hull)")
            if eng is None and v.shape is not None and v.shape.axes:
                rep.check("R-SHAPE", "exactly n rows (pseudo-random branch)", v.shape.axes[0] == ("NSAMP",), where=res.fn.loc(),
                          construct="shape of the samples", entry=entry, config=cfg, msg=f"computed {v.shape}")
            if eng is not None:
                # the QMC branch returns one row per allocated sample: the per-simplex counts must sum to n
                for ev in res.events("np_repeat"):
                    reps = ev.d.get("reps")
                    if reps is None or reps.tag("kind") != "ndarray" and reps.tag("sum_dim") is None and not reps.tag("rounded"):
                        continue
                    sd_ = reps.tag("sum_dim")
                    st = True if sd_ == ("NSAMP",) else (False if (sd_ is not None or reps.tag("rounded")) else None)
                    rep.check("R-SHAPE", "per-simplex counts sum to n (QMC branch)", st, where=ev.loc, construct=ev.text(), entry=entry,
                              config=cfg,
                              msg="the per-simplex sample counts are rounded shares (Σ round(p_i·n) ≠ n in general) or sum to "
                                  f"{'⊗'.join(sd_) if sd_ else 'an unrelated total'}: the call returns a number of samples other than n")
                if v.shape is not None and v.shape.axes and v.shape.axes[0] is not None:
                    rep.check("R-SHAPE", "exactly n rows (QMC branch)", v.shape.axes[0] == ("NSAMP",), where=res.fn.loc(),
                              construct="shape of the samples", entry=entry, config=cfg, msg=f"computed {v.shape}")
            R.rule_purity(rep, res, entry)
            R.rule_index_space(rep, res, entry)
            R.rule_no_global_state(rep, res, entry)
            R.rule_dtype_casts(rep, res, entry)
    # dispatch of bad values
    P = arr("P", S("M", "DIM"), U_REL)
    for label, kw in (("engine='bogus' → NameError", dict(engine=strv("engine", "bogus"), seed=seed_val("int"))),
                      ("engine=<number> → TypeError", dict(engine=num("engine"), seed=seed_val("int"))),
                      ("seed=<str> → TypeError", dict(engine=none(), seed=strv("seed", "x")))):
        res = an.run(SAMP, kws=dict(P=P, n=intv("n", "NSAMP"), qhull_options=none(), **kw), config=label)
        rep.check("R-DISPATCH", label, F.raises(res),
                  where=res.fn.loc(), construct=label, entry=entry, config=label)
    R.rule_api(rep, results, entry)
    # --- estimator
    spec = c12hooks()
    for l1 in (None, "given"):
        for Fax in (("F", "#2") if l1 else ("F",)):
            def kws_of(rel, l1=l1):
                return dict(n=intv("n", "NSAMP"), seed=seed_val("int"), engine=strv("engine", "Halton"),
                            l1=none() if l1 is None else num("l1", U_REL if rel else U_CAPTURE, sign="POS"))
            ress = CC.relative_forwarding(rep, an, "sample_in_hull", kws_of, {"get_P_from_A"}, tier, extra_fields=(fields_for(Fax) if Fax == "#2" else None),
                                          spec=spec, entry=f"ReceptorEstimator.sample_in_hull[l1={l1},F={Fax}]")
            for res in ress:
                ent = f"ReceptorEstimator.sample_in_hull[l1={l1},F={Fax}]"
                calls = [ev for ev in res.events("call") if ev.d["callee"].qual == SAMP and ev.fn.cls]
                for ev in calls:
                    fn = ev.d["callee"]
                    bound = dict(ev.d["kws"])
                    for i, a in enumerate(ev.d["args"]):
                        bound.setdefault(fn.params[i], a)
                    for p in ("n", "seed", "engine"):
                        vv = bound.get(p)
                        rep.check("R-FORWARD", f"{p} → sample_in_hull({p}=)", vv is not None and p in vv.flat().data, where=ev.loc,
                                  construct=f"sample_in_hull(… {p} …) in {ev.fn.name}", entry=ent, config=res.config)
                    pv = bound.get("P")
                    if pv is not None:
                        have = {o.split("|")[0] for o in pv.flat().data}
                        for o in ("self.A", "self.lb", "self.ub"):
                            rep.check("R-FLOW", f"the sampled region is built from {o}", o in have, where=ev.loc,
                                      construct=f"{o} → sample_in_hull(P, …) in {ev.fn.name}", entry=ent, config=res.config,
                                      msg=f"the point set handed to the sampler does not depend on {o} (it depends on {sorted(have)}): the samples are "
                                          f"drawn from a region that is not the gamut of intensities within the registered bounds")
                CC.vertex_set(rep, res, ent)
                if l1:
                    back = [ev for ev in res.events("call") if ev.d["callee"].name == "cartesian_to_barycentric" and ev.fn.cls]
                    for ev in back:
                        L1 = ev.d["kws"].get("L1") or (ev.d["args"][1] if len(ev.d["args"]) > 1 else None)
                        rep.check("R-FLOW", "samples re-expanded with the requested total", L1 is not None and L1.flat().data == frozenset({"l1"}),
                                  where=ev.loc, construct=ev.text(), entry=ent, config=res.config)
                    rep.check("R-FLOW", "l1 request re-expands chromatic samples", bool(back), where=res.fn.loc(),
                              construct="cartesian_to_barycentric(X, L1=l1)", entry=ent, config=res.config)
                    # a chromaticity drawn in the cone's cross-section, scaled to total l1, is in the gamut only if the gamut reaches that
                    # total AT that chromaticity: the re-expanded samples must pass a membership restriction (rejection / clipping of the
                    # sampled region to the slice of the gamut at l1) — scaling alone does not give it
                    mem = [ev for ev in res.events("membership", "membership_call") if R.near(ev) or ev.fn.cls]
                    restricted = any("l1" in {o.split("|")[0] for o in ((ev.d.get("query") or ev.d.get("B")).flat().deps_all())} for ev in mem
                                     if (ev.d.get("query") or ev.d.get("B")) is not None)
                    # … or the sampled point set itself is built for that total (the slice of the gamut at l1)
                    for cev in calls:
                        fn_ = cev.d["callee"]
                        b_ = dict(cev.d["kws"])
                        for i_, a_ in enumerate(cev.d["args"]):
                            b_.setdefault(fn_.params[i_], a_)
                        pv_ = b_.get("P")
                        if pv_ is not None and "l1" in {o.split("|")[0] for o in (pv_.flat().data | pv_.flat().shp)}:
                            restricted = True
                    for ev in back[:1]:
                        rep.check("R-VALUE", "samples with a requested total are restricted to the gamut's slice at that total", restricted,
                                  where=ev.loc, construct="cartesian_to_barycentric(X, L1=l1)", entry="ReceptorEstimator.sample_in_hull", config=res.config,
                                  msg="the l1 branch samples chromaticities in the hull of ALL vertex chromaticities and scales them to the requested "
                                      "total; nothing restricts them to the slice of the gamut at that total, so for totals above the dimmest "
                                      "single-source total (or with lb > 0) samples need out-of-bound intensities")
                if l1:
                    # a total the gamut never crosses is refused (the slice construction asserts it): the refusal is not swallowed by a
                    # handler that carries on with the unprojected vertices
                    swallowed = {(h.fn.qual, h.d["caught"]) for h in res.events("handler_exit")}
                    for cev in [e_ for e_ in res.events("call") if e_.d["callee"].name == "proj_P_to_simplex"]:
                        hs = [h for h in cev.handlers if {"AssertionError", "Exception", "BaseException"} & {x.split(".")[-1] for x in h}]
                        sw = [h for h in hs if (cev.fn.qual, tuple(h)) in swallowed]
                        rep.check("R-DISPATCH", "an unreachable total is refused, not sampled", not sw, where=cev.loc, construct=cev.text()[:70],
                                  entry=ent, config=res.config,
                                  msg=f"the slice of the gamut at the requested total is built under `except {', '.join(sw[0]) if sw else ''}` and the "
                                      f"handler carries on: for a total no edge of the gamut crosses, the samples are drawn from the whole vertex set "
                                      f"and scaled to that total — captures no in-bound intensities produce")
                if Fax == "#2":
                    CC.dim1(rep, res, ent)
                CC.corner_map(rep, res, ent)
                # the vertex set that is sampled is the gamut's: it is not rescaled by a functional of itself (about the origin) on the way
                for sq in [e_ for e_ in res.events("self_quotient") if e_.fn.cls is not None and "self.A" in e_.d["origins"]][:2]:
                    rep.violated("R-VALUE", "the sampled vertex set is the gamut's vertex set", where=sq.loc, construct=sq.text()[:80], entry=ent,
                                 config=res.config,
                                 msg="the gamut vertices are multiplied by a factor computed from themselves (a stretch about the ORIGIN): with lower "
                                     "bounds > 0 or a baseline the cone's apex — the capture of the lower bounds — moves, and samples need intensities "
                                     "below the lower bounds")
                if l1:
                    CC.zero_rows(rep, res, ent)
                R.rule_effect_free(rep, res, ent, reg=_reg(an))
                R.rule_purity(rep, res, ent)
                R.rule_index_space(rep, res, ent)
                R.rule_dtype(rep, res, ent)
    # ---- re-expansion to the requested total: barycentric coordinates with total L are L × (coordinates with total 1) — the total
    #      enters as one common factor of the finished coordinates, not as an entry of the homogeneous vector that is transformed
    res = an.run("dreye.api.barycentric:cartesian_to_barycentric",
                 kws=dict(X=arr("X", S("N", "Fm1"), {}), L1=num("L1", U_REL, sign="POS"), centered=flag("centered", False)), config="L1 given")
    st = _factor_only(res.value.term, ("in", "L1"))
    rep.check("R-QTY", "the requested total scales the finished barycentric coordinates as one common factor", st, where=res.fn.loc(),
              construct="L1 in cartesian_to_barycentric", entry="cartesian_to_barycentric", config=res.config,
              msg="the total enters the coordinates through the linear map (as an entry of the stacked vector) instead of multiplying its result: "
                  "only the offset term is scaled, the chromaticity of the re-expanded samples is shifted and they leave the gamut for totals ≠ 1")
    # unbounded sources (ub = inf, the estimator's default) with a requested total: the stand-in vertex set is the cone's generating box
    for rel in (True, False):
        kwu = dict(n=intv("n", "NSAMP"), seed=seed_val("int"), engine=none(), relative=flag("relative", rel),
                   l1=num("l1", U_REL if rel else U_CAPTURE, sign="POS"))
        resu = an.run(f"{CC.EST}.sample_in_hull", kws=kwu, self_fields=estimator_fields(K="vec", baseline="vec", ub="inf"), spec=spec,
                      config=f"unbounded sources, l1 given, relative={rel}")
        entu = "ReceptorEstimator.sample_in_hull[l1=given,ub=inf]"
        sqs = [e_ for e_ in resu.events("self_quotient") if e_.fn.cls is not None and "self.A" in e_.d["origins"]]
        for sq in sqs[:2]:
            rep.violated("R-VALUE", "the sampled vertex set is the gamut's vertex set", where=sq.loc, construct=sq.text()[:80], entry=entu,
                         config=resu.config,
                         msg="the gamut vertices are multiplied by a factor computed from themselves (a stretch about the ORIGIN): with lower "
                             "bounds > 0 or a baseline the cone's apex — the capture of the lower bounds — moves, and samples need intensities "
                             "below the lower bounds")
        if not sqs:
            rep.holds("R-VALUE", "the sampled vertex set is the gamut's vertex set", where=resu.fn.loc(), construct="vertex set of the unbounded system",
                      entry=entu, config=resu.config)
        R.rule_purity(rep, resu, entu)
    rep.require("R-SEED", 20)
    rep.require("R-SIMPLEX", 10)
    rep.require("R-API", 5)
    rep.require("R-FORWARD", 10)


_WRAP = {"getitem", "atleast", "asarray", "astype", "broadcast_to", "reshape", "array", "copy", "tuple", "list", "float", "elem", "T", "ravel", "squeeze"}


def _factor_only(term, leaf, depth=0):
    """three-valued: the leaf occurs in `term` only as a factor of top-level products (through shape / dtype wrappers)?
    True: yes; False: it also (or only) enters below a sum, a matrix product, a stack or another function; None: unknown / absent"""
    def contains(t):
        if t == leaf:
            return True
        return isinstance(t, tuple) and any(contains(x) for x in t[1:] if isinstance(x, tuple))
    if term is None or not isinstance(term, tuple) or depth > 60:
        return None
    if not contains(term):
        return None
    if term == leaf:
        return True
    head = term[0]
    subs = [x for x in term[1:] if isinstance(x, tuple)]
    if head in ("mul", "div") or head in _WRAP:
        rs = [_factor_only(x, leaf, depth + 1) for x in subs if contains(x)]
        if head == "div" and len(subs) > 1 and contains(subs[1]):
            return False
        return False if any(r is False for r in rs) else (True if rs and all(r is True for r in rs) else None)
    if head == "phi":
        rs = [_factor_only(x, leaf, depth + 1) for x in subs if contains(x)]
        return False if any(r is False for r in rs) else (True if rs and all(r is True for r in rs) else None)
    return False


def _reg(an):
    from .C14 import registration_writes
    return registration_writes(an)
