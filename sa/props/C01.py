"""C01 — capture is the pairwise, bilinear trapezoid integral of filter × signal.

Decided for every rank configuration ((1,1),(2,1),(1,2),(2,2),(≥3,≥3)) × domain {scalar step, array} × trapz {T,F}:
  R-API    the integrator resolves in the installed NumPy (numpy.trapezoid, with the guarded trapz fallback)
  R-SHAPE  result index order (…, signal i, filter j): the axis insertions make (…,1,F,D)×(…,S,1,D) and the reduction
           removes exactly the domain axis D; integration axis is the domain axis
  R-QTY    result unit [φ·ι·λ] in every branch; multilinear degree exactly 1 in filters, 1 in signals, 1 in the
           measure, no additive term, no numeric literal factor ⇒ bilinear / superposition / univariance and "depends
           on no other filter or signal" (element-wise product + reduction along D only)
  R-FLOW   scalar step → dx= slot, array domain → x= slot (as sample points, on every path); the whole integrand is
           integrated (no samples dropped); integral() obeys the same rule incl. its axis/keepdims handling
  R-FORWARD ReceptorEstimator.capture integrates its own filters, the given signals and its own domain
  R-PURITY no module-level cache on the path
Not decided: numerical accuracy of the library integrator; a different quadrature with the same type."""
from __future__ import annotations
from ..spec import arr, num, const, none, flag, estimator_fields, S, U_FILTER, U_SIGNAL, U_LAMBDA
from .. import rules as R
from ..values import Shape, ustr
from ..model import norm_text
from .common import opts, cfgname

OPTS = opts()
EXPLANATION = __doc__
RULE_TEXT = "named-axis shape typing + units-of-measure + multilinear-degree facet against the declared signature of calculate_capture"
CAP = "dreye.api.capture:calculate_capture"
EST = "dreye.api.estimator:ReceptorEstimator"
U_OUT = {"phi": 1, "iota": 1, "lam": 1}

RANKS = {
    "(1,1)": (S("D"), S("D"), S()),
    "(2,1)": (S("F", "D"), S("D"), S("F")),
    "(1,2)": (S("D"), S("S", "D"), S("S")),
    "(2,2)": (S("F", "D"), S("S", "D"), S("S", "F")),
    "(≥3,≥3)": (S("F", "D", ell=True), S("S", "D", ell=True), S("S", "F", ell=True)),
    "(3,3)": (S("Bt", "F", "D"), S("Bt", "S", "D"), S("Bt", "S", "F")),
    "(3,2)": (S("Bt", "F", "D"), S("S", "D"), S("Bt", "S", "F")),
    "(2,3)": (S("F", "D"), S("Bt", "S", "D"), S("Bt", "S", "F")),
}


def check(rep, an, tier):
    results = []
    for rname, (fs, ss, out) in RANKS.items():
        for dom in ("scalar", "array"):
            for trapz in (True, False):
                f = arr("filters", fs, U_FILTER, ndim=(3 if fs.ell else None))
                s_ = arr("signals", ss, U_SIGNAL, ndim=(3 if ss.ell else None))
                d = num("domain", U_LAMBDA, sign="POS") if dom == "scalar" else arr("domain", S("D"), U_LAMBDA, isnum=False, point=True)
                d.tags["deg"] = {"domain": 1}
                cfg = dict(rank=rname, domain=dom, trapz=trapz)
                res = an.run(CAP, kws=dict(filters=f, signals=s_, domain=d, trapz=flag("trapz", trapz)), config=cfgname(cfg))
                results.append(res)
                capture_obligations(rep, res, "calculate_capture", out, dom, trapz)
    # integral()
    for dom in ("scalar", "array"):
        for keep in (False, True):
            for axis in (-1, 0):
                shp = S("M", "D") if axis == -1 else S("D", "M")
                a = arr("arr", shp, U_SIGNAL)
                d = num("domain", U_LAMBDA, sign="POS") if dom == "scalar" else arr("domain", S("D"), U_LAMBDA, isnum=False)
                d.tags["deg"] = {"domain": 1}
                cfg = dict(domain=dom, keepdims=keep, axis=axis)
                res = an.run("dreye.api.utils:integral", kws=dict(arr=a, domain=d, axis=const(axis), keepdims=flag("keepdims", keep)),
                             config=cfgname(cfg))
                results.append(res)
                integral_obligations(rep, res, dom, keep, axis)
    # estimator
    for dom in ("scalar", "array"):
        fields = estimator_fields(domain=dom)
        sig = arr("signals", S("S", "D"), U_SIGNAL)
        res = an.run(f"{EST}.capture", kws=dict(signals=sig, domain=none()), self_fields=fields, config=f"domain={dom}")
        results.append(res)
        calls = [ev for ev in res.events("call") if ev.d["callee"].name == "calculate_capture"]
        rep.check("R-FORWARD", "capture → calculate_capture", bool(calls), where=res.fn.loc(), construct="calculate_capture(...) in capture",
                  entry="ReceptorEstimator.capture", config=res.config)
        for ev in calls:
            fn = ev.d["callee"]
            bound = dict(ev.d["kws"])
            for i, a in enumerate(ev.d["args"]):
                bound.setdefault(fn.params[i], a)
            for p, origin in (("filters", "self.filters"), ("signals", "signals"), ("domain", "self.domain")):
                v = bound.get(p)
                ok = v is not None and v.flat().data == frozenset({origin})
                rep.check("R-FORWARD", f"{origin} → calculate_capture({p}=)", ok, where=ev.loc, construct=f"calculate_capture(… {p} …) in capture",
                          entry="ReceptorEstimator.capture", config=res.config,
                          msg=f"{p} is bound to {sorted(v.flat().data) if v is not None else 'nothing'}")
        R.rule_dtype_casts(rep, res, "ReceptorEstimator.capture")
        R.rule_effect_free(rep, res, "ReceptorEstimator.capture", reg=_reg(an))
        v = res.value.flat()
        must = set(v.tags.get("must_data", v.data))
        for o in ("signals", "self.filters"):
            rep.check("R-FLOW", f"the capture is computed from {o} on every path", o in must, where=res.fn.loc(), construct=f"{o} → result of capture",
                      entry="ReceptorEstimator.capture", config=res.config,
                      msg=f"on some path the returned capture does not depend on `{o}` (a stored matrix is returned instead of the integral of "
                          f"filter × signal): it goes stale when the registered state it was taken from changes")
        rep.check("R-SHAPE", "capture returns (signals, filters)", None if v.shape is None else v.shape == S("S", "F"), where=res.fn.loc(),
                  construct="return of capture", entry="ReceptorEstimator.capture", config=res.config, msg=f"computed {v.shape}")
    R.rule_api(rep, results)
    rep.require("R-SHAPE", 20)
    rep.require("R-QTY", 40)
    rep.require("R-FLOW", 20)
    rep.require("R-API", 5)


def capture_obligations(rep, res, entry, out, dom, trapz):
    v = res.value.flat()
    where = res.fn.loc()
    rep.check("R-SHAPE", "result axes (…, signals, filters)", None if v.shape is None or any(a is None for a in v.shape.axes) else v.shape == out,
              where=where, construct="return of calculate_capture", entry=entry, config=res.config,
              msg=f"declared {out}, computed {v.shape}")
    rep.check("R-QTY", "unit of the capture", None if v.unit is None else v.unit == U_OUT, where=where,
              construct="unit of calculate_capture", entry=entry, config=res.config,
              msg=f"declared [{ustr(U_OUT)}], computed [{ustr(v.unit)}]")
    deg = v.tag("deg")
    want = {"filters": 1, "signals": 1, "domain": 1}
    rep.check("R-QTY", "bilinear: degree 1 in filters, signals and measure", None if deg is None else deg == want, where=where,
              construct="degree of calculate_capture", entry=entry, config=res.config, msg=f"computed degrees {deg}")
    # a library integrator needs no literal factor next to it; a quadrature rule written out by hand carries its own literal weights
    # (the 1/2 of the trapezoid rule) — whether they are the right ones is a statement about values: undecided, not a violation
    lf = bool(v.tag("litfactor"))
    rep.check("R-QTY", "no numeric literal factor", (not lf) if (res.events("integrate") or not lf) else None, where=where,
              construct="literal factor in calculate_capture", entry=entry, config=res.config)
    R.rule_type_errors(rep, res, "SHAPE", "R-SHAPE", entry)
    R.rule_type_errors(rep, res, "QTY", "R-QTY", entry)
    R.rule_no_global_state(rep, res, entry)
    R.rule_dtype_casts(rep, res, entry)
    R.rule_dtype(rep, res, entry)
    gradient_weights(rep, res, entry)
    linear_after_integration(rep, res, entry)
    ints = res.events("integrate")
    if dom == "array" or trapz:
        if not ints:
            rep.undecided("R-FLOW", "trapezoid integrator", where=where, construct="integrator of calculate_capture", entry=entry,
                          config=res.config, msg="no call to an accepted trapezoid integrator on this path")
        for ev in ints:
            integration_site(rep, res, ev, entry, dom)
    else:
        rep.check("R-FLOW", "rectangle branch multiplies by the step", "domain" in v.data, where=where,
                  construct="np.sum(filters * signals * domain)", entry=entry, config=res.config)


def integration_site(rep, res, ev, entry, dom):
    y, meas, kw, ax = ev.d["integrand"], ev.d["measure"], ev.d["measure_kw"], ev.d["axis"]
    want_kw = "dx" if dom == "scalar" else "x"
    if meas is None:
        rep.undecided("R-FLOW", f"{dom} domain → {want_kw}= slot", where=ev.loc, construct=ev.text(), entry=entry, config=res.config)
        return
    ok = "domain" in meas.flat().data and kw == want_kw
    rep.check("R-FLOW", f"{dom} domain → {want_kw}= slot", ok, where=ev.loc, construct=ev.text(), entry=entry, config=res.config,
              msg=(f"the {dom} domain must be handed to the integrator as `{want_kw}=`; found "
                   f"{kw}=<value derived from {sorted(meas.flat().data)}> on some path") if not ok else "")
    if dom == "array" and meas is not None and kw == "x":
        # sample points must be the domain itself, not something computed from it
        pure = meas.flat().data == frozenset({"domain"}) and not meas.tag("fancy_index") and meas.unit == U_LAMBDA
        rep.check("R-FLOW", "sample points are the domain itself", pure, where=ev.loc, construct=ev.text(), entry=entry, config=res.config)
    if y.shape is not None and ax not in (None, "?"):
        try:
            a = y.shape.axes[ax]
        except IndexError:
            a = None
        rep.check("R-SHAPE", "integration along the domain axis", None if a is None else a == ("D",), where=ev.loc, construct=ev.text(),
                  entry=entry, config=res.config, msg=f"axis {ax} of {y.shape} is {a}")
    else:
        rep.undecided("R-SHAPE", "integration along the domain axis", where=ev.loc, construct=ev.text(), entry=entry, config=res.config)
    rep.check("R-FLOW", "the whole integrand is integrated", not y.tag("fancy_index"), where=ev.loc, construct=ev.text(), entry=entry,
              config=res.config,
              msg="samples are removed from the integrand before a trapezoid integration with a constant step: the end-point "
                  "half-weights move, and entry (i,j) depends on the other filters/signals of the call")


def integral_obligations(rep, res, dom, keep, axis):
    entry = "integral"
    R.rule_dtype_casts(rep, res, entry)
    v = res.value.flat()
    where = res.fn.loc()
    out = {(-1, False): S("M"), (0, False): S("M"), (-1, True): S("M", "1"), (0, True): S("1", "M")}[(axis, keep)]
    rep.check("R-SHAPE", "integral result shape", None if v.shape is None or any(a is None for a in v.shape.axes) else v.shape == out,
              where=where, construct="return of integral", entry=entry, config=res.config, msg=f"declared {out}, computed {v.shape}")
    rep.check("R-QTY", "unit of the integral", None if v.unit is None else v.unit == {"iota": 1, "lam": 1}, where=where,
              construct="unit of integral", entry=entry, config=res.config, msg=f"computed [{ustr(v.unit)}]")
    ints = res.events("integrate")
    # on EVERY path of an array-domain configuration the domain is used as sample points
    if not ints:
        rep.undecided("R-FLOW", "trapezoid integrator", where=where, construct="integrator of integral", entry=entry, config=res.config)
    for ev in ints:
        integration_site(rep, res, ev, entry, dom)
        a = ev.d["axis"]
        rep.check("R-FLOW", "axis argument reaches the integrator", a == axis, where=ev.loc, construct=ev.text(), entry=entry,
                  config=res.config, msg=f"integrates along {a}, requested {axis}")
    R.rule_type_errors(rep, res, "SHAPE", "R-SHAPE", entry)
    R.rule_no_global_state(rep, res, entry)
    linear_after_integration(rep, res, entry)


def linear_after_integration(rep, res, entry):
    """the integral is LINEAR in its integrand (superposition, sign): the integrator's result is not passed through |·| on its way out"""
    evs = res.events("nonlinear_after_integration")
    for ev in evs[:2]:
        rep.violated("R-QTY", "the integral is linear in the integrand", where=ev.loc, construct=ev.text()[:80], entry=entry, config=res.config,
                     msg="the result of the trapezoid integration is wrapped in an absolute value: ∫(−f) = −∫f and superposition no longer hold — "
                         "every integrand with a negative integral (difference spectra, opponent filters) comes back with its sign flipped")
    if not evs:
        rep.holds("R-QTY", "the integral is linear in the integrand", where=res.fn.loc(), construct="result of the integrator", entry=entry,
                  config=res.config)


def gradient_weights(rep, res, entry):
    """np.gradient(domain) is a central-difference step, not a trapezoid weight vector: its end weights are full steps"""
    for ev in res.events("np_gradient"):
        a = ev.d["arg"]
        if "domain" in a.flat().data or "self.domain" in a.flat().data:
            rep.violated("R-FLOW", "trapezoid end weights are half steps", where=ev.loc, construct=ev.text(), entry=entry, config=res.config,
                         msg="np.gradient(domain) gives (x[i+1]-x[i-1])/2 in the interior — the trapezoid weight — but FULL steps at both ends; "
                             "used as quadrature weights it double-counts the first and last sample")


def _reg(an):
    from .C14 import registration_writes
    return registration_writes(an)
