"""C03 — gamut membership (necessary structure of 'in gamut iff reproducible').

Decided:
  R-FLOW     the vertex set is the image of all 2^n corners of the intensity box (product over {0,1} with one factor per
             source, affinely mapped to [lb, ub] in intensity units); `bounded` is derived from the finiteness of ub and the
             same value steers vertex construction and the membership test
             no corner of the box is dropped by position (rows of the corner cloud may be removed by value — exactly-zero rows
             in the chromatic branch — never by index); on every path of the membership routine (each return, the end of each
             exception handler and of each conditional arm) the answer depends on the targets themselves, not only on a
             rank-truncated projection of them
  R-QTY      adaptation and baseline are applied exactly once before the test (no second K in the vertex construction);
             both operands of every membership test share unit and frame: the same offset is removed from the vertex cloud
             and from the targets; no dimensionless literal is added to a dimensioned quantity except at the enumerated site
             (generators of the unbounded cone)
  R-FORWARD  the estimator passes its live A, lb, ub and K/baseline conditioned on the same `relative` flag, in the plain and
             in the chromatic (normalized) branch
  R-PURITY   caller arrays and registered targets are not modified by a membership query
  R-DIM1     chromatic membership never hands 1-wide (dichromat) data to qhull
Not decided: the iff itself — point location, the np.isclose(norm, 0) tolerance of the NNLS fallback, degenerate hulls."""
from __future__ import annotations
from ..spec import rel_axis, arr, num, const, none, flag, estimator_fields, S, U_REL, U_INT, U_CAPTURE
from .. import rules as R
from ..model import norm_text
from .common import opts, cfgname, lsq_configs
from . import formulation as F
from . import convexcommon as CC

OPTS = opts()
EXPLANATION = __doc__
RULE_TEXT = "frame algebra with offset identities (DIFF(o)); units; dependence; guarded-use of 1-wide data"
EST = CC.EST

AXES = {
    "K": (["vec", "mat", None], ["vec", "mat", None]),
    "baseline": (["vec", None], ["vec", None]),
    "ub": (["finite", "inf"], ["finite", "inf"]),
    "lb": (["nonneg", "any"], ["nonneg", "any"]),
    "Brank": ([2, 1], [2, 1]),
}


def _is_unit_step_above_lb(node, fname):
    """`np.ones(n) + lb` / `lb + 1` / `1.0 + lb`: an ADDITION of the literal one (array) to the lower bounds — the only enumerated site"""
    import ast as _ast
    if fname == "get_P_from_A":
        return True
    if not (isinstance(node, _ast.BinOp) and isinstance(node.op, _ast.Add)):
        return False
    def is_one(n):
        if isinstance(n, _ast.Constant):
            return n.value in (1, 1.0)
        return isinstance(n, _ast.Call) and (getattr(n.func, "attr", None) or getattr(n.func, "id", None)) in ("ones", "ones_like")
    def is_lb(n):
        return any(isinstance(x, _ast.Name) and x.id.startswith("lb") for x in _ast.walk(n))
    return (is_one(node.left) and is_lb(node.right)) or (is_one(node.right) and is_lb(node.left))


def allow(ev):
    if ev.d.get("sub") == "literal" and (ev.fn.name == "get_P_from_A" or any(q.split(":")[-1] == "get_P_from_A" for q in ev.path)) \
            and "lb" in ev.text() and _is_unit_step_above_lb(getattr(ev, "node", None), ev.fn.name):
        # `1 + lb` in any spelling, in get_P_from_A or a helper it calls
        return "unit generators of the unbounded cone: the direction set of a cone does not depend on the scale (E7)"
    return None


def check(rep, an, tier):
    R.rule_alias(rep, an.model, "dreye.api.estimator", "ReceptorEstimator", "in_gamut", "in_hull")
    # the bounds every clause below speaks of are the REGISTERED ones: registration keeps / replaces exactly what it is given
    from .C14 import register_bounds_rule
    register_bounds_rule(rep, an)
    spec = CC.hooks()
    for cfg in lsq_configs(tier, AXES):
        kw = CC.geometry_inputs(K=cfg["K"], baseline=cfg["baseline"], ub=cfg["ub"], lb=cfg["lb"], Brank=cfg["Brank"])
        res = an.run(f"{CC.CONVEX}:in_hull_from_A", kws=kw, spec=spec, config=cfgname(cfg))
        entry = "in_hull_from_A"
        CC.vertex_set(rep, res, entry)
        CC.corner_subset(rep, res, entry)
        CC.no_projected_decision(rep, res, entry)
        CC.exact_triangulation(rep, res, entry)
        n = CC.membership_frames(rep, res, entry)
        if n == 0:
            rep.undecided("R-QTY", "membership operands share a frame", entry=entry, config=res.config, construct="in_hull(P_, B_)")
        CC.bounded_consistency(rep, res, entry, cfg["ub"])
        solver_residual_tolerance(rep, res, entry)
        if cfg["ub"] == "inf":
            # unbounded sources: the gamut is the cone  capture(lb) + cone{directions}; the offset removed from vertices and targets
            # before the conic-combination test must be that apex — the capture of the LOWER BOUNDS (with lb = 0: the baseline)
            for ev in res.events("membership_call"):
                P = ev.d["P"]
                m = P.tag("minus") if P is not None else None
                st = None if m is None else ("lb" in {o.split("|")[0] for o in m.flat().data})
                rep.check("R-QTY", "unbounded gamut: the cone is anchored at the capture of the lower bounds", st, where=ev.loc,
                          construct=f"offset removed before {ev.text()}", entry=entry, config=res.config,
                          msg="the offset subtracted from the vertices and the targets does not depend on lb: for lb ≠ 0 the cone of an unbounded "
                              "system is anchored at the wrong point, so targets below the lower bounds (even the all-off capture) are accepted")
                # … it is that capture ITSELF: the per-channel minimum over the vertices coincides with it only while K·A is non-negative;
                # with a signed (opponent) adaptation matrix the minimum is taken at other corners and is not the apex of the cone
                if m is not None and st:
                    ext = m.flat().tag("extremum")
                    rep.check("R-QTY", "unbounded gamut: the apex is the capture of the lower bounds itself", ext is None, where=ev.loc,
                              construct=f"offset removed before {ev.text()}", entry=entry, config=res.config,
                              msg=f"the offset is an extremum ({ext[0] if isinstance(ext, tuple) else ext}) over the gamut vertices: for an adaptation matrix with negative entries the "
                                  f"per-channel minimum is not the capture of the lower bounds, the cone is anchored outside the gamut and captures "
                                  f"of intensities strictly inside the bounds are reported out of gamut")
                # … and it is one value PER CHANNEL (the vertex axis alone is reduced): a single scalar for all channels is the apex only
                # when every channel has the same darkest capture
                ms, ps = (m.flat().shape if m is not None else None), (P.flat().shape if P is not None else None)
                if ms is not None and ps is not None and not ms.ell and not ps.ell and ps.rank >= 1:
                    per_channel = ms.rank >= 1 and ms.axes[-1] == ps.axes[-1]
                    rep.check("R-QTY", "unbounded gamut: the apex is taken per channel", per_channel, where=ev.loc,
                              construct=f"offset removed before {ev.text()}", entry=entry, config=res.config,
                              msg=f"the offset subtracted from the vertices has shape {ms} (an overall extremum) instead of one value per channel: "
                                  f"with lb > 0 or a non-zero baseline the channels have different darkest captures, the cone is anchored at a "
                                  f"point outside the gamut and reachable targets are called out of gamut")
        F.qty(rep, res, entry, allow=allow, subs=("mismatch", "literal"))
        R.rule_type_errors(rep, res, "SHAPE", "R-SHAPE", entry)
        R.rule_purity(rep, res, entry)
        R.rule_index_space(rep, res, entry)
        R.rule_no_global_state(rep, res, entry)
        R.rule_dtype(rep, res, entry)
        vertex_tolerances(rep, res, entry)
        # the vertex cloud depends on the bounds, A, K, baseline
        for ev in res.events("membership_call")[:1]:
            d = ev.d["P"].flat().data
            need = {"A", "lb"} | ({"ub"} if cfg["ub"] == "finite" else set()) | ({"K"} if cfg["K"] else set()) \
                | ({"baseline"} if cfg["baseline"] else set())
            for o in sorted(need):
                rep.check("R-FLOW", f"{o} → gamut vertices", o in d, where=ev.loc, construct=f"{o} → vertex cloud of {ev.text()}",
                          entry=entry, config=res.config, msg=f"vertices depend on {sorted(d)}")
            rep.check("R-NOFLOW", "targets do not shape the gamut", "B" not in ev.d["P"].flat().data, where=ev.loc,
                      construct=f"B ↛ vertex cloud of {ev.text()}", entry=entry, config=res.config)
    # estimator: plain and chromatic membership
    for normalized in (False, True):
        for Fax in (("F",) if not normalized else ("F", "#2")):
            def kws_of(rel, normalized=normalized, Fax=Fax):
                return dict(B=CC.target(rel, S("N", Fax if Fax == "F" else ("#2",))), normalized=flag("normalized", normalized))
            extra = None
            if Fax == "#2":
                extra = dict(A=arr("self.A", S(("#2",), "SRC"), {"c": 1, "s": -1}, "GAIN", sign="NONNEG"),
                             K=arr("self.K", S(("#2",)), {"rho": 1, "c": -1}),
                             baseline=arr("self.baseline", S(("#2",)), U_CAPTURE, "BASE", sign="NONNEG"))
            from .C12 import hooks as c12hooks
            ress = CC.relative_forwarding(rep, an, "in_hull", kws_of, {"in_hull_from_A", "get_P_from_A"}, tier, extra_fields=extra,
                                          spec=(c12hooks() if normalized else spec), entry=f"ReceptorEstimator.in_hull[normalized={normalized},F={Fax}]")
            for res in ress:
                ent = f"ReceptorEstimator.in_hull[normalized={normalized},F={Fax}]"
                CC.membership_frames(rep, res, ent)
                CC.corner_subset(rep, res, ent)
                if normalized:
                    CC.zero_rows(rep, res, ent)
                CC.dim1(rep, res, ent)
                R.rule_purity(rep, res, ent)
                R.rule_index_space(rep, res, ent)
                F.qty(rep, res, ent, allow=allow, subs=("mismatch", "literal"))
                R.rule_effect_free(rep, res, ent, reg=_reg(an))
                # the hull tested against is spanned by the gamut's vertices: it depends on the system and on BOTH registered bounds
                for mv in res.events("membership_call")[:2]:
                    Pv = mv.d.get("P")
                    if Pv is None:
                        continue
                    pd = {x.split("|")[0] for x in Pv.flat().data}
                    for o in ("self.A", "self.lb", "self.ub"):
                        rep.check("R-FLOW", f"{o} → vertices of the hull tested by in_hull", o in pd, where=mv.loc, construct=f"{o} → P of {mv.text()[:50]}",
                                  entry=ent, config=res.config,
                                  msg=f"the point set handed to the membership test depends on {sorted(pd)} but not on {o}: it is not the set of "
                                      f"captures of all bound combinations (e.g. single sources at their upper bound span the gamut's chromaticities "
                                      f"only for lb = 0 and baseline = 0)")
                # the verdict handed back is the geometry layer's verdict: not and-ed / or-ed with a second predicate on the targets alone
                for rv in [r_ for r_ in res.events("return") if len(r_.path) == 1]:
                    bc = rv.d["val"].flat().tag("bool_combined") or rv.d["val"].tag("bool_combined")
                    if bc is None:
                        continue
                    extra = [o for o in bc[1:] if not ({"self.A", "A"} & {x.split("|")[0] for x in o.flat().data})]
                    if extra:
                        rep.violated("R-FLOW", "the returned verdict is the membership test's verdict", where=rv.loc, construct=rv.text()[:80],
                                     entry=ent, config=res.config,
                                     msg=f"the gamut verdict is combined ({bc[0]}) with a predicate that does not involve the system at all (it depends on "
                                         f"{sorted(extra[0].flat().data)} only): captures that in-bound intensities produce are rejected (or unreachable ones "
                                         f"accepted) whenever that predicate disagrees — e.g. negative capture components under an opponent K")
    rep.require("R-QTY", 10)
    rep.require("R-FLOW", 30)
    rep.require("R-FORWARD", 20)
    rep.require("R-PURITY", 4)


def vertex_tolerances(rep, res, entry):
    """the gamut's vertices are built from the bounds and the capture matrix at every scale: no absolute tolerance decides which
    sources / corners take part (only the residual test of the fallback path is a tolerance, and it has its own rule)"""
    seen = set()
    for ev in res.events("abs_tolerance"):
        if not ev.d.get("dimensioned") or not any("get_P_from_A" in q for q in ev.path):
            continue
        at = ev.d.get("atol")
        if (at is not None and at.known and at.const == 0) or (ev.loc, ev.text()) in seen:
            continue
        seen.add((ev.loc, ev.text()))
        rep.violated("R-VALUE", "no absolute tolerance shapes the gamut's vertex set", where=ev.loc, construct=ev.text(), entry=entry,
                     config=res.config,
                     msg="an absolute tolerance on bounds / captures (quantities with physical units) decides which corners are built: for "
                         "bounds in small units (ub − lb ≲ 1e-8) sources count as pinned, the gamut collapses and captures produced by "
                         "in-bound intensities are reported out of gamut")


def solver_residual_tolerance(rep, res, entry):
    """on the fallback path (unbounded sources, flat gamuts) membership is 'the non-negative least-squares residual is zero': a residual
    that comes out of a numerical solver must not be compared with np.isclose's default absolute tolerance (1e-8) — cvxpy's default
    QP solver (OSQP) stops at an absolute accuracy of about 1e-5, so in-bound captures are rejected"""
    seen = set()
    for ev in res.events("abs_tolerance"):
        a, b = ev.d["operands"]
        solved = [x for x in (a, b) if any(o.startswith("sol#") for o in x.flat().data)]
        zero = [x for x in (a, b) if x.known and x.const == 0]
        if not solved or not zero:
            continue
        k = (ev.loc, ev.text())
        if k in seen:
            continue
        seen.add(k)
        at = ev.d.get("atol")
        st = None if at is not None else False
        rep.check("R-VALUE", "a solver residual is not compared with the default absolute tolerance", st, where=ev.loc, construct=ev.text(),
                  entry=entry, config=res.config,
                  msg="membership on the fallback path is `np.isclose(residual norm, 0)` with the default atol=1e-8, but the residual is the "
                      "output of cvxpy's default QP solver, whose absolute accuracy is about 1e-5: captures produced by intensities strictly "
                      "inside the bounds are reported out of gamut (unbounded sources: 12–87 % accepted in an independent run-time probe)")


def _reg(an):
    from .C14 import registration_writes
    return registration_writes(an)
