"""C05 — samples are fitted independently; batch size never changes or breaks a result.

Decided (for every abstract configuration, i.e. for all concrete inputs matching it):
  R-STACK      operands of every cvx operation in a batched formulation are stacked the same way
               (named axes bs⊗F / bs⊗SRC); regroupings are C-order; stacking is sample-major
  R-SEP        reducers over the stacked axis: additive in objectives, per-row in constraints
  R-TYPESTATE  every Parameter is refreshed inside the solve loop on every path to solve()
  R-DEFASSIGN  the batch index of the padded batch is bound on every path (zero-trip loops)
  R-VALUE      no bound-method-as-array
  R-ROWSEP     nothing stored per sample went through a reduction over the sample axis
  R-FLOW       weights parameter depends on W only, targets parameter on {B,W,K,baseline} only
  R-DISPATCH   get_batch_size: None → 1, 'full' → n, int → itself
Not decided: slice arithmetic partitions [0,n); solver warm-start; numerical equality of optima."""
from __future__ import annotations
from ..engine import HOLDS, VIOLATED, UNDECIDED, AnalysisError
from ..spec import lsq_inputs, const, none, flag, strv, num, arr, intv, S, U_INT, U_REL
from .. import rules as R
from ..model import norm_text
from .common import LSQ, opts, base_kws, cfgname, lsq_configs

OPTS = opts()
LEVEL = "other"
EXPLANATION = __doc__
RULE_TEXT = ("separability argument: with block-diagonal A_ (block_diag(*[A]*bs)), sample-major stacked vectors, "
             "additive objective reducers and per-row constraints the stacked programme is the direct sum of the "
             "per-sample programmes; parameters refreshed every iteration make solve i depend on rows of batch i only")

ENTRIES = [
    ("lsq_linear", dict(model="gaussian")),
    ("lsq_linear", dict(model="poisson")),
    ("lsq_linear_excitation", {}),
    ("lsq_linear_minimize", {}),
]

AXES = {
    "bs": (["sym", 1, "full"], ["sym", 1, "full", None]),
    "lb": (["nonneg", "any"], ["nonneg", "any"]),
    "W": (["mat", "vec", "inverse"], ["mat", "vec", None, "inverse"]),
    "K": (["vec"], ["vec", "mat", None]),
    "baseline": (["vec"], ["vec", None, "scalar"]),
}


def run_entry(an, fname, extra, cfg, L1=None):
    kw = lsq_inputs(K=cfg["K"], baseline=cfg["baseline"], W=cfg["W"], lb=cfg["lb"], ub="finite", bs=cfg["bs"],
                    nonneg_B=(extra.get("model") == "poisson" or fname == "lsq_linear_excitation"))
    kw.update(base_kws())
    if "model" in extra:
        kw["model"] = const(extra["model"])
    if fname == "lsq_linear_minimize":
        kw["Epsilon"] = none()
        kw["norm"] = none()
        kw["l2_eps"] = num("l2_eps", U_REL, sign="POS")
        kw["l1_eps"] = num("l1_eps", U_INT, sign="POS")
        kw["L1"] = none() if L1 is None else arr("L1", S("N"), U_INT, sign="NONNEG")
    name = fname + ("[" + extra["model"] + "]" if "model" in extra else "")
    c = dict(cfg)
    if fname == "lsq_linear_minimize":
        c["L1"] = "given" if L1 else "None"
    return an.run(f"{LSQ}:{fname}", kws=kw, config=cfgname(c)), name


def check(rep, an, tier):
    n_stack_err = 0
    results = []
    for fname, extra in ENTRIES:
        cfgs = list(lsq_configs(tier, AXES))
        if tier == "quick":
            d0 = {n: AXES[n][0][0] for n in AXES}
            cfgs.append(dict(d0, K=None, baseline="scalar"))       # scalar baseline (one-element array) × batch stacking
        for cfg in cfgs:
            for L1 in ([None, True] if fname == "lsq_linear_minimize" else [None]):
                res, name = run_entry(an, fname, extra, cfg, L1)
                results.append((res, name, cfg))
                if cfg["bs"] == "sym":
                    R.rule_stack(rep, res, entry=name)
                    R.rule_sep(rep, res, entry=name)
                R.rule_refresh(rep, res, entry=name)
                R.rule_defassign(rep, res, entry=name)
                R.rule_value(rep, res, entry=name)
                R.rule_rowsep(rep, res, entry=name)
                R.rule_every_iteration_solves(rep, res, entry=name)
                R.rule_row_pick(rep, res, entry=name)
                R.rule_iterator_reuse(rep, res, entry=name)
                R.rule_extent_coincidence(rep, res, entry=name)
                R.rule_index_space(rep, res, entry=name)
                R.rule_display_neutral(rep, res, entry=name)
                R.rule_full_block_count(rep, res, entry=name)
                R.rule_iter_arrays_per_sample(rep, res, entry=name)
                R.rule_type_errors(rep, res, "SHAPE", "R-STACK", name) if cfg["bs"] != "sym" else None
                flow_params(rep, res, name, cfg)
                bad_kwargs(rep, res, name)
    # the attained error of a preliminary fit may be handed over as ONE number: it is the slack of every sample
    d0 = {n: AXES[n][0][0] for n in AXES}
    for bs in ("sym", 1):
        cfg = dict(d0, bs=bs)
        kw = lsq_inputs(K=cfg["K"], baseline=cfg["baseline"], W=cfg["W"], lb=cfg["lb"], ub="finite", bs=bs)
        kw.update(base_kws())
        kw.update(Epsilon=none(), norm=num("norm", U_REL, sign="NONNEG"), l2_eps=num("l2_eps", U_REL, sign="POS"),
                  l1_eps=num("l1_eps", U_INT, sign="POS"), L1=none())
        res = an.run(f"{LSQ}:lsq_linear_minimize", kws=kw, config=cfgname(dict(cfg, norm="number")))
        R.rule_iter_arrays_per_sample(rep, res, entry="lsq_linear_minimize")
        R.rule_type_errors(rep, res, "SHAPE", "R-STACK", "lsq_linear_minimize") if bs != "sym" else None
    # the underdetermined fit accepts batch_size: either it declines every size but 1 (as the pinned tree does, by assertion) or its batched
    # formulation is separable like the others — checked for every named secondary objective
    for opt in ("l2", "min", "max", "var"):
        kw = lsq_inputs(K=d0["K"], baseline=d0["baseline"], W=d0["W"], lb=d0["lb"], ub="finite", bs="sym")
        kw.update(base_kws())
        kw.update(underdetermined_opt=strv("underdetermined_opt", opt), l2_eps=num("l2_eps", U_REL, sign="POS"))
        name = f"lsq_linear_underdetermined[{opt}]"
        try:
            res = an.run(f"{LSQ}:lsq_linear_underdetermined", kws=kw, config=cfgname(dict(d0, bs="sym", opt=opt)))
        except AnalysisError:
            continue
        solved = [e_ for e_ in res.events("solve")]
        # `assert batch_size == 1` that the configuration (some other batch size) cannot satisfy: the entry declines
        declines = [e_ for e_ in res.events("assert") if e_.fn.name == "lsq_linear_underdetermined" and e_.d["truth"] is not True
                    and "batch_size" in e_.text().split(",")[0]]
        if declines or not solved or not res.events("return"):
            rep.holds("R-SEP", "underdetermined fit: batched formulation separable, or other batch sizes declined", where=res.fn.loc(),
                      construct=f"batch_size ≠ 1 with option '{opt}'", entry=name, config=res.config, msg="declined (no batched problem is solved)")
            continue
        R.rule_stack(rep, res, entry=name)
        R.rule_sep(rep, res, entry=name)
        R.rule_rowsep(rep, res, entry=name)
    dispatch_batch_size(rep, an)
    # frozen minimums confirmed by hand on the pinned tree (quick tier counts)
    rep.require("R-STACK", 20)
    rep.require("R-SEP", 6)
    rep.require("R-TYPESTATE", 12)
    rep.require("R-ROWSEP", 12)
    rep.require("R-FLOW", 12)
    rep.require("R-DISPATCH", 4)


def bad_kwargs(rep, res, name):
    for ev in res.events("bad_kwarg"):
        rep.violated("R-FORWARD", "keyword accepted by callee", where=ev.loc, construct=ev.text(), entry=name,
                     config=res.config, msg=f"callee {ev.fn.name} has no parameter(s) {ev.d['names']}")


def flow_params(rep, res, name, cfg):
    """weights parameter ← W only; targets parameter ← {B, W, K, baseline}; identified by what is stored, not by name:
    the Parameter that receives a value depending on B is the target parameter."""
    if cfg["W"] is None:
        return
    for o, stores in R.param_stores(res):
        for s in stores:
            v = s.d["val"].flat()
            data = {d for d in v.data if not d.startswith(("xsample@", "sol#", "par#"))}
            if "B" in data:
                extra = data - {"B", "W", "K", "baseline", "l2_eps", "norm", "A", "lb", "ub", "L1", "l1_eps", "batch_size"}
                # per-sample target/tolerance parameters
                rep.check("R-FLOW", "target parameter depends on its own inputs", not extra, where=s.loc,
                          construct=s.text(), entry=name, config=res.config,
                          msg=f"unexpected origins {sorted(extra)}" if extra else f"DATA={sorted(data)}")
            elif "W" in data:
                rep.check("R-FLOW", "weight parameter depends on W only", data <= {"W"}, where=s.loc,
                          construct=s.text(), entry=name, config=res.config,
                          msg=(f"the weights of a sample depend on {sorted(data - {'W'})}: row i of the result no "
                               f"longer depends only on row i of the targets and of its weights") if not data <= {"W"}
                          else "DATA={W}")
    # conversely: a Parameter fed with weights must exist, and no weight parameter may depend on B
    for o, stores in R.param_stores(res):
        for s in stores:
            v = s.d["val"].flat()
            if v.unit == {"w": 1} and "B" in v.data:
                rep.violated("R-FLOW", "weight parameter depends on W only", where=s.loc, construct=s.text(), entry=name,
                             config=res.config, msg="a value with the unit of the weights depends on the targets B "
                                                    "(weights of row i selected through the targets)")


def dispatch_batch_size(rep, an):
    entry = "dreye.api.optimize.utils:get_batch_size"
    tot = intv("total_size", "N")
    cases = [("None", none(), lambda r: r.known and r.const == 1, "1"),
             ("'full'", strv("batch_size", "full"), lambda r: r.tag("dim") == ("N",) or "total_size" in r.data, "total_size"),
             ("'total'", strv("batch_size", "total"), lambda r: r.tag("dim") == ("N",) or "total_size" in r.data, "total_size"),
             ("int", intv("batch_size", "bs"), lambda r: r.tag("dim") == ("bs",), "itself")]
    for label, v, ok, want in cases:
        res = an.run(entry, kws=dict(batch_size=v, total_size=tot), config=f"batch_size={label}")
        r = res.value
        raised = [e for e in res.events("raise") if e.fn.name == "get_batch_size"]
        good = None
        if res.events("return"):
            good = bool(ok(r))
        elif raised:
            good = False
        rep.check("R-DISPATCH", f"get_batch_size({label}) → {want}", good,
                  where=res.fn.loc(), construct=f"get_batch_size({label})", entry="get_batch_size", config=res.config,
                  msg=f"returns {r!r}" if good is not True else "ok")
    res = an.run(entry, kws=dict(batch_size=strv("batch_size", "bogus"), total_size=tot), config="batch_size='bogus'")
    raised = [e for e in res.events("raise")]
    from . import formulation as F_
    rep.check("R-DISPATCH", "get_batch_size(other str) → raise", F_.raises(res),
              where=res.fn.loc(), construct="get_batch_size('bogus')", entry="get_batch_size", config=res.config)
