"""Obligations shared by the fitting properties (C04, C07–C11, C15): which inputs reach the objective /
constraints, declared return types, returned = predicted, sign attributes, units and frames."""
from __future__ import annotations
from ..engine import HOLDS, VIOLATED, UNDECIDED
from .. import rules as R
from ..model import norm_text
from ..values import ustr, POLY, ONE, Shape, plain_dep
from .. import ext_models as X


def ret_items(res):
    v = res.value
    return v.items if v.items is not None else [v]


def final_problems(res):
    """Problems whose variables' solution reaches the first returned value (the intensities)."""
    x = ret_items(res)[0]
    refs = R.sol_ids(x)
    out = []
    I = R._FakeI(res)
    for po, obj, cons in R.problems_of(res):
        vars_ = X.problem_leaves(I, po, ("cvxvar",))
        if vars_ & refs:
            out.append((po, obj, cons))
    return out


def where_po(po):
    return f"{po.fn.module.relpath}:{po.node.lineno}"


def flow_objective(rep, res, entry, need, probs=None, label="objective", rule="R-FLOW"):
    probs = probs if probs is not None else final_problems(res)
    if not probs:
        rep.undecided(rule, f"{label}: problem found", entry=entry, config=res.config,
                      construct="cp.Problem reaching the returned intensities")
        return
    for po, obj, cons in probs:
        if obj is None:
            continue
        deps = R.closure_deps(res, obj)
        for o in sorted(need):
            ok, how = plain_dep(deps, o)
            rep.check(rule, f"{o} → {label}", ok, where=where_po(po),
                      construct=f"{o} → {label} of the problem built in {po.fn.name}", entry=entry, config=res.config,
                      msg=((f"input `{o}` reaches the {label} only through a lossy map on some path ({', '.join(how)}: clamp / rounding / "
                            f"projection): the optimum is computed for a different `{o}` than the one given") if how else
                           (f"input `{o}` never reaches the {label} (DATA origins reaching it: {sorted(deps)}): "
                            f"the fit cannot depend on it")) if not ok else f"DATA ⊇ {{{o}}}")
    must_enter(rep, res, entry, need, label, rule)
    if label == "objective":
        returns_solution(rep, res, entry, need, rule)


def returns_solution(rep, res, entry, need, rule="R-FLOW"):
    """every exit of the entry returns the optimiser's solution: an exit whose intensities come from somewhere else (a closed-form
    shortcut) and do not even depend on an input the objective needs (weights, adaptation …) is a different estimator on that path"""
    for r in res.events("return"):
        if len(r.path) != 1:
            continue
        v = r.d["val"]
        x = (v.items[0] if v.items else v).flat()
        if R.sol_ids(x) or x.known:
            continue
        have = {o.split("|")[0] for o in x.data}
        missing = sorted(set(need) - have)
        if not (have & {"A", "B"}):
            continue        # not a fit result at all (empty input, constants): other rules
        if missing:
            rep.violated(rule, "every exit returns the solution of the stated problem", where=r.loc, construct=r.text()[:80], entry=entry,
                         config=res.config,
                         msg=f"on this exit the returned intensities are not the solver's solution and do not depend on {missing}: "
                             f"a shortcut (closed-form / unconstrained solution) replaces the weighted, bounded problem for the inputs that take it")
        else:
            rep.undecided(rule, "every exit returns the solution of the stated problem", where=r.loc, construct=r.text()[:80], entry=entry,
                          config=res.config, msg="an exit returns intensities that are not solver output")


def must_enter(rep, res, entry, origins, label="objective", rule="R-FLOW"):
    """an input that enters the cvx expressions directly (as a numeric operand, not through a Parameter) does so on EVERY path: the
    sites where it enters are not all guarded by tests the configuration leaves undecided (e.g. a test on the input's own values)"""
    import ast as _ast

    def undecided(ev, o=None):
        out = []
        for g in ev.guards:
            if len(g) > 3 and not g[3]:
                # `if np.any(o):` around an ADDED term skips exact zeros only — adding an all-zero term is a no-op
                t = g[2]
                deps = g[4] if len(g) > 4 else None
                opd = set()
                for x_ in ev.d.get("operands", ()):
                    if o is not None and o in x_.flat().data:
                        opd |= set(x_.flat().data) | set(x_.flat().shp)
                if o is not None and g[1] is True and isinstance(t, _ast.Call) and deps is not None and o in set(deps) and set(deps) <= opd and (
                        (isinstance(t.func, _ast.Attribute) and t.func.attr == "any")) and ev.d.get("atom") in ("add", "multiply", "mul", "matmul"):
                    continue
                out.append((g[0], g[1]))
        return out
    for o in sorted(origins):
        evs = [ev for ev in res.events("cvx_entry") if any(o in x.flat().data for x in ev.d["operands"])]
        if not evs:
            continue
        free = [ev for ev in evs if not undecided(ev, o)]
        ok = bool(free)
        if not ok:
            singles = [u[0] for u in (undecided(ev, o) for ev in evs) if len(u) == 1]
            ok = any((t, not p_) in singles for (t, p_) in singles)
        ev = evs[0]
        rep.check(rule, f"{o} enters the {label} on every path", ok, where=ev.loc, construct=ev.text(), entry=entry, config=res.config,
                  msg=(f"`{o}` enters the problem's expressions only under the undecided guard(s) {[g[0] for g in undecided(ev)]}: for inputs "
                       f"where the guard fails the term is silently dropped from the {label}") if not ok else "enters unconditionally")


def flow_constraints(rep, res, entry, need, probs=None, rule="R-FLOW", what="constraints"):
    """each origin in `need` must DATA-reach at least one constraint"""
    probs = probs if probs is not None else final_problems(res)
    for po, obj, cons in probs:
        # only constraints that (transitively) share a variable with the objective constrain what is optimised: a constraint
        # list built for an earlier variable object of the same name is vacuous for this problem
        ov = set(R.leaf_kinds(res, obj)[1])
        cvs = [(c, R.leaf_kinds(res, c)[1]) for c in cons]
        grew = True
        while grew and ov:
            grew = False
            for c, cv in cvs:
                if cv & ov and not cv <= ov:
                    ov |= cv
                    grew = True
        alld, foreign = set(), set()
        for c, cv in cvs:
            if not ov or not cv or (cv & ov):
                alld |= R.closure_deps(res, c)
            else:
                foreign |= R.closure_deps(res, c)
        # a variable re-parameterised above an offset (x = v + c with v bounded below by a constant, or declared non-negative): the offset c
        # IS the bound — its origins constrain the intensities although no inequality mentions them
        bounded_leaves = set()
        for c, cv in cvs:
            for side in (c.tag("lhs"), c.tag("rhs")):
                if side is not None and side.tag("cvx") == "leaf" and not side.tag("atom"):
                    bounded_leaves |= {r_ for r_ in side.flat().refs if res.heap.get(r_) is not None and res.heap[r_].kind == "cvxvar"}
        for r_ in ov:
            o_ = res.heap.get(r_)
            if o_ is not None and (o_.attrs.get("nonneg") or o_.attrs.get("pos")):
                bounded_leaves.add(r_)
        for at, v_, ops_ in R.walk_atoms(obj):
            if at in ("add", "sub") and len(ops_) == 2:
                leaf = [x_ for x_ in ops_ if x_.tag("cvx") == "leaf" and not x_.tag("atom") and (set(x_.flat().refs) & bounded_leaves)]
                const_ = [x_ for x_ in ops_ if not x_.tag("cvx") or x_.tag("cvx") == "param" or (x_.tag("cvx") == "leaf" and not (set(x_.flat().refs) & ov))]
                if len(leaf) == 1 and len(const_) == 1:
                    alld |= R.closure_deps(res, const_[0])
        for o in sorted(need):
            ok = o in alld
            rep.check(rule, f"{o} → {what}", ok, where=where_po(po),
                      construct=f"{o} → {what} of the problem built in {po.fn.name}", entry=entry, config=res.config,
                      msg=((f"`{o}` reaches only constraints on a variable that this problem does not optimise (a constraint list built for "
                            f"another variable object is reused): the optimised variable is not constrained by it") if o in foreign else
                           (f"`{o}` reaches no constraint of the problem (origins reaching constraints: {sorted(alld)}): "
                            f"the returned intensities are not constrained by it")) if not ok else "reaches a constraint")


def solve_kwargs(rep, res, entry, origin="solver_opt"):
    svs = res.events("solve")
    for sv in svs:
        d = set()
        for v in list(sv.d["kws"].values()) + list(sv.d["args"]):
            d |= v.flat().data
        ok = origin in d
        rep.check("R-FORWARD", "solver keyword pass-through", ok, where=sv.loc, construct=sv.text(), entry=entry,
                  config=res.config,
                  msg="extra keyword arguments of the fit never reach problem.solve(): the documented pass-through "
                      "(e.g. a high-accuracy solver) is swallowed" if not ok else "opt_kwargs reach solve")
    return len(svs)


def qty(rep, res, entry, allow=None, subs=("mismatch",), rule="R-QTY"):
    n = 0
    seen = set()
    for ev in res.events("type_error"):
        if ev.d["facet"] != "QTY":
            continue
        sub = ev.d.get("sub", "mismatch")
        if sub not in subs:
            continue
        k = (ev.loc, ev.text())
        if k in seen:
            continue
        seen.add(k)
        why = allow(ev) if allow else None
        if why:
            rep.advisory(f"{rule}: enumerated site {ev.loc} `{ev.text()[:60]}` — {why}")
            continue
        n += 1
        rep.violated(rule, ev.fn.name, where=ev.loc, construct=ev.text(), entry=entry, config=res.config,
                     msg=ev.d["msg"] + f"   (reached via {' → '.join(p.split(':')[-1] for p in ev.path)})")
    return n


def count_typed(rep, res, entry, rule="R-QTY"):
    """Count the arithmetic sites that were successfully unit-typed (decided obligations of R-QTY)."""
    n = 0
    for po, obj, cons in R.problems_of(res):
        for v in [obj] + cons:
            for atom, val, ops in R.walk_atoms(v):
                if atom in ("add", "sub") and len(ops) == 2 and ops[0].unit is not None and ops[1].unit is not None \
                        and val.unit is not None:
                    n += 1
                    node = val.tag("node")
                    rep.holds(rule, f"{atom} homogeneous", where=f"{po.fn.module.relpath}:{getattr(node, 'lineno', 0)}",
                              construct=norm_text(node) if node is not None else atom, entry=entry, config=res.config,
                              msg=f"[{ustr(ops[0].unit)}] {atom} [{ustr(ops[1].unit)}]; frames {ops[0].frame},{ops[1].frame}")
    return n


def return_types(rep, res, entry, decl, rule="R-SHAPE"):
    """decl: list of (label, Shape|None, unit|None, frame|None)"""
    items = ret_items(res)
    for i, (label, shp, unit, frame) in enumerate(decl):
        if i >= len(items):
            rep.violated(rule, f"return[{i}] {label}", where=res.fn.loc(), construct=f"return value {i} of {res.fn.name}",
                         entry=entry, config=res.config, msg=f"declared {len(decl)} return values, found {len(items)}")
            continue
        v = items[i].flat()
        if shp is not None:
            if v.shape is None or any(a is None for a in v.shape.axes):
                st = None
            else:
                st = (v.shape == shp)
            rep.check(rule, f"return[{i}] {label} shape", st, where=res.fn.loc(), construct=f"return {label} of {res.fn.name}",
                      entry=entry, config=res.config, msg=f"declared {shp}, computed {v.shape}")
        if unit is not None:
            st = None if v.unit is None or v.unit == POLY else (v.unit == unit)
            rep.check("R-QTY", f"return[{i}] {label} unit", st, where=res.fn.loc(), construct=f"return {label} of {res.fn.name}",
                      entry=entry, config=res.config, msg=f"declared [{ustr(unit)}], computed [{ustr(v.unit)}]")
        if frame is not None:
            st = None if v.frame is None else (v.frame == frame)
            rep.check("R-QTY", f"return[{i}] {label} frame", st, where=res.fn.loc(), construct=f"return {label} of {res.fn.name}",
                      entry=entry, config=res.config, msg=f"declared {frame}, computed {v.frame}")


def pred_from_X(rep, res, entry, xi=0, pi=1):
    """R-TYPESTATE(c): the prediction returned next to X is computed from that very X."""
    items = ret_items(res)
    if len(items) <= max(xi, pi):
        return
    x, p = items[xi].flat(), items[pi].flat()
    xr = R.sol_ids(x)
    pr = R.sol_ids(p)
    if not xr:
        rep.undecided("R-TYPESTATE", "returned = predicted", entry=entry, config=res.config,
                      construct=f"return of {res.fn.name}")
        return
    ok = xr <= pr
    rep.check("R-TYPESTATE", "returned = predicted", ok, where=res.fn.loc(), construct=f"prediction returned by {res.fn.name}",
              entry=entry, config=res.config,
              msg="the returned prediction is not computed from the returned intensities" if not ok else
              "prediction is a function of the returned solution")
    okA, how = plain_dep(p.data, "A")
    if not okA and how:
        rep.violated("R-TYPESTATE", "the returned prediction is K(Ax + baseline) itself", where=res.fn.loc(),
                     construct=f"prediction returned by {res.fn.name}", entry=entry, config=res.config,
                     msg=f"the returned prediction depends on the capture matrix only through a lossy map ({', '.join(how)}: clamp / rounding): it is "
                         f"not the capture K(Ax + baseline) of the returned intensities wherever the map is active (e.g. negative components)")


def sign_attrs(rep, res, entry):
    """R-SIGN: a cvxpy leaf declared pos/nonneg only receives values that are not 'may be negative by construction'."""
    for o, stores in R.param_stores(res):
        declared = o.attrs.get("pos") or o.attrs.get("nonneg")
        if not declared:
            continue
        for s in stores:
            v = s.d["val"].flat()
            if v.sign == "ANY":
                rep.violated("R-SIGN", "sign attribute of Parameter", where=f"{o.fn.module.relpath}:{o.node.lineno}",
                             construct=f"{norm_text(o.node)} ← {s.text()}", entry=entry, config=res.config,
                             msg=f"Parameter declared positive receives `{norm_text(s.node.value) if hasattr(s.node, 'value') else s.text()}`, "
                                 f"a difference of independent inputs (target minus baseline) that is negative for targets below "
                                 f"the baseline → cvxpy raises 'Parameter value must be positive'")
            elif v.sign in ("NONNEG", "POS"):
                rep.holds("R-SIGN", "sign attribute of Parameter", where=s.loc, construct=s.text(), entry=entry,
                          config=res.config, msg=f"stored value is {v.sign} by construction")
            else:
                rep.undecided("R-SIGN", "sign attribute of Parameter", where=s.loc, construct=s.text(), entry=entry,
                              config=res.config)


def variable_sign(rep, res, entry):
    """a sign attribute of the intensity VARIABLE (pos / nonneg = an implicit constraint x ≥ 0) may only be declared when the lower
    bounds allow it: whatever decides the declaration must look at lb"""
    for o in res.heap.values():
        if o.kind != "cvxvar":
            continue
        kws = o.attrs.get("decl_kws") or {}
        cand = [kws[k] for k in ("pos", "nonneg", "**") if k in kws]
        if not cand:
            continue
        maybe_set = any(not (v.known and not v.const) for v in cand)
        if not maybe_set:
            continue
        deps = set()
        for v in cand:
            deps |= {x.split("|")[0] for x in v.flat().deps_all()}
        for g in o.attrs.get("decl_guards") or ():
            if len(g) > 4 and g[4]:
                deps |= {x.split("|")[0] for x in g[4]}
        if not ({"lb", "ub", "self.lb", "self.ub"} & deps):
            continue            # not a bound-dependent declaration (e.g. an auxiliary variable): other rules
        ok = bool({"lb", "self.lb"} & deps)
        node = getattr(o, "node", None)
        rep.check("R-SIGN", "the sign attribute of the intensity variable is decided by the lower bounds", ok,
                  where=f"{o.fn.module.relpath}:{o.node.lineno}" if node is not None and getattr(o, "fn", None) is not None else res.fn.loc(),
                  construct=norm_text(o.node)[:80] if node is not None else "cp.Variable(…, **kwargs)", entry=entry, config=res.config,
                  msg=f"the variable is declared positive under a condition on {sorted(deps & {'ub', 'self.ub'})} only: with negative lower bounds "
                      f"(and non-negative upper bounds) the implicit x ≥ 0 cuts off the admissible negative intensities — in-gamut targets are "
                      f"not reproduced")
        # … and it is declared only when EVERY lower bound is non-negative: the deciding expression is evaluated under the hypothetical
        # content "some entries negative, some zero" of lb (np.any(lb >= 0), not np.all(lb < 0) would still declare it)
        import ast as _ast
        if ok and isinstance(node, _ast.Call) and getattr(o, "fn", None) is not None:
            for k_ in node.keywords:
                if k_.arg in ("pos", "nonneg") or k_.arg is None:
                    r_ = guard_under(k_.value, True, "N", {"lb"}, fn_node=o.fn.node)
                    if r_ is None:
                        continue
                    rep.check("R-SIGN", "the intensity variable is declared non-negative only if every lower bound is", r_ is False,
                              where=f"{o.fn.module.relpath}:{o.node.lineno}", construct=norm_text(o.node)[:80], entry=entry, config=res.config,
                              msg="with lower bounds of mixed sign (some negative, some ≥ 0) the deciding test is still true: the sign attribute "
                                  "adds an implicit x ≥ 0 that overrides the negative lower bounds — targets that need a negative intensity are "
                                  "not reproduced and the fit is not the optimum over [lb, ub]")


def forwards(rep, res, entry, callee_names, need, rule="R-FORWARD", exact=True):
    """The call(s) from the entry into the fitting layer bind each parameter in `need` (dict callee-param ->
    required origin) to a value that DATA-depends on that origin."""
    calls = [ev for ev in res.events("call") if ev.d["callee"].name in callee_names and R.near(ev)]
    if not calls:
        rep.undecided(rule, "call into fitting layer", entry=entry, config=res.config, construct=",".join(callee_names))
        return []
    for ev in calls:
        fn = ev.d["callee"]
        bound = dict(ev.d["kws"])
        for i, a in enumerate(ev.d["args"]):
            if i < len(fn.params):
                bound.setdefault(fn.params[i], a)
        # the adaptation may be applied by the wrapper itself (K=None handed on, A / baseline already multiplied by the live K)
        kv = bound.get("K")
        av = bound.get("A")
        folded = ("K" in need and (kv is None or (kv.known and kv.const is None)) and av is not None and need["K"] in av.flat().data)
        system = {need.get(q) for q in ("A", "lb", "ub", "K", "baseline")} - {None}
        for p, origin in need.items():
            v = bound.get(p)
            if v is None and "**" in bound:
                v = bound["**"]
            if folded and p in ("A", "lb", "ub", "K", "baseline"):
                if p == "K":
                    bv = bound.get("baseline")
                    ok = bv is None or (bv.known and bv.const is None) or need["K"] in bv.flat().data or "baseline" not in need
                else:
                    extra = {o for o in v.flat().data if o not in system and not o.startswith(("self._", "sol#", "par#", "xsample@", "pick@"))} \
                        if v is not None else {"<absent>"}
                    ok = v is not None and origin in v.flat().data and not extra
                rep.check(rule, f"{origin} → {fn.name}({p}=) [adaptation applied by the wrapper]", ok, where=ev.loc,
                          construct=f"{fn.name}(… {p}= …) in {ev.fn.name}", entry=entry, config=res.config,
                          msg=f"`{p}` of {fn.name} is bound to a value computed from {sorted(v.flat().data) if v is not None else 'nothing'}")
                continue
            ok = v is not None and origin in v.flat().data
            if ok and exact:
                extra = {o for o in v.flat().data if o != origin and not o.startswith(("sol#", "par#", "xsample@", "pick@"))}
                # unseeded randomness must not reach a forwarded option in any way (not even through int(...) / a size)
                extra |= {o for o in v.flat().deps_all() if o.startswith("entropy@")}
                if extra:
                    ok = False
            rep.check(rule, f"{origin} → {fn.name}({p}=)", ok, where=ev.loc, construct=f"{fn.name}(… {p}= …) in {ev.fn.name}",
                      entry=entry, config=res.config,
                      msg=(f"`{p}` of {fn.name} is " + ("not passed" if v is None else f"bound to a value computed from {sorted(v.flat().data | {o for o in v.flat().deps_all() if o.startswith('entropy@')})}")
                           + f" instead of being handed on unchanged from {origin}") if not ok else "forwarded")
    return calls


def guard_under(test, pol, valuation, names, fn_node=None, depth=0):
    """Three-valued evaluation (True / False / None) of a guard expression under a hypothetical content of a non-negative bound array:
    valuation 'Z' = all entries 0, 'P' = all entries positive, 'M' = zeros and positives mixed.  Only the vocabulary that guards on
    bounds use is understood: np.all / np.any / .all() / .any() of the array or of a comparison of it with 0, np.isfinite, not / and /
    or, and local names assigned once from such expressions (dict / conditional expressions count by truthiness)."""
    import ast as _ast
    elems = {"Z": {0}, "P": {1}, "M": {0, 1}, "N": {0, -1}}[valuation]

    def is_arr(n):
        return isinstance(n, _ast.Name) and (n.id in names or n.id.rstrip("_") in names)

    def elemwise(n):
        """set of possible element truth values of an elementwise expression over the array, or None"""
        if is_arr(n):
            return {bool(e) for e in elems}
        if isinstance(n, _ast.Compare) and len(n.ops) == 1 and is_arr(n.left) and isinstance(n.comparators[0], _ast.Constant) \
                and n.comparators[0].value == 0:
            op = n.ops[0]
            f = {_ast.Gt: lambda e: e > 0, _ast.GtE: lambda e: e >= 0, _ast.Eq: lambda e: e == 0, _ast.NotEq: lambda e: e != 0,
                 _ast.Lt: lambda e: e < 0, _ast.LtE: lambda e: e <= 0}.get(type(op))
            return {f(e) for e in elems} if f else None
        if isinstance(n, _ast.Call) and isinstance(n.func, _ast.Attribute) and n.func.attr == "isfinite" and n.args and is_arr(n.args[0]):
            return {True}
        if isinstance(n, _ast.UnaryOp) and isinstance(n.op, _ast.Invert):
            r = elemwise(n.operand)
            return None if r is None else {not x for x in r}
        return None

    def ev(n, depth=0):
        if isinstance(n, _ast.Constant):
            return bool(n.value)
        if isinstance(n, _ast.UnaryOp) and isinstance(n.op, _ast.Not):
            r = ev(n.operand, depth)
            return None if r is None else (not r)
        if isinstance(n, _ast.BoolOp):
            rs = [ev(x, depth) for x in n.values]
            if isinstance(n.op, _ast.And):
                return False if any(r is False for r in rs) else (True if all(r is True for r in rs) else None)
            return True if any(r is True for r in rs) else (False if all(r is False for r in rs) else None)
        if isinstance(n, _ast.Call) and isinstance(n.func, _ast.Attribute) and n.func.attr in ("all", "any"):
            arg = n.args[0] if n.args else n.func.value
            r = elemwise(arg)
            if r is None:
                return None
            return all(r) if n.func.attr == "all" else any(r)
        if isinstance(n, _ast.Dict):
            return bool(n.keys)
        if isinstance(n, _ast.Call) and isinstance(n.func, _ast.Name) and n.func.id == "bool" and len(n.args) == 1:
            return ev(n.args[0], depth)
        if isinstance(n, _ast.IfExp):
            t = ev(n.test, depth)
            if t is None:
                a_, b_ = ev(n.body, depth), ev(n.orelse, depth)
                return a_ if a_ == b_ else None
            return ev(n.body if t else n.orelse, depth)
        if isinstance(n, _ast.Name) and fn_node is not None and depth < 3 and not is_arr(n):
            assigns = [st for st in _ast.walk(fn_node) if isinstance(st, _ast.Assign) and len(st.targets) == 1
                       and isinstance(st.targets[0], _ast.Name) and st.targets[0].id == n.id]
            if len(assigns) == 1:
                return ev(assigns[0].value, depth + 1)
        return None
    r = ev(test)
    return None if r is None else (r if pol else not r)


def must_constraint(rep, res, entry, origin, label, probs=None, rule="R-FLOW", local_only=False):
    """Under a configuration in which the bound is finite, a constraint carrying `origin` is added on EVERY path:
    its creation is guarded only by tests the configuration decides (or by complementary guards)."""
    probs = probs if probs is not None else final_problems(res)
    evs = [ev for ev in res.events("cvx_constraint") if origin in R.closure_deps(res, ev.d["val"])]
    if not evs:
        return          # absence is reported by flow_constraints
    # a constraint that receives the bound only through the SOLUTION of an earlier problem (a tolerance computed from a first-stage fit)
    # does not enforce the bound
    direct = [ev for ev in evs if not any(o.startswith("sol#") for o in R.closure_deps(res, ev.d["val"]))]
    if direct:
        evs = direct
    # the side on which the bound stands: a lower bound is the smaller side of the inequality (x ≥ lb / lb ≤ x), an upper bound the
    # larger one — a constraint that merely mentions the other bound (e.g. through a mask computed from both) is not its constraint
    def side_ok(ev):
        c = ev.d["val"]
        op, l_, r_ = c.tag("op"), c.tag("lhs"), c.tag("rhs")
        if op not in ("GtE", "LtE", "Gt", "Lt") or l_ is None or r_ is None:
            return True
        small, large = (r_, l_) if op in ("GtE", "Gt") else (l_, r_)
        bound_side = small if "lower" in label else (large if "upper" in label else None)
        if bound_side is None:
            return True
        return origin in R.closure_deps(res, bound_side) and not bound_side.flat().refs & R.leaf_kinds(res, c)[1]
    sided = [ev for ev in evs if side_ok(ev)]
    if sided:
        evs = sided
    import ast as _ast

    def skips_only_zero(g, ev):
        """`if np.any(lb > 0):` / `if np.any(lb):` around `x >= lb` when x is declared non-negative: the constraint is skipped only for
        lb ≡ 0, where the sign attribute already enforces it"""
        t = g[2]
        if not (g[1] is True and isinstance(t, _ast.Call) and isinstance(t.func, _ast.Attribute) and t.func.attr == "any" and t.args):
            return False
        a0 = t.args[0]
        if isinstance(a0, _ast.Compare):
            if not (len(a0.ops) == 1 and isinstance(a0.ops[0], (_ast.Gt, _ast.NotEq)) and isinstance(a0.comparators[0], _ast.Constant)
                    and a0.comparators[0].value == 0):
                return False
        deps = set(g[4]) if len(g) > 4 and g[4] is not None else None
        if deps is None or origin not in deps or not deps <= {origin}:
            return False
        vids = R.leaf_kinds(res, ev.d["val"])[1]
        return bool(vids) and all((res.heap[v].attrs.get("pos") or res.heap[v].attrs.get("nonneg")) for v in vids) and "lower" in label

    inp = getattr(res, "inputs", {}).get(origin)
    maybe_neg = inp is not None and inp.sign not in ("NONNEG", "POS") and "lower" in label

    _inside = {}

    def local(g, ev):
        """with local_only: only the guards inside the function that builds the constraint count (the callers' guards are the path
        condition under which a fit is requested at all)"""
        if not local_only:
            return True
        ids = _inside.get(id(ev.fn))
        if ids is None:
            ids = _inside[id(ev.fn)] = {id(n) for n in _ast.walk(ev.fn.node)}
        return id(g[2]) in ids

    def undecided(ev):
        return [(g[0], g[1]) for g in ev.guards if len(g) > 3 and not g[3] and local(g, ev) and not (skips_only_zero(g, ev) and not maybe_neg)]
    free = [ev for ev in evs if not undecided(ev)]
    ok = bool(free)
    if not ok:
        und = [undecided(ev) for ev in evs]
        singles = [u[0] for u in und if len(u) == 1]
        ok = any((t, not p) in singles for (t, p) in singles)
    if not ok and "lower" in label:
        # evaluate the guards under hypothetical contents of the (non-negative) bound: the constraint must be present whenever some entry
        # is positive ('P', 'M'); it may be absent for an all-zero bound ('Z') only if the variable is declared non-negative
        present = {}
        for val_ in ("Z", "P", "M"):
            best = False
            for ev_ in evs:
                rs = [guard_under(g[2], g[1], val_, {origin}, ev_.fn.node) for g in ev_.guards if len(g) > 3 and not g[3] and local(g, ev_)]
                r = False if any(x is False for x in rs) else (True if all(x is True for x in rs) else None)
                best = True if (best is True or r is True) else (None if (best is None or r is None) else False)
            present[val_] = best
        if present["P"] is True and present["M"] is True:
            vids = set()
            for ev_ in evs:
                vids |= R.leaf_kinds(res, ev_.d["val"])[1]
            nonneg = bool(vids) and all((res.heap[v].attrs.get("pos") or res.heap[v].attrs.get("nonneg")) for v in vids)
            ok = True if (present["Z"] is True or nonneg) else None
        elif present["P"] is False or present["M"] is False:
            ok = False
        else:
            ok = False if all(x is not None for x in present.values()) else ok
    if maybe_neg and not free:
        # the bound may have negative entries (no sign attribute then): the constraint must be present for a bound with entries ≤ 0
        best = False
        for ev_ in evs:
            rs = [guard_under(g[2], g[1], "N", {origin}, ev_.fn.node) for g in ev_.guards if len(g) > 3 and not g[3] and local(g, ev_)]
            r = False if any(x is False for x in rs) else (True if all(x is True for x in rs) else None)
            best = True if (best is True or r is True) else (None if (best is None or r is None) else False)
        if best is False:
            ok = False
    ev = evs[0]
    rep.check(rule, f"{label} enforced on every path", ok, where=ev.loc, construct=ev.text(), entry=entry, config=res.config,
              msg=(f"the only constraint carrying `{origin}` is created under the undecided guard(s) "
                   f"{[g[0] for g in undecided(ev)]}: for inputs where the guard fails the bound is not enforced "
                   f"(a sign attribute enforces only x ≥ 0)") if not ok else "added unconditionally for this configuration")


def mixed_upper_bounds(rep, res, entry):
    """an upper bound with finite AND infinite entries: either the call rejects it (the bound validation), or the finite entries are
    enforced by a constraint; accepting it while the only upper-bound constraint requires ALL entries to be finite drops the bound"""
    r = raises(res)
    if r is True:
        rep.holds("R-DISPATCH", "mixed finite / infinite upper bounds are rejected or enforced", where=res.fn.loc(),
                  construct="ub with finite and infinite entries", entry=entry, config=res.config, msg="rejected (raises)")
        return
    evs = [ev for ev in res.events("cvx_constraint") if "ub" in R.closure_deps(res, ev.d["val"])
           and not any(o.startswith("sol#") for o in R.closure_deps(res, ev.d["val"]))]
    rets = [x for x in res.events("return") if len(x.path) == 1]
    st = None if evs else (False if (r is False or rets) else None)
    rep.check("R-DISPATCH", "mixed finite / infinite upper bounds are rejected or enforced", st, where=res.fn.loc(),
              construct="ub with finite and infinite entries", entry=entry, config=res.config,
              msg="an upper bound that is finite for some sources and infinite for others is accepted, but no constraint carries it (the "
                  "upper-bound constraint is only added when ALL entries are finite): the finite bounds are silently dropped and the "
                  "returned intensities exceed them")


def every_row_solved(rep, res, entry):
    """the returned intensities are solver output in EVERY row: a zero-initialised result that is written only through a data-dependent
    row mask leaves the unselected rows at 0, which is neither within positive lower bounds nor the optimum"""
    items = ret_items(res)
    if not items:
        return
    x = items[0].flat()
    m = x.tag("filled_through_mask")
    if m is not None and R.sol_ids(x):
        rep.violated("R-TYPESTATE", "every row of the returned intensities is a solver result", where=res.fn.loc(), construct=m, entry=entry,
                     config=res.config,
                     msg=f"the result buffer is zero-initialised and written only through the row mask in `{m}`: rows the mask leaves out keep "
                         f"the intensity 0 (below any positive lower bound, and not the fitted optimum)")


def shifted_variable_bounds(rep, res, entry, rule="R-QTY"):
    """the intensities handed back are the value of `v + c` (a variable re-parameterised above an offset c, e.g. the lower bounds): a
    bound written on the bare variable v then bounds the intensity MINUS c — its other side must carry c too (v ≤ ub − c), or the
    bound is written on the shifted expression itself"""
    heap = res.heap
    items = ret_items(res)
    if not items:
        return
    want = R.sol_ids(items[0])
    shifts = {}
    for ev in res.events("value_load"):
        b = ev.d["base"]
        a = b.tag("atom")
        if not a or a[0] not in ("add", "sub") or len(a[1]) != 2:
            continue
        leaf = [o for o in a[1] if o.tag("cvx") == "leaf" and any(heap.get(r_) is not None and heap[r_].kind == "cvxvar" for r_ in o.flat().refs)]
        const_ = [o for o in a[1] if not o.tag("cvx")]
        if len(leaf) != 1 or len(const_) != 1:
            continue
        vid = [r_ for r_ in leaf[0].flat().refs if heap.get(r_) is not None and heap[r_].kind == "cvxvar"]
        if not vid or vid[0] not in want:
            continue
        od = {o.split("|")[0] for o in const_[0].flat().data}
        if od:
            shifts[vid[0]] = (od, ev)
    for vid, (od, sev) in shifts.items():
        for ev in res.events("cvx_constraint"):
            c = ev.d["val"]
            l_, r_ = c.tag("lhs"), c.tag("rhs")
            if l_ is None or r_ is None:
                continue
            for bare, other in ((l_, r_), (r_, l_)):
                if bare.tag("cvx") == "leaf" and vid in bare.flat().refs and not bare.tag("atom"):
                    deps = {o.split("|")[0] for o in R.closure_deps(res, other)}
                    if not deps or other.tag("cvx") in ("leaf", "expr"):
                        continue
                    rep.check(rule, "a bound on a re-parameterised variable accounts for the offset", bool(od & deps), where=ev.loc,
                              construct=ev.text()[:80], entry=entry, config=res.config,
                              msg=f"the returned intensities are the variable plus an offset computed from {sorted(od)}, but this constraint bounds "
                                  f"the bare variable by a quantity that does not involve {sorted(od)} (it depends on {sorted(deps)}): the intensity "
                                  f"itself is bounded by that quantity PLUS the offset")


def hygiene(rep, res, entry, shape=True, purity=True, dtype=True, value=True, refresh=True):
    """Rules that apply to every fitting entry point."""
    every_row_solved(rep, res, entry)
    shifted_variable_bounds(rep, res, entry)
    variable_sign(rep, res, entry)
    R.rule_no_global_state(rep, res, entry)
    R.rule_extent_coincidence(rep, res, entry)
    R.rule_block_cover(rep, res, entry)
    R.rule_display_neutral(rep, res, entry)
    R.rule_iter_arrays_per_sample(rep, res, entry)
    R.rule_count_denominator(rep, res, entry)
    R.rule_dtype_casts(rep, res, entry)
    R.rule_row_pick(rep, res, entry)
    R.rule_iterator_reuse(rep, res, entry)
    R.rule_index_space(rep, res, entry)
    if refresh:
        R.rule_every_iteration_solves(rep, res, entry)
    if shape:
        R.rule_type_errors(rep, res, "SHAPE", "R-SHAPE", entry)
    if value:
        R.rule_value(rep, res, entry)
    if purity:
        R.rule_purity(rep, res, entry)
    if dtype:
        R.rule_dtype(rep, res, entry)
    if refresh:
        R.rule_refresh(rep, res, entry)


def typed_sites(rep, res, entry, rule="R-QTY"):
    """each numpy-level +, −, comparison whose operands both carry a (non-trivial) unit and agree: a decided obligation"""
    seen = set()
    for ev in res.events("typed_op"):
        k = (ev.loc, ev.text())
        if k in seen:
            continue
        seen.add(k)
        rep.holds(rule, f"{ev.d['op']} homogeneous", where=ev.loc, construct=ev.text()[:90], entry=entry, config=res.config,
                  msg=f"both operands in [{ustr(ev.d['unit'])}]")
    return len(seen)


def raises(res, top_only=True, also_no=lambda res: False):
    """three-valued: does the entry raise for this configuration?  True: it raises on every explored path (no return of the
    entry); False: nothing raises; None: some paths raise and some return (the analyser could not decide the guard)."""
    rs = [e for e in res.events("raise")]
    rets = [r for r in res.events("return") if len(r.path) == 1]
    if rs and not rets:
        return True
    if not rs:
        return False
    return None


def wrapper_returns_solution(rep, res, entry, callee_names, labels):
    """an estimator method that wraps a fitting routine returns that routine's results as they are: on every path each returned
    component still depends on the solver's solution it came from (a component replaced by a constant / a rounded stand-in on some
    path no longer belongs to the other components)"""
    calls = [ev for ev in res.events("call") if ev.d["callee"].name in callee_names and R.near(ev) and ev.d.get("result") is not None]
    if not calls:
        return
    rets = [r for r in res.events("return") if len(r.path) == 1 and r.d["val"].items is not None]
    inner = calls[-1].d["result"]
    if inner.items is None:
        return
    for r in rets:
        for k, (lab, it) in enumerate(zip(labels, r.d["val"].items)):
            if k >= len(inner.items):
                break
            fi = inner.items[k].flat()
            want_any = {o for o in fi.data if o.startswith("sol#")}
            if not want_any:
                continue
            # what the routine's own result guarantees on every path (its internal merges, e.g. a possibly zero-trip batch loop, count)
            want_must = {o for o in fi.tags.get("must_data", fi.data) if o.startswith("sol#")}
            f = it.flat()
            must = set(f.tags.get("must_data", f.data))
            ok = bool(want_any & set(f.data)) and want_must <= must and (bool(want_must) or f.tags.get("must_data") is None
                                                                       or f.tags.get("must_data") == fi.tags.get("must_data"))
            if not ok and any(o.split("|")[0].startswith("self._") for o in f.data):
                ok = None       # on some path the component is read back from a private field the specification does not declare (a memo of
                                # earlier results): whether that memo can go stale is the cache rule's business (R-EFFECT), not decided here
            rep.check("R-TYPESTATE", f"returned {lab} is the fitting routine's {lab} on every path", ok, where=r.loc,
                      construct=f"{lab} in `{r.text()[:60]}`", entry=entry, config=res.config,
                      msg=f"on some path the returned {lab} no longer depends on the solution computed by {calls[-1].d['callee'].name} (it is "
                          f"replaced by a constant / stand-in): it then does not belong to the other returned components")
