"""C14 — answers depend only on what is currently registered; queries are pure.

The history quantifier collapses to static facts decided per method (for all histories, by induction on the sequence):
  R-EFFECT   write set of every method of ReceptorEstimator (transitively through self. calls), discovered from the class:
             registrations write exactly their group and overwrite it on EVERY path (register_targets resets the weights when
             none are given; register_bounds writes a bound iff it is given; register_system assigns all seven system fields);
             fit* / minimize_variance write their result fields only when they run on the registered targets (B is None) and
             nothing when targets are passed explicitly; every other method (queries, properties, aliases, helpers, plots) has
             an empty write set — no cached hulls or transformed matrices
             a registration never computes what it stores from the value it replaces (outside the documented add=True modes)
  R-NOFLOW   the derived stored fields (A, Epsilon, sources_domain) do not depend on K, baseline, bounds or targets
  R-PURITY   no in-place write reaches a caller array or a stored field (also under the non-default query options
             normalized=True, explicit neutral point, l1=, relative=False; a helper reached with a fresh array on one path and
             with the caller's array on another is judged for each); no module-level mutable state; no global RNG
  R-FORWARD  (in C03/C04/C06/C12/C13) queries read K, baseline, lb, ub, A, W from self at call time
Scope notes: fit(model=<callable>) (JAX path, JAX absent) is excluded; register_uncertainty is outside the property's alphabet
(it makes Epsilon history dependent — advisory); plot methods mutate caller-supplied dict kwargs (advisory: the property speaks
of arrays and queries).  Internal-mode fits overwrite self.B with the fitted captures (documented behaviour of fit(); a second
internal fit then targets the previous fit — advisory).
Not decided: bit-for-bit determinism of cvxpy/qhull; solver warm starts."""
from __future__ import annotations
import ast
from ..spec import (arr, num, intv, strv, const, none, flag, opaque, estimator_fields, lsq_inputs, S, U_REL, U_INT, U_CAPTURE, U_SIGNAL,
                    U_W, U_K)
from .. import rules as R
from ..model import norm_text
from .. import ext_models as X
from .common import opts, cfgname
from . import convexcommon as CC
from .C19 import est_fields
from . import domains as D

OPTS = opts()
EXPLANATION = __doc__
RULE_TEXT = "effect analysis (per-method transitive write sets of self), definite assignment of fields, alias/freshness analysis"
EST = CC.EST
MOD = "dreye.api.estimator"
CLS = "ReceptorEstimator"

REGISTRATIONS = {
    "register_uncertainty": {"filters_uncertainty"},
    "register_adaptation": {"K"},
    "register_background_adaptation": {"K"},
    "register_system_adaptation": {"K"},
    "register_baseline": {"baseline"},
    "register_system": {"sources", "sources_domain", "lb", "ub", "sources_labels", "A", "Epsilon"},
    "register_targets": {"target_B", "B", "W"},
}
FITS = {
    "fit": {"X", "B"},
    "fit_underdetermined": {"X", "B"},
    "fit_adaptive": {"X", "B", "scales"},
    "fit_decomposition": {"X", "P", "B"},
    "minimize_variance": {"X", "B", "Bvar"},
}
INIT = {"filters", "domain", "filters_uncertainty", "w", "W", "labels", "K", "baseline"}


def B_():
    return arr("B", S("N", "F"), U_REL, "TOTAL", sign="NONNEG")


ARGS = {
    "capture": lambda: dict(signals=arr("signals", S("S", "D"), U_SIGNAL), domain=none()),
    "uncertainty_capture": lambda: dict(signals=arr("signals", S("S", "D"), U_SIGNAL), domain=none()),
    "relative_capture": lambda: dict(signals=arr("signals", S("S", "D"), U_SIGNAL), domain=none()),
    "system_capture": lambda: dict(X=arr("X", S("N", "SRC"), U_INT)),
    "system_relative_capture": lambda: dict(X=arr("X", S("N", "SRC"), U_INT)),
    "in_system": lambda: dict(X=arr("X", S("N", "SRC"), U_INT)),
    "in_hull": lambda: dict(B=B_()),
    "range_of_solutions": lambda: dict(B=B_(), error=strv("error", "ignore"), n=intv("n", "NS")),
    "hull_l1_scaling": lambda: dict(B=B_()),
    "hull_dist_scaling": lambda: dict(B=B_(), neutral_point=none()),
    "sample_in_hull": lambda: dict(n=intv("n", "NSAMP"), seed=intv("seed"), engine=none(), l1=none()),
    "compute_hull": lambda: dict(seed=intv("seed")),
    "_relative_capture": lambda: dict(B=arr("B", S("N", "F"), U_CAPTURE, "LIGHT")),
    "_check_domain": lambda: dict(domain=none(), signals=arr("signals", S("S", "D"), U_SIGNAL)),
    "_get_P_from_A": lambda: dict(),
}


# non-default options of queries that open further code paths (one extra run each)
VARIANTS = {
    "in_hull": lambda: [("normalized=True", dict(B=B_(), normalized=flag("normalized", True)))],
    "hull_dist_scaling": lambda: [("neutral_point given", dict(B=B_(), neutral_point=arr("neutral_point", S("F"), U_REL, sign="POS")))],
    "hull_l1_scaling": lambda: [("relative=False", dict(B=arr("B", S("N", "F"), U_CAPTURE, "LIGHT", sign="NONNEG"), relative=flag("relative", False)))],
    "sample_in_hull": lambda: [("l1 given", dict(n=intv("n", "NSAMP"), seed=intv("seed"), engine=strv("engine", "Halton"), l1=num("l1", U_REL, sign="POS")))],
    "range_of_solutions": lambda: [("n=None", dict(B=B_(), error=strv("error", "raise"), n=none()))],
}


def check(rep, an, tier):
    model = an.model
    methods = model.modules[MOD].classes.get(CLS)
    if not methods:
        raise R.AnalysisError(f"anchor lost: class {CLS} not found in {MOD}")
    fields = estimator_fields(K="vec", baseline="vec", uncertainty="given", Epsilon="array")
    n_query = 0
    aliases = {}
    for name, fn in sorted(methods.items()):
        if name in REGISTRATIONS or name in FITS or name in ("__init__", "register_bounds"):
            continue
        if name.startswith("_") and not name.startswith("__"):
            continue        # private helpers are covered transitively through the public methods that call them
        # ------------------------------------------------------------ queries (incl. properties, aliases, helpers, plots)
        kw = ARGS.get(name, lambda: {})()
        plot = name.endswith("_plot")
        res = an.run(f"{EST}.{name}", kws=kw, self_fields=dict(fields), config="query")
        entry = f"ReceptorEstimator.{name}"
        n_query += 1
        R.rule_effect_free(rep, res, entry, reg=registration_writes(an), what=f"`{name}` is not a registration or an internal-mode fit")
        if not plot:
            R.rule_purity(rep, res, entry)
        else:
            for ev in res.events("dict_store")[:2]:
                rep.advisory(f"{entry}: caller-supplied dict keyword argument is updated in place at {ev.loc} `{ev.text()[:50]}`")
        R.rule_no_global_state(rep, res, entry)
        global_rng(rep, res, entry)
        if "seed" in kw:
            unseeded(rep, res, entry)         # a seed is given (seed=None documents an unseeded draw)
        variants = list(VARIANTS.get(name, lambda: [])())
        if name in ("in_hull", "sample_in_hull", "range_of_solutions", "compute_hull"):
            variants.append(("unbounded sources (ub=inf)", ARGS.get(name, lambda: {})(), "inf"))
        for var in variants:
            vlabel, vkw = var[0], var[1]
            vfields = dict(fields) if len(var) < 3 else estimator_fields(K="vec", baseline="vec", uncertainty="given", Epsilon="array", ub=var[2])
            vres = an.run(f"{EST}.{name}", kws=vkw, self_fields=vfields, config=vlabel)
            if "seed" in vkw:
                unseeded(rep, vres, entry)
            if vres.events("self_store"):
                R.rule_effect_free(rep, vres, entry, reg=registration_writes(an), what=f"`{name}` [{vlabel}]")
            R.rule_purity(rep, vres, entry)
            R.rule_no_global_state(rep, vres, entry)
            global_rng(rep, vres, entry)
    # ------------------------------------------------------------ registrations: exact write sets on every path
    reg_cfgs = reg_configs()
    for name, cfgs in reg_cfgs.items():
        if name not in methods:
            raise R.AnalysisError(f"anchor lost: {CLS}.{name}")
        for label, kw in cfgs:
            f = dict(fields)
            if name == "register_system":
                for k in ("A", "Epsilon", "sources", "sources_domain", "lb", "ub", "sources_labels"):
                    f.pop(k, None)
            res = an.run(f"{EST}.{name}", kws=kw, self_fields=f, config=label)
            entry = f"ReceptorEstimator.{name}"
            top = [ev for ev in res.events("self_store")]
            written = {ev.d["attr"] for ev in top}
            # definitely written: a store whose guards are all decided by the configuration
            definite = {ev.d["attr"] for ev in top if not [g for g in ev.guards if len(g) > 3 and not g[3]]}
            want = REGISTRATIONS[name]
            for a in sorted(want):
                rep.check("R-EFFECT", f"{name} (re)assigns self.{a} on every path", a in definite, where=res.fn.loc(),
                          construct=f"self.{a} in {name} [{label}]", entry=entry, config=label,
                          msg=(f"re-registering does not fully replace the old value: self.{a} is "
                               + ("only conditionally assigned" if a in written else "not assigned") + f" for {label}"))
            # re-registering fully replaces the old value: what is stored must not be computed from the old content of the
            # group it replaces (the documented add=True modes of the adaptation registrations excepted)
            adding = "add=True" in label
            for ev in top:
                a_ = ev.d["attr"]
                if a_ not in want or adding:
                    continue
                old = sorted(o for o in ev.d["val"].flat().data if o.startswith("self.") and o[5:] in want)
                rep.check("R-EFFECT", f"{name} does not rebuild self.{a_} from the value it replaces", not old, where=ev.loc, construct=ev.text(),
                          entry=entry, config=label,
                          msg=f"the stored self.{a_} is computed from the previously registered {old}: registering the same values in a "
                              f"different order / after other registrations yields a different estimator")
            # resetting a cache attribute (an undeclared `_name` set to a constant / empty container) is not a write of registered state
            resets = {a_ for a_ in written - want if a_.startswith("_") and a_ not in fields
                      and all(not ev.d["val"].flat().data for ev in top if ev.d["attr"] == a_)}
            extra = written - want - resets
            rep.check("R-EFFECT", f"{name} writes only its own group", not extra, where=res.fn.loc(), construct=f"write set of {name} [{label}]",
                      entry=entry, config=label, msg=f"also writes {sorted(extra)}")
            if name == "register_system":
                for ev in top:
                    if ev.d["attr"] in ("A", "Epsilon", "sources_domain"):
                        v = ev.d["val"].flat()
                        stale = {"self.K", "self.baseline", "self.lb", "self.ub", "self.B", "self.W", "self.target_B", "lb", "ub"} & set(v.data)
                        rep.check("R-NOFLOW", f"derived field {ev.d['attr']} independent of re-registrable state", not stale, where=ev.loc,
                                  construct=ev.text(), entry=entry, config=label, msg=f"depends on {sorted(stale)}")
            R.rule_purity(rep, res, entry)
            rebinds(rep, res, entry, label)
    register_bounds_rule(rep, an, fields)
    # ------------------------------------------------------------ fits: write only in internal mode
    bsv = lsq_inputs(bs=1)["batch_size"]
    fit_kws = {
        "fit": dict(model=const("gaussian"), batch_size=bsv, verbose=const(0)),
        "fit_underdetermined": dict(underdetermined_opt=none(), batch_size=bsv, verbose=const(0)),
        "fit_adaptive": dict(neutral_point=none(), adaptive_objective=strv("adaptive_objective", "unity"), verbose=const(0)),
        "fit_decomposition": dict(n_layers=intv("n_layers", "L"), mask=none(), seed=intv("seed"), subsample=none(), verbose=const(0),
                                  max_iter=intv("max_iter"), init_iter=intv("init_iter")),
        "minimize_variance": dict(Epsilon=none(), batch_size=bsv, verbose=const(0), L1=none(), norm=none()),
    }
    for name, want in FITS.items():
        if name not in methods:
            raise R.AnalysisError(f"anchor lost: {CLS}.{name}")
        variants = [(False, None), (True, None)]
        if name == "minimize_variance":
            variants += [(False, "Epsilon given"), (True, "Epsilon given")]      # an explicit variance model is an argument, not a registration
        for internal, extra in variants:
            kw = dict(fit_kws[name])
            kw["B"] = none() if internal else B_()
            label = f"internal={internal}" + (f",{extra}" if extra else "")
            if extra == "Epsilon given":
                kw["Epsilon"] = arr("Epsilon", S("F", "SRC"), {"c": 2, "s": -2}, sign="NONNEG")
            res = an.run(f"{EST}.{name}", kws=kw, self_fields=dict(fields), config=label)
            entry = f"ReceptorEstimator.{name}"
            all_written = {ev.d["attr"] for ev in res.events("self_store")}
            caches = {a_ for a_ in all_written if a_.startswith("_") and a_ not in fields}
            written = all_written - caches
            if caches:
                # private cache attributes are judged by the cache rule (stale after some registration → violated)
                R.rule_effect_free(rep, res, entry, allowed=tuple(written), reg=registration_writes(an), what=f"`{name}` [{label}]")
            if internal:
                rep.check("R-EFFECT", f"{name}() stores its results", written == want, where=res.fn.loc(),
                          construct=f"write set of {name} [{label}]", entry=entry, config=label, msg=f"writes {sorted(written)}, declared {sorted(want)}")
            else:
                rep.check("R-EFFECT", f"{name}(B) with explicit targets writes nothing", not written, where=res.fn.loc(),
                          construct=f"write set of {name} [{label}]", entry=entry, config=label,
                          msg=f"a fit with explicit targets assigns self.{sorted(written)}: it changes the answer to later queries "
                              f"(registered targets / last fit are overwritten)")
            R.rule_purity(rep, res, entry)
            R.rule_no_global_state(rep, res, entry)
            global_rng(rep, res, entry)
    # the other models of `fit` share the process with every other estimator: no state outside the object (module globals, mutable defaults)
    for model in ("poisson", "excitation"):
        kw = dict(model=const(model), batch_size=bsv, verbose=const(0), B=B_())
        res = an.run(f"{EST}.fit", kws=kw, self_fields=dict(fields), config=f"model={model}")
        R.rule_no_global_state(rep, res, "ReceptorEstimator.fit")
        R.rule_purity(rep, res, "ReceptorEstimator.fit")
    # __init__
    res = an.run(f"{EST}.__init__", kws=dict(filters=arr("filters", S("F", "D"), {"phi": 1}), domain=arr("domain", S("D"), {"lam": 1}, isnum=False),
                                            filters_uncertainty=none(), w=num("w", U_W), labels=none(), K=num("K", U_K), baseline=num("baseline", U_CAPTURE),
                                            sources=none(), lb=none(), ub=none(), sources_labels=none()), self_fields={}, config="no system")
    written = {ev.d["attr"] for ev in res.events("self_store")}
    rep.check("R-EFFECT", "__init__ initialises the receptor side", INIT <= written, where=res.fn.loc(), construct="write set of __init__",
              entry="ReceptorEstimator.__init__", config="no system", msg=f"writes {sorted(written)}")
    rep.advisory("fit*() on the registered targets overwrites self.B with the fitted captures (self.target_B keeps the registration): a second "
                 "internal fit targets the previous fit — documented return convention, reported by several independent probes")
    rep.advisory("register_uncertainty after register_system leaves Epsilon stale until the system is registered again (outside the alphabet of C14)")
    rep.require("R-EFFECT", 60)
    rep.require("R-PURITY", 20)
    rep.require("R-NOFLOW", 3)
    rep.extra = {"methods_of_class": len(methods), "queries_checked": n_query}


def global_rng(rep, res, entry):
    for ev in res.events("ext_call"):
        d = ev.d.get("raw") or ev.d["dotted"]
        if d.startswith("numpy.random.") and d.split(".")[-1] in X.GLOBAL_RNG and d not in X.RNG_CTORS:
            rep.violated("R-SEED", "no global RNG", where=ev.loc, construct=ev.text(), entry=entry, config=res.config,
                         msg=f"`{d}` uses NumPy's global generator: results depend on what ran before")
        if d.startswith("random."):
            rep.violated("R-SEED", "no global RNG", where=ev.loc, construct=ev.text(), entry=entry, config=res.config,
                         msg=f"`{d}` uses the global `random` module state")


def unseeded(rep, res, entry):
    """a query whose inputs include a seed is a function of its arguments and the registered state: no unseeded generator
    (default_rng() without the seed, scipy falling back to the global RandomState) may reach the answer"""
    v = res.value.flat()
    ent = sorted(o for o in v.deps_all() if o.startswith("entropy@"))
    if ent:
        rep.violated("R-SEED", "no unseeded randomness reaches a query's answer", where=res.fn.loc(), construct=f"result of {res.fn.name}", entry=entry,
                     config=res.config,
                     msg=f"the answer depends on an unseeded generator created at {', '.join(e.split('@')[1] for e in ent)}: repeating the query (same "
                         f"arguments, same registered state) gives a different answer")


def rebinds(rep, res, entry, label):
    """a registration REPLACES the registered value (rebinds the attribute): writing the new numbers element-wise into the previously
    registered array changes an array that the caller, or another estimator built from it, may still hold"""
    for ev in res.events("self_store"):
        if ev.d.get("how") == "item":
            rep.violated("R-PURITY", "registration rebinds the field instead of writing into the old array", where=ev.loc, construct=ev.text(),
                         entry=entry, config=label,
                         msg=f"self.{ev.d['attr']}[…] = … writes into the array registered earlier: np.asarray / ensure_value keep the caller's "
                             f"ndarray without copying, so the caller's array (and every estimator sharing it) is overwritten")


def reg_configs():
    return {
        "register_uncertainty": [("given", dict(filters_uncertainty=arr("filters_uncertainty", S("F", "D"), {"phi": 1}))),
                                 ("None", dict(filters_uncertainty=none()))],
        "register_adaptation": [("K", dict(K=arr("K", S("F"), U_K)))],
        "register_baseline": [("baseline", dict(baseline=arr("baseline", S("F"), U_CAPTURE)))],
        "register_background_adaptation": [(f"add_baseline={ab},add={ad}", dict(background=arr("background", S("D"), U_SIGNAL), domain=none(),
                                                                             add_baseline=flag("add_baseline", ab), add=flag("add", ad)))
                                           for ab in (True, False) for ad in (True, False)],
        "register_system_adaptation": [(f"add_baseline={ab},add={ad}", dict(x=arr("x", S("SRC"), U_INT), add_baseline=flag("add_baseline", ab),
                                                                         add=flag("add", ad))) for ab in (True, False) for ad in (True, False)],
        "register_system": [(f"Epsilon={e},unc={u}", dict(sources=arr("sources", S("SRC", "D"), U_SIGNAL), domain=none(), lb=none(), ub=none(),
                                                          labels=none(), Epsilon=(none() if e is None else arr("Epsilon", S("F", "SRC"), {"c": 2, "s": -2}))))
                            for e in (None, "given") for u in ("given",)],
        "register_targets": [("W given", dict(B=B_(), W=arr("W", S("N", "F"), U_W, sign="NONNEG"))), ("W=None", dict(B=B_(), W=none()))],
    }


def registration_writes(an):
    """{registration method: fields it may write (any path)} — computed once per analyser from the registration configurations;
    used to decide whether a field written by a QUERY (a cache) is reset by every registration that changes what it was computed from"""
    if getattr(an, "_reg_writes", None) is not None:
        return an._reg_writes
    fields = estimator_fields(K="vec", baseline="vec", uncertainty="given", Epsilon="array")
    out = {}
    cfgs = dict(reg_configs())
    cfgs["register_bounds"] = [("both", dict(lb=arr("lb", S("SRC"), U_INT), ub=arr("ub", S("SRC"), U_INT)))]
    for name, cs in cfgs.items():
        w = None
        for label, kw in cs:
            f = dict(fields)
            if name == "register_system":
                for k in ("A", "Epsilon", "sources", "sources_domain", "lb", "ub", "sources_labels"):
                    f.pop(k, None)
            try:
                res = an.run(f"{EST}.{name}", kws=kw, self_fields=f, config="write-set:" + label)
            except Exception:
                continue
            ws = {ev.d["attr"] for ev in res.events("self_store")}
            w = ws if w is None else (w & ws)          # written in EVERY configuration of that registration
        out[name] = w or set()
    an._reg_writes = out
    return out


def register_bounds_rule(rep, an, fields=None):
    """register_bounds writes a bound iff it is given, stores the given value itself, and independently of the bounds registered before.
    Shared with the properties whose statements speak of the registered bounds (C03, C04, C06, C08–C11, C13)."""
    if fields is None:
        fields = estimator_fields(K="vec", baseline="vec")
    for lbg, ubg in ((True, True), (True, False), (False, True)):
        kw = dict(lb=arr("lb", S("SRC"), U_INT) if lbg else none(), ub=arr("ub", S("SRC"), U_INT) if ubg else none())
        label = f"lb={'given' if lbg else None},ub={'given' if ubg else None}"
        res = an.run(f"{EST}.register_bounds", kws=kw, self_fields=dict(fields), config=label)
        entry = "ReceptorEstimator.register_bounds"
        stores_ = [ev for ev in res.events("self_store") if not ev.d.get("noop")]
        resets = {a_ for a_ in {ev.d["attr"] for ev in stores_} if a_.startswith("_") and a_ not in fields
                  and all(not ev.d["val"].flat().data for ev in stores_ if ev.d["attr"] == a_)}       # cache attributes set to a constant
        written = {ev.d["attr"] for ev in stores_} - resets
        want = ({"lb"} if lbg else set()) | ({"ub"} if ubg else set())
        rep.check("R-EFFECT", "register_bounds writes a bound iff it is given", written == want, where=res.fn.loc(),
                  construct=f"write set of register_bounds [{label}]", entry=entry, config=label,
                  msg=f"writes {sorted(written)} but only {sorted(want)} was given: the bound that was not passed is silently reset")
        for ev in stores_:
            if ev.d["attr"] in resets:
                continue
            v = ev.d["val"].flat()
            from ..values import plain_dep
            okp, how = plain_dep(v.data, ev.d["attr"])
            rep.check("R-FLOW", f"self.{ev.d['attr']} ← the given {ev.d['attr']}", okp, where=ev.loc, construct=ev.text(),
                      entry=entry, config=label,
                      msg=(f"the stored bound is a clamped / rounded image of the given one ({', '.join(how)})" if how else
                           "the stored bound does not depend on the given one"))
            old_ = sorted(o for o in v.data if o.split("|")[0] in ("self.lb", "self.ub"))
            rep.check("R-NOFLOW", f"the registered {ev.d['attr']} does not depend on the previously registered bounds", not old_, where=ev.loc,
                      construct=ev.text(), entry=entry, config=label,
                      msg=f"the stored bound is computed from {old_} — the bounds registered EARLIER: what is stored (and every later answer) "
                          f"depends on the registration history and on the order in which lb and ub are registered")
        rebinds(rep, res, entry, label)
