"""Domain identity bookkeeping for the capture path (C01/C02/C19): every array 'lives on' a domain; an
equalisation produces one new domain and re-samples every array onto it.  The integrator must receive filters,
signals and domain that live on the same domain, and every (domain, array) pair handed to an equalisation or to an
interpolator must belong together."""
from __future__ import annotations
from ..values import Val
from ..spec import arr, num, S, U_FILTER, U_SIGNAL, U_LAMBDA
from ..model import norm_text

EQ = "dreye.api.domain:equalize_domains"
CAP = "dreye.api.capture:calculate_capture"


def on(v, dom):
    v = v.copy()
    v.tags["lives_on"] = dom
    return v


def domain_val(name, kind="array"):
    if kind == "array":
        v = arr(name, S("D@" + name), U_LAMBDA, isnum=False, point=True)
    else:
        v = num(name, U_LAMBDA, sign="POS")
    v.tags["domain_id"] = name
    v.tags["deg"] = {name: 1}
    return v


def _items(v):
    if v is None:
        return None
    if v.items is not None:
        return v.items
    return None


def hooks():
    def pre_eq(I, e, fn, args, kws):
        bound = dict(kws)
        for i, a in enumerate(args):
            if i < len(fn.params):
                bound.setdefault(fn.params[i], a)
        ds, ar = _items(bound.get("domains")), _items(bound.get("arrs"))
        pairs = []
        if ds is not None and ar is not None and len(ds) == len(ar):
            for d, a in zip(ds, ar):
                pairs.append((d.tag("domain_id"), a.tag("lives_on"), d, a))
        I.emit("eq_call", e, pairs=pairs, n_domains=len(ds) if ds is not None else None, n_arrs=len(ar) if ar is not None else None)

    def post_eq(I, e, fn, args, kws, r):
        eqid = ("eq", I.fr.fn.qual, e.lineno)
        if r.items is None or len(r.items) != 2:
            return None
        dom = r.items[0].copy()
        dom.tags["domain_id"] = eqid
        arrs = r.items[1]
        if arrs.items is not None:
            new_items = []
            for a in arrs.items:
                a2 = a.copy()
                a2.tags["lives_on"] = eqid
                new_items.append(a2)
            arrs = arrs.copy(items=new_items)
        else:
            arrs = arrs.copy()
            el = arrs.tag("elem")
            if el is not None:
                el = el.copy()
                el.tags["lives_on"] = eqid
                arrs.tags["elem"] = el
        return Val(items=[dom, arrs], tags={"kind": "tuple"}, data=r.data, shp=r.shp, ctrl=r.ctrl)

    def pre_cap(I, e, fn, args, kws):
        bound = dict(kws)
        for i, a in enumerate(args):
            if i < len(fn.params):
                bound.setdefault(fn.params[i], a)
        f, s, d = bound.get("filters"), bound.get("signals"), bound.get("domain")
        I.emit("cap_call", e, filters=f, signals=s, domain=d,
               ids=(f.tag("lives_on") if f is not None else None, s.tag("lives_on") if s is not None else None,
                    d.tag("domain_id") if d is not None else None))

    def post_cap(I, e, fn, args, kws, r):
        # ascription: the integral of filter × signal is a light-induced capture
        r = r.copy()
        if r.items is None:
            r.frame = "LIGHT"
        return r

    return {"pre": {EQ: pre_eq, CAP: pre_cap}, "post": {EQ: post_eq, CAP: post_cap}}


def fmt(i):
    if isinstance(i, tuple) and i and i[0] == "eq":
        return f"the common domain of the equalisation at line {i[2]} of {i[1].split(':')[-1]}"
    return f"`{i}`"


def consistency(rep, res, entry, rule="R-TYPESTATE"):
    """Every integration receives filters, signals and a domain that live on the same domain; every
    (domain, array) pair of an equalisation belongs together."""
    n = 0
    for ev in res.events("cap_call"):
        f, s, d = ev.d["ids"]
        if ev.d["domain"] is None and f is not None and s is not None:
            rep.violated(rule, "integrand and domain live on one domain", where=ev.loc, construct=ev.text(), entry=entry, config=res.config,
                         msg="the integration is called without a domain: the arrays are integrated with the default unit step instead "
                             "of the domain they live on")
            continue
        if None in (f, s, d):
            rep.undecided(rule, "integrand and domain live on one domain", where=ev.loc, construct=ev.text(), entry=entry,
                          config=res.config)
            continue
        n += 1
        ok = f == s == d
        rep.check(rule, "integrand and domain live on one domain", ok, where=ev.loc, construct=ev.text(), entry=entry,
                  config=res.config,
                  msg=(f"filters live on {fmt(f)}, signals on {fmt(s)}, but the integration runs over {fmt(d)}: the arrays "
                       f"handed to the integrator are not the three results of one equalisation") if not ok else "")
    seen = set()
    for ev in res.events("interp1d"):
        a_s = ev.d.get("assume_sorted")
        if a_s is None or (a_s.known and not a_s.const) or (ev.loc, ev.text()) in seen:
            continue
        seen.add((ev.loc, ev.text()))
        x, y = ev.d["x"], ev.d["y"]
        st = True if x.tag("sorted") else (False if a_s.known else None)
        if x.tag("sorted_by") is not None and y is not None and y.tag("reordered_by") != x.tag("sorted_by"):
            st = False          # the domain was sorted but the array was not reordered with the same permutation
        rep.check(rule, "the interpolator does not assume an ascending domain", st, where=ev.loc, construct=ev.text()[:80], entry=entry,
                  config=res.config,
                  msg="interp1d(..., assume_sorted=True) on a domain as the caller listed it: a descending or shuffled (but otherwise valid) "
                      "domain is treated as out of range everywhere and the array is resampled to the fill value (captures of 0)")
    for ev in res.events("eq_call"):
        for (did, lon, d, a) in ev.d["pairs"]:
            if a is not None and a.tag("squared") is not None:
                rep.violated(rule, "nonlinear maps are applied after resampling", where=ev.loc, construct=ev.text()[:80], entry=entry,
                             config=res.config,
                             msg="an array that was squared is handed to the equalisation: linear interpolation does not commute with the "
                                 "square (interp(s²) ≠ interp(s)²), so the variance integrand differs from the squared resampled signal "
                                 "wherever the signal is truly interpolated")
        for (did, lon, d, a) in ev.d["pairs"]:
            if did is None or lon is None:
                rep.undecided(rule, "equalisation pairs each array with its own domain", where=ev.loc, construct=ev.text(),
                              entry=entry, config=res.config)
                continue
            n += 1
            ok = did == lon
            rep.check(rule, "equalisation pairs each array with its own domain", ok, where=ev.loc, construct=ev.text(), entry=entry,
                      config=res.config,
                      msg=(f"an array that lives on {fmt(lon)} is equalised as if it were sampled on {fmt(did)} "
                           f"(already re-sampled data paired with the caller's original domain)") if not ok else "")
    return n
