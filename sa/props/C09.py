"""C09 — variance minimisation keeps the fit quality and minimises capture variance (formulation).

Decided:
  two-stage structure: the first stage is the ordinary fit on the already prepared (A, B−baseline, lb, ub, W) with no
      second application of K / baseline (R-QTY exactly-once), and its attained residual norm reaches the second-stage
      tolerance together with l2_eps (R-FLOW)
  second stage: Minimize Σ(ε x²) — additive reducer, objective depends on the variance model and not on the targets;
      the tolerance constraint is the weighted residual of the default fit; bounds and tolerance are enforced on every
      path; the L1 window exists iff an L1 request is given and is fed by L1 and l1_eps (R-FLOW, R-DISPATCH)
  variance model: propagate_error squares K (units [c²/s²]·[ρ²/c²]); default chain argument → estimator's stored
      Epsilon → 'heteroscedastic' → A² of the adapted A; register_system derives Epsilon from the filter uncertainty
  reported variance = X² @ Epsilonᵀ of the returned X with the same Epsilon as the objective, unit [ρ²] (R-QTY)
  batch clauses (stacking, C-order regrouping, per-row constraints) as in C05
Not decided: minimality, 'never larger than the ordinary fit' (numerical)."""
from __future__ import annotations
from ..spec import (rel_axis, lsq_inputs, const, none, opaque, arr, num, strv, estimator_fields, S, U_REL, U_INT,
                    U_CAPTURE, U_FILTER, U_SIGNAL, U_LAMBDA)
from .. import rules as R
from ..model import norm_text
from .common import LSQ, opts, base_kws, cfgname, lsq_configs
from . import formulation as F

OPTS = opts()
EXPLANATION = __doc__
RULE_TEXT = "dependence into each stage's problem; units-of-measure typing of the variance propagation; atom classes"
EST = "dreye.api.estimator:ReceptorEstimator"
U_EPS = {"c": 2, "s": -2}

AXES = {
    "K": (["vec", "mat", None, "scalar"], ["vec", "mat", None, "scalar"]),
    "baseline": (["vec", None], ["vec", None, "scalar"]),
    "W": (["mat", "vec"], ["mat", "vec", None]),
    "lb": (["nonneg", "any"], ["nonneg", "any"]),
    "bs": ([1, "sym"], [1, "sym"]),
    "Epsilon": (["array", "het", None], ["array", "het", None]),
    "L1": ([None, "array", "number"], [None, "array", "number"]),
}


def run(an, cfg):
    kw = lsq_inputs(K=cfg["K"], baseline=cfg["baseline"], W=cfg["W"], lb=cfg["lb"], ub="finite", bs=cfg["bs"])
    kw.update(base_kws())
    urel = "rho" if cfg["K"] else "c"
    kw["l2_eps"] = num("l2_eps", ({urel: 1, "w": 1} if cfg["W"] else {urel: 1}), sign="POS")
    kw["l1_eps"] = num("l1_eps", U_INT, sign="POS")
    kw["norm"] = num("norm", ({urel: 1, "w": 1} if cfg["W"] else {urel: 1}), sign="NONNEG") if cfg.get("norm") == "number" else none()
    kw["Epsilon"] = {"array": arr("Epsilon", S("F", "SRC"), U_EPS, sign="NONNEG"), "het": strv("Epsilon", "heteroscedastic"),
                     None: none()}[cfg["Epsilon"]]
    kw["L1"] = {None: none(), "array": arr("L1", S("N"), U_INT, sign="NONNEG"), "number": num("L1", U_INT, sign="NONNEG")}[cfg["L1"]]
    return an.run(f"{LSQ}:lsq_linear_minimize", kws=kw, config=cfgname(cfg))


def check(rep, an, tier):
    # the bounds every clause below speaks of are the REGISTERED ones: registration keeps / replaces exactly what it is given
    from .C14 import register_bounds_rule
    register_bounds_rule(rep, an)
    entry = "lsq_linear_minimize"
    cfgs = list(lsq_configs(tier, AXES))
    if tier == "quick":     # the interaction batch × L1 request × bounds is a pairwise boundary of its own
        d = {n: AXES[n][0][0] for n in AXES}
        cfgs += [dict(d, bs="sym", L1="array"), dict(d, bs="sym", L1="array", lb="any"), dict(d, bs="sym", L1="number", K="mat"),
                 dict(d, K="mat", Epsilon="het"), dict(d, K="mat", Epsilon=None)]
    # the attained error handed over as ONE number is the slack of every sample
    dn = {n: AXES[n][0][0] for n in AXES}
    for bs in (1, "sym"):
        resn = run(an, dict(dn, bs=bs, norm="number"))
        R.rule_iter_arrays_per_sample(rep, resn, entry)
    for cfg in cfgs:
        res = run(an, cfg)
        probs = F.final_problems(res)
        allp = R.problems_of(res)
        first = [p for p in allp if p not in probs and p[0].id not in {q[0].id for q in probs}]
        # --- stage 1: the ordinary fit, exactly-once preparation
        rep.check("R-TYPESTATE", "two-stage structure (ordinary fit first)", bool(first) and bool(probs),
                  where=res.fn.loc(), construct="first-stage fit inside lsq_linear_minimize", entry=entry, config=res.config,
                  msg="no first-stage problem (attainable error norm) is solved before the variance problem")
        # --- tolerance parameter: l2_eps + attained norm
        tol = [(o, s) for o, st in R.param_stores(res) for s in st if "l2_eps" in s.d["val"].flat().data]
        for o, s in tol:
            d = s.d["val"].flat().data
            need = {"A", "B"} | ({"W"} if cfg["W"] else set())
            ok = need <= d
            rep.check("R-FLOW", "tolerance = l2_eps + attained norm", ok, where=s.loc, construct=s.text(), entry=entry,
                      config=res.config,
                      msg=f"the tolerance parameter depends on {sorted(x for x in d if not x.startswith('xsample'))}; the attained "
                          f"first-stage residual (a function of A, B, W) does not reach it" if not ok else "")
        if not tol:
            rep.violated("R-FLOW", "tolerance = l2_eps + attained norm", where=res.fn.loc(), construct="l2_eps → tolerance parameter",
                         entry=entry, config=res.config, msg="l2_eps reaches no Parameter of the second-stage problem")
        # --- stage 2 objective
        for po, obj, cons in probs:
            sense, expr = R.objective_nf(obj)
            a = expr.tag("atom") if expr is not None else None
            node = obj.tag("node")
            text = norm_text(node)[:80] if node is not None else "objective"
            rep.check("R-DISPATCH", "objective Minimize Σ(ε·x²)", sense == "Minimize" and bool(a) and a[0] == "sum",
                      where=F.where_po(po), construct=text, entry=entry, config=res.config,
                      msg=f"second-stage objective is {sense}({a[0] if a else '?'}(…))")
            deps = R.closure_deps(res, obj)
            want = "Epsilon" if cfg["Epsilon"] == "array" else "A"
            rep.check("R-FLOW", f"{want} → variance objective", want in deps, where=F.where_po(po), construct=f"{want} → {text}",
                      entry=entry, config=res.config, msg=f"objective depends on {sorted(deps)}")
            rep.check("R-FLOW", "targets do not enter the variance objective", "B" not in deps, where=F.where_po(po),
                      construct=f"B ↛ {text}", entry=entry, config=res.config)
            sq = [1 for at, v, ops in R.walk_atoms(expr) if at == "pow" and ops[1].known and ops[1].const == 2] \
                + [1 for at, v, ops in R.walk_atoms(expr) if at == "square"]
            rep.check("R-DISPATCH", "objective quadratic in the intensities (x²)", bool(sq), where=F.where_po(po), construct=text,
                      entry=entry, config=res.config)
        # --- constraints
        F.flow_constraints(rep, res, entry, {"lb", "ub", "l2_eps"}, probs)
        F.must_constraint(rep, res, entry, "lb", "lower bound", probs)
        F.must_constraint(rep, res, entry, "ub", "upper bound", probs)
        F.must_constraint(rep, res, entry, "l2_eps", "fit-quality tolerance", probs)
        need = {"A", "B"} | ({"W"} if cfg["W"] else set()) | ({"K"} if cfg["K"] else set()) | ({"baseline"} if cfg["baseline"] else set())
        for po, obj, cons in probs:
            for c in cons:
                deps = R.closure_deps(res, c)
                if "l2_eps" in deps:
                    for o in sorted(need):
                        rep.check("R-FLOW", f"{o} → fit-quality constraint", o in deps, where=F.where_po(po),
                                  construct=f"{o} → {norm_text(c.tag('node'))[:60]}", entry=entry, config=res.config)
            l1c = [c for c in cons if "L1" in R.closure_deps(res, c) or "l1_eps" in R.closure_deps(res, c)]
            if cfg["L1"] is None:
                rep.check("R-DISPATCH", "no L1 window without an L1 request", not l1c, where=F.where_po(po),
                          construct="L1 window constraints", entry=entry, config=res.config)
            else:
                both = [c for c in l1c if {"L1", "l1_eps"} <= R.closure_deps(res, c)]
                rep.check("R-DISPATCH", "L1 window present when requested (two-sided, fed by L1 and l1_eps)", len(both) >= 2,
                          where=F.where_po(po), construct="L1 window constraints", entry=entry, config=res.config,
                          msg=f"{len(both)} constraint(s) depend on both L1 and l1_eps; a window needs an upper and a lower one")
                # the window bounds the total from BOTH sides: an upper and a lower inequality, or one inequality |total − L1| ≤ eps
                sides = set()
                for c in cons:
                    own = _own_deps(res, c)
                    if "L1" not in own:
                        continue
                    l_, r_, op_ = c.tag("lhs"), c.tag("rhs"), c.tag("op")
                    if l_ is None or r_ is None or op_ not in ("LtE", "GtE", "Lt", "Gt"):
                        continue
                    lv, rv = _has_var(res, l_), _has_var(res, r_)
                    if lv == rv:
                        continue
                    vs = l_ if lv else r_
                    upper = (lv and op_ in ("LtE", "Lt")) or (rv and op_ in ("GtE", "Gt"))
                    # a negative constant factor in front of the variable side turns the inequality round (`-1 * (total − L1) ≤ eps`)
                    cur, flips, undec = vs, 0, False
                    for _ in range(6):
                        a_ = cur.tag("atom")
                        if a_ and a_[0] == "neg":
                            flips += 1
                            cur = a_[1][0]
                        elif a_ and a_[0] in ("mul", "multiply") and len(a_[1]) == 2 and any(not x_.tag("cvx") for x_ in a_[1]):
                            k_ = [x_ for x_ in a_[1] if not x_.tag("cvx")][0]
                            cur = [x_ for x_ in a_[1] if x_ is not k_][0]
                            if k_.known and isinstance(k_.const, (int, float)) and not isinstance(k_.const, bool):
                                flips += 1 if k_.const < 0 else 0
                            elif k_.sign in ("POS", "NONNEG"):
                                pass
                            else:
                                undec = True
                        else:
                            break
                    if undec:
                        continue
                    if flips % 2:
                        upper = not upper
                    if upper and any(at == "abs" and "L1" in _own_deps(res, v_) and _has_var(res, v_) for at, v_, ops_ in R.walk_atoms(vs)):
                        sides |= {"upper", "lower"}         # |f(x) − L1| ≤ eps
                    else:
                        sides.add("upper" if upper else "lower")
                if sides:
                    rep.check("R-DISPATCH", "the L1 window bounds the total from both sides", sides >= {"upper", "lower"}, where=F.where_po(po),
                              construct="L1 window constraints", entry=entry, config=res.config,
                              msg=f"the constraints that carry the requested total bound the total intensity only from the {sorted(sides)[0]} side: "
                                  f"the variance objective then pushes the total out of the window on the open side")
        # --- types of the results
        urel = U_REL if cfg["K"] else U_CAPTURE
        uvar = {k: 2 * v for k, v in urel.items()}
        F.return_types(rep, res, entry, [("X", S("N", "SRC"), U_INT, None),
                                         ("prediction", S("N", rel_axis(cfg["K"])), urel, "TOTAL" if cfg["baseline"] else None),
                                         ("variance", S("N", rel_axis(cfg["K"])), uvar if cfg["Epsilon"] == "array" or True else None, None)])
        F.pred_from_X(rep, res, entry, 0, 1)
        F.pred_from_X(rep, res, entry, 0, 2)
        items = F.ret_items(res)
        if len(items) > 2:
            v = items[2].flat()
            want = "Epsilon" if cfg["Epsilon"] == "array" else "A"
            rep.check("R-FLOW", f"reported variance uses the variance model ({want})", want in v.data, where=res.fn.loc(),
                      construct="variance returned by lsq_linear_minimize", entry=entry, config=res.config)
            if cfg["K"]:
                rep.check("R-FLOW", "reported variance uses the adapted variance model (K)", "K" in v.data, where=res.fn.loc(),
                          construct="K → variance returned by lsq_linear_minimize", entry=entry, config=res.config,
                          msg="the reported variance is computed from the un-propagated variance model")
        if cfg["K"] == "mat" and cfg["Epsilon"] != "array":
            # default variance model = element-wise square of the ADAPTED capture matrix (K·A)²; for a matrix K squaring first and
            # propagating K² afterwards is a different matrix (cross terms of the rows of K are dropped)
            sq = [e for e in res.events("square") if "A" in e.d["of"].flat().data and R.near(e)]
            for e in sq:
                ok = "K" in e.d["of"].flat().data
                rep.check("R-QTY", "heteroscedastic default squares the adapted capture matrix", ok, where=e.loc, construct=e.text()[:80],
                          entry=entry, config=res.config,
                          msg="the capture matrix is squared BEFORE the matrix adaptation K is applied: K²·A² ≠ (K·A)² unless K is diagonal, "
                              "so the minimised (and reported) variance is not that of the default model")
            if not sq:
                rep.undecided("R-QTY", "heteroscedastic default squares the adapted capture matrix", where=res.fn.loc(),
                              construct="A ** 2 of the adapted A", entry=entry, config=res.config)
        F.qty(rep, res, entry)
        F.count_typed(rep, res, entry)
        F.sign_attrs(rep, res, entry)
        F.hygiene(rep, res, entry)
        if cfg["bs"] == "sym":
            R.rule_stack(rep, res, entry)
            R.rule_sep(rep, res, entry)
            R.rule_rowsep(rep, res, entry)
    estimator_chain(rep, an)
    rep.require("R-FLOW", 60)
    rep.require("R-QTY", 30)
    rep.require("R-DISPATCH", 20)
    rep.require("R-FORWARD", 10)


def estimator_chain(rep, an):
    entry = "ReceptorEstimator.minimize_variance"
    for eps_field, eps_arg in (("array", None), ("het", None), ("array", "array")):
        fields = estimator_fields(K="vec", baseline="vec", Epsilon=eps_field)
        kw = dict(B=arr("B", S("N", "F"), U_REL, "TOTAL"), batch_size=lsq_inputs(bs=1)["batch_size"], verbose=const(0),
                  l2_eps=num("l2_eps", {"rho": 1, "w": 1}, sign="POS"), l1_eps=num("l1_eps", U_INT, sign="POS"), L1=none(), norm=none(),
                  Epsilon=none() if eps_arg is None else arr("Epsilon", S("F", "SRC"), U_EPS, sign="NONNEG"))
        res = an.run(f"{EST}.minimize_variance", kws=kw, self_fields=fields, config=f"field={eps_field},arg={eps_arg}")
        want = "Epsilon" if eps_arg else "self.Epsilon"
        F.forwards(rep, res, entry, {"lsq_linear_minimize"},
                   {"A": "self.A", "lb": "self.lb", "ub": "self.ub", "W": "self.W", "K": "self.K", "baseline": "self.baseline",
                    "B": "B", "l2_eps": "l2_eps", "l1_eps": "l1_eps", "Epsilon": want})
        F.wrapper_returns_solution(rep, res, entry, {"lsq_linear_minimize"}, ("X", "B", "Bvar"))
        F.qty(rep, res, entry)
        # the default variance model is the REGISTERED one: a fit with explicit targets and an explicit model must not replace it
        R.rule_effect_free(rep, res, entry, reg=_reg(an))
    # register_system: Epsilon derives from the registered filter uncertainty, else 'heteroscedastic'
    for unc in (None, "given", "samples"):
        fields = estimator_fields(K="vec", baseline="vec", uncertainty=(None if unc is None else "given"))
        if unc == "samples":
            # the uncertainty registered as SAMPLES of the filter functions: (n_samples, n_filters, n_domain)
            fields["filters_uncertainty"] = arr("self.filters_uncertainty", S("U", "F", "D"), {"phi": 1})
        for k in ("A", "Epsilon", "sources", "sources_domain", "lb", "ub", "sources_labels"):
            fields.pop(k, None)
        kw = dict(sources=arr("sources", S("SRC", "D"), U_SIGNAL), domain=none(), lb=none(), ub=none(), labels=none(), Epsilon=none())
        res = an.run(f"{EST}.register_system", kws=kw, self_fields=fields, config=f"uncertainty={unc}")
        # every capture integral behind the variance model runs over the (common) domain — never over the default unit step
        for ev in res.events("call"):
            fn = ev.d["callee"]
            if fn.name != "calculate_capture":
                continue
            bound = dict(ev.d["kws"])
            for i, a in enumerate(ev.d["args"]):
                if i < len(fn.params):
                    bound.setdefault(fn.params[i], a)
            dv = bound.get("domain")
            okd = dv is not None and not (dv.known and not isinstance(dv.const, (int, float)))
            okd = okd and bool({"self.domain", "domain"} & {o.split("|")[0] for o in dv.flat().deps_all()})
            rep.check("R-FLOW", "the capture integrals of the variance model run over the domain", okd, where=ev.loc, construct=ev.text()[:80],
                      entry="ReceptorEstimator.register_system", config=res.config,
                      msg="calculate_capture is called without the domain: the filter samples are integrated with the default unit step, so the "
                          "variance model is off by the squared step for a uniform grid and wrong in shape for a non-uniform one")
        st = [e for e in res.events("self_store") if e.d["attr"] == "Epsilon"]
        if not st:
            rep.violated("R-EFFECT", "register_system stores Epsilon", where=res.fn.loc(), construct="self.Epsilon = …",
                         entry="ReceptorEstimator.register_system", config=res.config, msg="Epsilon is not (re)assigned")
            continue
        v = st[-1].d["val"].flat()
        if unc is None:
            ok = v.known and v.const == "heteroscedastic"
            rep.check("R-DISPATCH", "no uncertainty → 'heteroscedastic'", ok, where=st[-1].loc, construct=st[-1].text(),
                      entry="ReceptorEstimator.register_system", config=res.config)
        else:
            ok = "self.filters_uncertainty" in v.data and "sources" in v.data
            rep.check("R-FLOW", "default variance model = registered filter uncertainty of the sources", ok, where=st[-1].loc,
                      construct=st[-1].text(), entry="ReceptorEstimator.register_system", config=res.config,
                      msg=f"stored Epsilon depends on {sorted(v.data)}")
            if unc == "samples":
                # variance of the capture = variance over the samples of the capture INTEGRAL (correlations across wavelengths kept):
                # the variance is taken of a quantity that already contains the sources, not of the filter samples per wavelength
                vs = [e for e in res.events("ext_call") if e.d["dotted"] in ("numpy.var", "numpy.std") and e.d["args"]
                      and "self.filters_uncertainty" in e.d["args"][0].flat().data]
                for e in vs:
                    ok = "sources" in e.d["args"][0].flat().data
                    rep.check("R-FLOW", "sampled uncertainty: variance over samples of the capture integral", ok, where=e.loc, construct=e.text(),
                              entry="ReceptorEstimator.register_system", config=res.config,
                              msg="the variance is taken per wavelength of the filter samples and then integrated against the squared spectrum: "
                                  "correlations across wavelengths (peak shift, gain jitter) are dropped, Var(∫f·I) ≠ ∫Var(f)·I²")
                if not vs:
                    rep.undecided("R-FLOW", "sampled uncertainty: variance over samples of the capture integral", where=res.fn.loc(),
                                  construct="np.var(capture of the filter samples, axis=0)", entry="ReceptorEstimator.register_system", config=res.config)


def _own_deps(res, v):
    """data origins of an expression through the Parameters it mentions (not through lists that merely contain it)"""
    f = v.flat()
    d = set(f.data)
    for r_ in f.refs:
        o = res.heap.get(r_)
        if o is not None and o.kind == "cvxparam" and o.content is not None:
            d |= set(o.content.data)
    return {x.split("|")[0] for x in d}


def _has_var(res, v):
    return any(res.heap.get(r_) is not None and res.heap[r_].kind == "cvxvar" for r_ in v.flat().refs)


def _reg(an):
    from .C14 import registration_writes
    return registration_writes(an)
