"""C07 — Poisson and excitation models (formulation and dispatch, not optimality).

Decided:
  R-DISPATCH  ReceptorEstimator.fit(model=…): 'gaussian'|'poisson' → lsq_linear(model=model), 'excitation' →
              lsq_linear_excitation, any other string → NameError; lsq_linear accepts exactly its documented
              models, defines an objective for each and rejects others; each model's objective has the documented
              sense/structure: Poisson = minimise −Σ(b·log(p) − p) with p the predicted TOTAL capture;
              excitation = minimise max |b − p| / ((1+b)(1+p)) with both b and p in the denominator
  R-FLOW      A, B, W, K and the baseline reach the objective of each model; bounds reach constraints
  R-QTY       target and prediction are in the same frame (both TOTAL: targets are not baseline-subtracted, the
              baseline is part of the prediction inside log and in the linear term), weights on both terms
  R-API       default solver of the excitation model is installed
  R-DTYPE     result buffers do not inherit the (possibly integer) dtype of the targets
Not decided: optimality of the convex / quasi-convex programme; agreement of the three models to tolerance."""
from __future__ import annotations
from ..spec import rel_axis, lsq_inputs, const, none, opaque, arr, strv, estimator_fields, S, U_REL, U_INT, U_CAPTURE
from .. import rules as R
from ..model import norm_text
from .common import LSQ, opts, base_kws, cfgname, lsq_configs
from . import formulation as F

OPTS = opts()
EXPLANATION = __doc__
RULE_TEXT = "dispatch-table agreement under CONST specialisation; dependence; frame algebra TOTAL/LIGHT/BASE"
EST = "dreye.api.estimator:ReceptorEstimator"

AXES = {
    "K": (["vec", "mat", None, "scalar"], ["vec", "mat", None, "scalar"]),
    "baseline": (["vec", None], ["vec", None, "scalar"]),
    "W": (["mat", "vec"], ["mat", "vec", None]),
    "lb": (["nonneg"], ["nonneg"]),
    "bs": ([1, "sym"], [1, "sym"]),
}


def allow_literal(ev):
    if ev.d.get("sub") == "literal" and ev.fn.name == "lsq_linear_excitation":
        return "excitation e = q/(1+q) is defined with the dimensionless constant 1"
    return None


def check(rep, an, tier):
    results = []
    for model in ("poisson", "excitation"):
        cfgs = list(lsq_configs(tier, AXES))
        if tier == "quick":
            d0 = {n: AXES[n][0][0] for n in AXES}
            cfgs.append(dict(d0, K=None, baseline="scalar", bs="sym"))
        for cfg in cfgs:
            kw = lsq_inputs(K=cfg["K"], baseline=cfg["baseline"], W=cfg["W"], lb=cfg["lb"], ub="finite", bs=cfg["bs"],
                            nonneg_B=True)
            kw.update(base_kws())
            if model == "poisson":
                kw["model"] = const("poisson")
                fn = "lsq_linear"
            else:
                fn = "lsq_linear_excitation"
            entry = fn + ("[poisson]" if model == "poisson" else "")
            res = an.run(f"{LSQ}:{fn}", kws=kw, config=cfgname(cfg))
            results.append(res)
            need = {"A", "B"} | ({"W"} if cfg["W"] else set()) | ({"K"} if cfg["K"] else set()) \
                | ({"baseline"} if cfg["baseline"] else set())
            F.flow_objective(rep, res, entry, need)
            F.flow_constraints(rep, res, entry, {"lb", "ub"})
            F.must_constraint(rep, res, entry, "lb", "lower bound")
            F.must_constraint(rep, res, entry, "ub", "upper bound")
            F.qty(rep, res, entry, allow=allow_literal, subs=("mismatch", "literal"))
            F.count_typed(rep, res, entry)
            urel = U_REL if cfg["K"] else U_CAPTURE
            F.return_types(rep, res, entry, [("X", S("N", "SRC"), U_INT, None),
                                             ("prediction", S("N", rel_axis(cfg["K"])), urel, "TOTAL" if cfg["baseline"] else None)])
            F.pred_from_X(rep, res, entry)
            F.hygiene(rep, res, entry)
            R.rule_rowsep(rep, res, entry)
            if cfg["bs"] == "sym":
                R.rule_stack(rep, res, entry)
            objective_structure(rep, res, entry, model, cfg)
    R.rule_api(rep, results, None)
    dispatch(rep, an)
    rep.require("R-FLOW", 40)
    rep.require("R-QTY", 20)
    rep.require("R-DISPATCH", 10)
    rep.require("R-API", 5)


def objective_structure(rep, res, entry, model, cfg):
    for po, obj, cons in F.final_problems(res):
        sense, expr = R.objective_nf(obj)
        where = F.where_po(po)
        node = obj.tag("node") if obj is not None else None
        text = norm_text(node)[:80] if node is not None else "objective"
        if sense is None:
            rep.undecided("R-DISPATCH", f"{model}: objective structure", where=where, construct=text, entry=entry,
                          config=res.config)
            continue
        a = expr.tag("atom")
        if model == "poisson":
            # normal form: Maximize Σ ( b·log(p_total) − p_total_weighted )
            ok_sense = sense == "Maximize" and a is not None and a[0] == "sum"
            rep.check("R-DISPATCH", "poisson: minimise the NEGATIVE log-likelihood (additive over entries)", ok_sense,
                      where=where, construct=text, entry=entry, config=res.config,
                      msg=f"normal form is {sense}({a[0] if a else '?'}(…)); documented: Minimize(−Σ(b·log p − p))")
            logs = [(v, ops) for at, v, ops in R.walk_atoms(expr) if at == "log"]
            rep.check("R-DISPATCH", "poisson: log-likelihood term present", bool(logs), where=where, construct=text,
                      entry=entry, config=res.config)
            if cfg["baseline"]:
                for v, ops in logs:
                    fr = ops[0].frame
                    rep.check("R-QTY", "poisson: log of the predicted TOTAL capture", None if fr is None else fr == "TOTAL",
                              where=where, construct=norm_text(v.tag("node"))[:80] if v.tag("node") is not None else "log",
                              entry=entry, config=res.config,
                              msg=f"argument of log has frame {fr}: the baseline is not part of the predicted capture")
        else:
            ok = sense == "Minimize" and a is not None and a[0] == "max"
            rep.check("R-DISPATCH", "excitation: minimise the LARGEST absolute excitation difference", ok, where=where,
                      construct=text, entry=entry, config=res.config,
                      msg=f"normal form is {sense}({a[0] if a else '?'}(…)); documented: Minimize(max|e(b) − e(p)|)")
            if a is None:
                continue
            inner = a[1][0].tag("atom")
            if inner is None or inner[0] != "div":
                rep.undecided("R-DISPATCH", "excitation: |b−p| / ((1+b)(1+p))", where=where, construct=text, entry=entry,
                              config=res.config)
                continue
            num, den = inner[1]
            pn, vn = R.leaf_kinds(res, num)
            pd, vd = R.leaf_kinds(res, den)
            has_abs = "abs" in R.atoms_in(num)
            okn = bool(pn) and bool(vn) and has_abs
            # the denominator must contain the target (parameter-only factor) AND the prediction (variable factor)
            target_only = False
            for at, v, ops in R.walk_atoms(den):
                if at == "add":
                    p_, v_ = R.leaf_kinds(res, v)
                    if p_ and not v_:
                        target_only = True
            okd = bool(vd) and target_only
            rep.check("R-DISPATCH", "excitation: numerator |b − p|", okn, where=where, construct=text, entry=entry,
                      config=res.config)
            rep.check("R-DISPATCH", "excitation: denominator (1+b)(1+p)", okd, where=where,
                      construct=norm_text(den.tag("node"))[:80] if den.tag("node") is not None else "denominator",
                      entry=entry, config=res.config,
                      msg="the denominator of the excitation difference lacks the target factor (1+b) or the prediction "
                          "factor (1+p): (1+b) differs between channels, so dropping it changes the arg-max" if not okd else "")


def dispatch(rep, an):
    fields = estimator_fields(K="vec", baseline="vec")
    bsv = lsq_inputs()["batch_size"]
    for model, want in (("gaussian", "lsq_linear"), ("poisson", "lsq_linear"), ("excitation", "lsq_linear_excitation")):
        kw = dict(model=const(model), batch_size=bsv, verbose=const(0), B=arr("B", S("N", "F"), U_REL, "TOTAL", sign="NONNEG"))
        res = an.run(f"{EST}.fit", kws=kw, self_fields=fields, config=f"model={model}")
        entry = "ReceptorEstimator.fit"
        calls = [ev for ev in res.events("call") if R.near(ev) and ev.d["callee"].module.name.endswith("lsq_linear")
                 or (R.near(ev) and ev.d["callee"].name.startswith("lsq_"))]
        names = sorted({ev.d["callee"].name for ev in calls})
        ok = names == [want]
        rep.check("R-DISPATCH", f"fit(model='{model}') → {want}", ok, where=res.fn.loc(),
                  construct=f"fit(model='{model}')", entry=entry, config=res.config,
                  msg=f"dispatches to {names}" if not ok else "")
        if ok and want == "lsq_linear":
            mv = calls[0].d["kws"].get("model")
            rep.check("R-DISPATCH", f"fit(model='{model}') forwards model=", mv is not None and mv.known and mv.const == model,
                      where=calls[0].loc, construct=f"lsq_linear(model=…) for '{model}'", entry=entry, config=res.config,
                      msg=f"lsq_linear receives model={mv.const if (mv is not None and mv.known) else '?'!r}")
        F.forwards(rep, res, entry, {want}, {"A": "self.A", "lb": "self.lb", "ub": "self.ub", "W": "self.W", "K": "self.K",
                                               "baseline": "self.baseline", "batch_size": "batch_size", "B": "B"})
    res = an.run(f"{EST}.fit", kws=dict(model=const("bogus"), B=arr("B", S("N", "F"), U_REL, "TOTAL")), self_fields=fields,
                 config="model=bogus")
    raised = [e for e in res.events("raise") if R.near(e)]
    rep.check("R-DISPATCH", "fit(model=<unknown>) raises", F.raises(res),
              where=res.fn.loc(), construct="fit(model='bogus')", entry="ReceptorEstimator.fit", config=res.config)
    # lsq_linear's own table
    for m in ("gaussian", "poisson"):
        kw = lsq_inputs(); kw.update(base_kws(model=const(m)))
        res = an.run(f"{LSQ}:lsq_linear", kws=kw, config=f"model={m}")
        und = [e for e in res.events("maybe_undef_use") if e.d["name"] == "objective"]
        probs = F.final_problems(res)
        rep.check("R-DISPATCH", f"lsq_linear(model='{m}') defines an objective", bool(probs) and not und,
                  where=res.fn.loc(), construct=f"lsq_linear(model='{m}')", entry="lsq_linear", config=res.config)
    kw = lsq_inputs(); kw.update(base_kws(model=const("bogus")))
    res = an.run(f"{LSQ}:lsq_linear", kws=kw, config="model=bogus")
    rep.check("R-DISPATCH", "lsq_linear(model=<unknown>) raises", F.raises(res),
              where=res.fn.loc(), construct="lsq_linear(model='bogus')", entry="lsq_linear", config=res.config)
