"""C15 — results are equivariant under a change of physical units (dimensional homogeneity).

Decided: the gamut test, the range of solutions (with its enumeration and spaced-solution helpers), the parameter
preparation, the prediction and the gaussian fit formulation, and the estimator wrappers are dimensionally homogeneous with
A:[c/s], X,lb,ub:[s], B,baseline:[c] (K dimensionless for this property): every +, −, comparison, minimum/maximum, clip and
array store combines equal units, and no dimensionless literal or absolute tolerance meets a dimensioned quantity.  By
parametricity of units-of-measure typing a well-typed literal-free computation is equivariant under rescaling of s and c in
exact arithmetic: memberships are unchanged, ranges and unique optima scale by 1/s, predictions by c.  The scale-dependent
sites are ENUMERATED (not inferred), each with a reason, and anything else is a violation:
   convex_combination: np.isclose(norm, 0)   absolute tolerance of the NNLS fallback (only on the qhull-failure/unbounded path)
   get_P_from_A: np.ones(ub.size) + lb       generators of the unbounded cone
   solver tolerances                          outside the source
Not decided: behaviour at those sites and inside the solvers (the property itself restricts them to a well-scaled regime)."""
from __future__ import annotations
from ..spec import rel_axis, lsq_inputs, arr, num, intv, strv, const, none, flag, opaque, estimator_fields, S, U_REL, U_INT, U_CAPTURE, ONE
from .. import rules as R
from ..model import norm_text
from ..values import ustr
from .common import LSQ, opts, base_kws, cfgname, lsq_configs
from . import formulation as F
from . import convexcommon as CC

OPTS = opts()
EXPLANATION = __doc__
RULE_TEXT = "units-of-measure typing (Kennedy-style parametricity): dimensional homogeneity with an enumerated list of scale-dependent sites"

ALLOWED_TOL = {("convex_combination", "np.isclose(norms, 0)"):
               "absolute tolerance on the NNLS residual; only on the qhull-failure / unbounded path; behaviour there is outside the asserted regime"}


def _is_unit_step_above_lb(node, fname):
    """`np.ones(n) + lb` / `lb + 1` / `1.0 + lb`: an ADDITION of the literal one (array) to the lower bounds — the only enumerated site"""
    import ast as _ast
    if fname == "get_P_from_A":
        return True
    if not (isinstance(node, _ast.BinOp) and isinstance(node.op, _ast.Add)):
        return False
    def is_one(n):
        if isinstance(n, _ast.Constant):
            return n.value in (1, 1.0)
        return isinstance(n, _ast.Call) and (getattr(n.func, "attr", None) or getattr(n.func, "id", None)) in ("ones", "ones_like")
    def is_lb(n):
        return any(isinstance(x, _ast.Name) and x.id.startswith("lb") for x in _ast.walk(n))
    return (is_one(node.left) and is_lb(node.right)) or (is_one(node.right) and is_lb(node.left))


def allow(ev):
    if ev.d.get("sub") == "literal" and (ev.fn.name == "get_P_from_A" or any(q.split(":")[-1] == "get_P_from_A" for q in ev.path)) \
            and "lb" in ev.text() and _is_unit_step_above_lb(getattr(ev, "node", None), ev.fn.name):
        # `1 + lb` in any spelling, in get_P_from_A or a helper it calls
        return "unit generators of the unbounded cone (a cone does not depend on the length of its generators)"
    return None


_ISCLOSE_DEFAULTS = {"rtol": 1e-05, "atol": 1e-08, "equal_nan": False}


def _canon_tol_text(ev):
    """text of a tolerance test with the keywords that merely spell out numpy's defaults removed (identity of an enumerated site)"""
    import ast as _ast
    node = getattr(ev, "node", None)
    if isinstance(node, _ast.Call) and node.keywords:
        kws = [k for k in node.keywords if not (k.arg in _ISCLOSE_DEFAULTS and isinstance(k.value, _ast.Constant)
                                                and k.value.value == _ISCLOSE_DEFAULTS[k.arg] and type(k.value.value) is type(_ISCLOSE_DEFAULTS[k.arg]))]
        if len(kws) != len(node.keywords):
            return norm_text(_ast.Call(func=node.func, args=node.args, keywords=kws))
    return ev.text()


def tolerances(rep, res, entry):
    for ev in res.events("abs_tolerance"):
        from ..engine import structural_key
        key = (ev.fn.name, structural_key(_canon_tol_text(ev)))
        if not ev.d.get("dimensioned"):
            ops = ev.d["operands"]
            if all(o.unit is None for o in ops if not o.known):
                rep.undecided("R-QTY", "no absolute tolerance on a dimensioned quantity", where=ev.loc, construct=ev.text(), entry=entry,
                              config=res.config)
            continue
        if key in {(f_, structural_key(t_)): r_ for (f_, t_), r_ in ALLOWED_TOL.items()}:
            rep.advisory(f"enumerated scale-dependent site {ev.loc} `{ev.text()}` — " + {(f_, structural_key(t_)): r_ for (f_, t_), r_ in ALLOWED_TOL.items()}[key])
            rep.holds("R-QTY", "scale-dependent site is an enumerated one", where=ev.loc, construct=ev.text(), entry=entry, config=res.config)
            continue
        rep.violated("R-QTY", "no absolute tolerance on a dimensioned quantity", where=ev.loc, construct=ev.text(), entry=entry,
                     config=res.config,
                     msg="an absolute tolerance is applied to a quantity that carries physical units: the decision changes when "
                         "intensities or captures are expressed in other units")


def quantisation(rep, res, entry):
    """rounding a quantity that carries physical units to a fixed precision is an absolute quantisation in the caller's units"""
    seen = set()
    for ev in res.events("lossy_map"):
        if ev.d["how"] != "round":
            continue
        x = ev.d["of"]
        k = (ev.loc, ev.text())
        if k in seen or not (isinstance(x.unit, dict) and x.unit):
            continue
        seen.add(k)
        rep.violated("R-QTY", "no absolute quantisation of a dimensioned quantity", where=ev.loc, construct=ev.text(), entry=entry,
                     config=res.config,
                     msg=f"a quantity in [{ustr(x.unit)}] is rounded to a fixed precision: the grid is expressed in the caller's units, so the "
                         f"result of the twin problem in other units is not the rescaled result")


def check(rep, an, tier):
    # the estimator's wrappers of the geometry layer (anchored file estimator.py): targets reach it as given, unrounded
    from ..spec import estimator_fields, flag
    est_runs = []
    for rel in (False, True):
        Bv = (lambda: arr("B", S("N", "F"), U_REL, "TOTAL", sign="NONNEG")) if rel else (lambda: arr("B", S("N", "F"), U_CAPTURE, "LIGHT", sign="NONNEG"))
        est_runs.append(("range_of_solutions", dict(B=Bv(), relative=flag("relative", rel), error=strv("error", "ignore"), n=intv("n", "NS"),
                                                    eps=num("eps", ONE, sign="POS")), rel))
        est_runs.append(("in_hull", dict(B=Bv(), relative=flag("relative", rel)), rel))
        est_runs.append(("in_hull", dict(B=Bv(), relative=flag("relative", rel), normalized=flag("normalized", True)), rel))
    from .C12 import hooks as c12hooks
    for meth, kw, rel in est_runs:
        res = an.run(f"{CC.EST}.{meth}", kws=kw, self_fields=estimator_fields(K="vec", baseline="vec"),
                     spec=(c12hooks() if "normalized" in kw else CC.hooks()), config=f"relative={rel}" + (",normalized" if "normalized" in kw else ""))
        entry = f"ReceptorEstimator.{meth}"
        quantisation(rep, res, entry)
        tolerances(rep, res, entry)
        # a twin problem is set up by re-registering K / baseline / bounds on the same object: queries must not keep derived state
        R.rule_effect_free(rep, res, entry, reg=_reg(an))
        for ev in res.events("call"):
            fn = ev.d["callee"]
            if fn.module.name == CC.CONVEX and ev.fn.cls and fn.name in ("range_of_solutions", "in_hull_from_A"):
                bound = dict(ev.d["kws"])
                for i, a_ in enumerate(ev.d["args"]):
                    if i < len(fn.params):
                        bound.setdefault(fn.params[i], a_)
                vb = bound.get("B")
                if vb is not None:
                    rep.check("R-QTY", "targets reach the geometry layer in capture units", None if vb.flat().unit is None else vb.flat().unit == (U_REL if rel else U_CAPTURE),
                              where=ev.loc, construct=f"{fn.name}(B, …) in {ev.fn.name}", entry=entry, config=res.config)
    spec = CC.hooks()
    geo = {"baseline": (["vec", None], ["vec", None]), "ub": (["finite", "inf"], ["finite", "inf"]),
           "lb": (["nonneg", "any"], ["nonneg", "any"]), "Brank": ([2, 1], [2, 1])}
    for cfg in lsq_configs(tier, geo):
        kw = CC.geometry_inputs(K=None, baseline=cfg["baseline"], ub=cfg["ub"], lb=cfg["lb"], Brank=cfg["Brank"])
        res = an.run(f"{CC.CONVEX}:in_hull_from_A", kws=kw, spec=spec, config=cfgname(cfg))
        entry = "in_hull_from_A"
        F.qty(rep, res, entry, allow=allow, subs=("mismatch", "literal"))
        F.typed_sites(rep, res, entry)
        CC.membership_frames(rep, res, entry)
        tolerances(rep, res, entry)
        if cfg["ub"] == "finite":
            kw2 = dict(kw, error=strv("error", "ignore"), n=intv("n", "NS"), eps=num("eps", ONE, sign="POS"))
            res = an.run(f"{CC.CONVEX}:range_of_solutions", kws=kw2, spec=spec, config=cfgname(cfg))
            entry = "range_of_solutions"
            F.qty(rep, res, entry, allow=allow, subs=("mismatch", "literal"))
            F.typed_sites(rep, res, entry)
            tolerances(rep, res, entry)
            quantisation(rep, res, entry)
            R.rule_dtype(rep, res, entry)
            items = F.ret_items(res)
            for i, lab in enumerate(("Xmin", "Xmax")):
                v = items[i].flat()
                rep.check("R-QTY", f"{lab} scales like an intensity", None if v.unit in (None, "POLY") else v.unit == U_INT, where=res.fn.loc(),
                          construct=f"{lab} of range_of_solutions", entry=entry, config=res.config)
    fit = {"baseline": (["vec", None], ["vec", None]), "W": (["mat", None], ["mat", "vec", None]), "lb": (["nonneg", "any"], ["nonneg", "any"]),
           "ub": (["finite", "inf"], ["finite", "inf"]), "bs": ([1, "sym"], [1, "sym"])}
    fit_cfgs = list(lsq_configs(tier, fit))
    fit_cfgs.append(dict({n: fit[n][0][0] for n in fit}, W="inverse"))       # weights derived from the targets: 1 / B
    for cfg in fit_cfgs:
        kw = lsq_inputs(K=None, baseline=cfg["baseline"], W=cfg["W"], lb=cfg["lb"], ub=cfg["ub"], bs=cfg["bs"])
        kw.update(base_kws(model=const("gaussian")))
        res = an.run(f"{LSQ}:lsq_linear", kws=kw, config=cfgname(cfg))
        entry = "lsq_linear[gaussian]"
        F.qty(rep, res, entry, subs=("mismatch", "literal"))
        F.count_typed(rep, res, entry)
        F.typed_sites(rep, res, entry)
        tolerances(rep, res, entry)
        quantisation(rep, res, entry)
        F.return_types(rep, res, entry, [("X", None, U_INT, None), ("prediction", None, U_CAPTURE, None)])
        R.rule_dtype(rep, res, entry)
        for po, obj, cons in F.final_problems(res):
            for c in cons:
                l, r = c.tag("lhs"), c.tag("rhs")
                if l is not None and r is not None and l.unit is not None and r.unit is not None:
                    rep.check("R-QTY", "constraint compares like units", l.unit == r.unit or "POLY" in (l.unit, r.unit), where=F.where_po(po),
                              construct=norm_text(c.tag("node"))[:70], entry=entry, config=res.config)
    # the secondary-objective fit: its error bound is a capture-unit tolerance compared with a residual NORM (not its square)
    from . import C08
    d8 = {n: C08.AXES[n][0][0] for n in C08.AXES}
    for lab8 in ("l2", "var"):
        res = C08.run(an, C08.OPTIONS[lab8][0](), dict(d8, K=None))
        res.config = f"underdetermined, opt={lab8}"
        entry = "lsq_linear_underdetermined"
        F.qty(rep, res, entry, subs=("mismatch", "literal"))
        tolerances(rep, res, entry)
        for po, obj, cons in F.final_problems(res):
            for c in cons:
                l, r = c.tag("lhs"), c.tag("rhs")
                if l is not None and r is not None and l.unit is not None and r.unit is not None:
                    rep.check("R-QTY", "constraint compares like units", l.unit == r.unit or "POLY" in (l.unit, r.unit), where=F.where_po(po),
                              construct=norm_text(c.tag("node"))[:70], entry=entry, config=res.config,
                              msg=f"[{ustr(l.unit)}] is bounded by [{ustr(r.unit)}]: after a change of capture units the bound allows a different error")
    # the weighted (q, r) selection: both penalties are of the same degree in the intensities (q·‖x‖₁ + r·‖x‖₂), otherwise the selected
    # solution of the twin problem is not the rescaled solution
    from ..values import Val as _Val
    qv, rv = num("q", ONE, sign="POS"), num("r", ONE, sign="POS")
    idcs = arr("idcs", S("SEL"), ONE)
    idcs.tags["indices"] = True
    for lab8, optv in (("((q, r), sources)", _Val(items=[_Val(items=[qv, rv], tags={"kind": "tuple", "notnone": True, "notstr": True},
                                                           data=frozenset({"q", "r"})), idcs],
                                                  tags={"kind": "tuple", "notnone": True, "notstr": True}, data=frozenset({"q", "r", "idcs"}))),):
        res = C08.run(an, optv, dict(d8, K=None))
        res.config = f"underdetermined, opt={lab8}"
        entry = "lsq_linear_underdetermined"
        F.qty(rep, res, entry, subs=("mismatch", "literal"))
        for po, obj, cons in F.final_problems(res):
            for at, v, ops in R.walk_atoms(obj):
                if at in ("add", "sub") and len(ops) == 2 and isinstance(ops[0].unit, dict) and isinstance(ops[1].unit, dict):
                    node = v.tag("node")
                    rep.check("R-QTY", "penalties of the weighted selection have the same degree", ops[0].unit == ops[1].unit, where=F.where_po(po),
                              construct=norm_text(node)[:80] if node is not None else at, entry=entry, config=res.config,
                              msg=f"a term in [{ustr(ops[0].unit)}] is added to a term in [{ustr(ops[1].unit)}]: after a change of the intensity "
                                  f"unit the two penalties are traded off differently, so the selected solution is not the rescaled one")
    # the capture matrix carries the intensity unit of the source spectra: no self-normalisation of the sources on any registration path
    from . import domains as D
    from .C19 import est_fields
    from ..spec import U_SIGNAL, U_K
    for given in (None, "array"):
        fields = est_fields("array", None)
        fields["K"] = arr("self.K", S("F"), U_K)
        fields["baseline"] = arr("self.baseline", S("F"), U_CAPTURE, "BASE")
        dom = "domain" if given else "self.domain"
        src = D.on(arr("sources", S("SRC", "D@" + dom), U_SIGNAL), dom)
        kw = dict(sources=src, domain=D.domain_val("domain") if given else none(), lb=arr("lb", S("SRC"), U_INT), ub=arr("ub", S("SRC"), U_INT),
                  labels=none(), Epsilon=none())
        res = an.run(f"{CC.EST}.register_system", kws=kw, self_fields=fields, spec=D.hooks(), config=f"register_system,domain={given}")
        sq = [dv for dv in res.events("self_quotient") if "sources" in dv.d["origins"]]
        for dv in sq:
            rep.violated("R-QTY", "the capture matrix scales with the source spectra", where=dv.loc, construct=dv.text()[:80],
                         entry="ReceptorEstimator.register_system", config=res.config,
                         msg="the source spectra are divided by a functional of themselves before A is computed: A is invariant to the intensity "
                             "unit of the spectra while the bounds are not, so membership, ranges and fits of the twin problem do not correspond")
        if not sq:
            rep.holds("R-QTY", "the capture matrix scales with the source spectra", where=res.fn.loc(), construct="sources → A", 
                      entry="ReceptorEstimator.register_system", config=res.config)
    # the default variance model computed from a registered filter uncertainty is a VARIANCE of captures: of degree two in the source
    # spectra (and in the filters) wherever the capture matrix is of degree one
    for unc in ("given", "samples"):
        fields = estimator_fields(K="vec", baseline="vec", uncertainty="given")
        if unc == "samples":
            fields["filters_uncertainty"] = arr("self.filters_uncertainty", S("U", "F", "D"), {"phi": 1})
        for k in ("A", "Epsilon", "sources", "sources_domain", "lb", "ub", "sources_labels"):
            fields.pop(k, None)
        kw = dict(sources=arr("sources", S("SRC", "D"), U_SIGNAL), domain=none(), lb=none(), ub=none(), labels=none(), Epsilon=none())
        res = an.run(f"{CC.EST}.register_system", kws=kw, self_fields=fields, config=f"register_system,uncertainty={unc}")
        st = {a: [e for e in res.events("self_store") if e.d["attr"] == a and e.d.get("val") is not None] for a in ("A", "Epsilon")}
        ua = st["A"][-1].d["val"].flat().unit if st["A"] else None
        ue = st["Epsilon"][-1].d["val"].flat().unit if st["Epsilon"] else None
        ok = None
        if isinstance(ua, dict) and isinstance(ue, dict):
            ok = all(ue.get(k, 0) == 2 * ua.get(k, 0) for k in ("iota", "phi"))
        ev = st["Epsilon"][-1] if st["Epsilon"] else None
        rep.check("R-QTY", "the variance model is of degree two in the source spectra", ok, where=ev.loc if ev else res.fn.loc(),
                  construct=ev.text()[:80] if ev else "self.Epsilon = …", entry="ReceptorEstimator.register_system", config=res.config,
                  msg=f"A is in [{ustr(ua) if isinstance(ua, dict) else ua}] but Epsilon in [{ustr(ue) if isinstance(ue, dict) else ue}]: a variance of captures "
                      f"scales with the SQUARE of the intensity unit of the spectra, so the predicted capture variance of the twin problem is off "
                      f"by the unit factor")
    # variance minimisation with a requested total: the window around the total is an INTENSITY tolerance
    from . import C09
    d9 = {n: C09.AXES[n][0][0] for n in C09.AXES}
    res = C09.run(an, dict(d9, K=None, L1="array"))
    res.config = "minimize, L1 given"
    F.qty(rep, res, "lsq_linear_minimize", subs=("mismatch", "literal"))
    tolerances(rep, res, "lsq_linear_minimize")
    rep.require("R-QTY", 80)
    rep.advisory("solver tolerances are absolute and live outside the source: C15 is asserted for the well-scaled regime only")


def _reg(an):
    from .C14 import registration_writes
    return registration_writes(an)
