"""C12 — gamut-corrective scalings (necessary structure).

Decided:
  R-FORWARD   `relative` reaches every internal query that takes it (the early in-gamut test included) and decides whether
              K / baseline take part: with relative=False the results of both scalings do not depend on the stored K or
              baseline, with relative=True they do
  R-QTY       intensity scaling removes and re-adds the same baseline around one dimensionless factor (unit homogeneity);
              chromatic scaling subtracts ONE centre (the neutral point's chromaticity) from both the gamut vertices and the
              targets, scales, and adds that same centre back; hull and targets enter the boundary-multiple computation in the
              same centred frame
              the common factor of the intensity scaling is a ratio of two captures in the SAME frame (LIGHT/LIGHT)
  R-SIGN      the boundary multiple handed to nanmin is positive-or-NaN (mask idiom) — hue direction is kept; a raw quotient
              by the centred coordinates (±inf at the neutral point, where every all-zero row is placed) is a violation
  R-ZERO      all-zero target rows never reach the chromatic reduction
  R-FLOW      the totals used to re-expand the scaled chromaticities are those of the (copied) targets
  R-PURITY    the caller's targets are copied before the zero-row patch; queries write no estimator field
  R-DIM1      for two receptors no 1-wide chromatic data reaches qhull (the interval branch is reachable)
Not decided: that the scaled chromaticities actually lie in the gamut; the common factor's numerical value."""
from __future__ import annotations
from ..spec import rel_axis, arr, num, const, none, flag, estimator_fields, S, U_REL, U_INT, U_CAPTURE
from .. import rules as R
from ..model import norm_text
from .common import opts, cfgname
from . import formulation as F
from . import convexcommon as CC

OPTS = opts()
EXPLANATION = __doc__
RULE_TEXT = "dependence under the `relative` flag; centred-frame typestate of chromatic coordinates; sign idiom; alias analysis"
EST = CC.EST
BDR = "dreye.api.barycentric:barycentric_dim_reduction"


def hooks():
    h = CC.hooks()

    def post_bdr(I, e, fn, args, kws, r):
        r = r.copy()
        r.tags["bary"] = True
        c = kws.get("center") or (args[1] if len(args) > 1 else None)
        if c is not None and c.known and c.const:
            r.frame = ("CENT", ("simplex-centre",))
        elif c is not None and not c.known:
            r.frame = None
        return r

    def pre_alpha(I, e, fn, args, kws):
        B = args[0] if args else kws.get("B")
        eq = args[1] if len(args) > 1 else kws.get("equations")
        hullpts = None
        if eq is not None and eq.tag("attr_of") is not None:
            hullpts = eq.tag("attr_of")[1].tag("points")
        I.emit("boundary_multiple", e, B=B, hull_points=hullpts)

    def pre_bdr(I, e, fn, args, kws):
        X = args[0] if args else kws.get("X")
        if X is not None and X.tag("maybe_zero_rows"):
            I.emit("zero_rows_to_chroma", e, X=X)
        elif X is not None and ("B" in X.flat().data or X.tag("corner_cloud")):
            I.emit("chroma_of_targets", e, X=X)

    def post_slice(I, e, fn, args, kws, r):
        """proj_P_to_simplex(P, c): the points where the edges of hull(P) cross the total c — same coordinates (axes, unit) as P, an
        unknown number of rows, none of them all-zero (each has total c > 0)"""
        P_ = args[0] if args else kws.get("P")
        r = r.copy()
        if P_ is not None and P_.shape is not None and not P_.shape.ell and P_.shape.axes:
            from ..values import Shape
            r.shape = Shape((None,) + tuple(P_.shape.axes[1:]))
            r.unit, r.frame, r.sign = P_.unit, P_.frame, P_.sign
            r.tags["kind"] = "ndarray"
            r.tags["ndim"] = len(r.shape.axes)
            if P_.tag("corner_cloud"):
                r.tags["corner_cloud"] = True
            r.tags.pop("maybe_zero_rows", None)
        return r

    h.setdefault("pre", {})[BDR] = pre_bdr
    h.setdefault("post", {})[BDR] = post_bdr
    h.setdefault("post", {})["dreye.api.project:proj_P_to_simplex"] = post_slice
    h.setdefault("pre", {})["dreye.api.project:alpha_for_B_with_P"] = pre_alpha
    return h


def fields_for(Fax):
    f = estimator_fields(K="vec", baseline="vec")
    if Fax == "#2":
        f.update(A=arr("self.A", S(("#2",), "SRC"), {"c": 1, "s": -1}, "GAIN", sign="NONNEG"),
                 K=arr("self.K", S(("#2",)), {"rho": 1, "c": -1}), baseline=arr("self.baseline", S(("#2",)), U_CAPTURE, "BASE", sign="NONNEG"),
                 filters=arr("self.filters", S(("#2",), "D"), {"phi": 1}))
    return f


def check(rep, an, tier):
    R.rule_alias(rep, an.model, "dreye.api.estimator", "ReceptorEstimator", "gamut_l1_scaling", "hull_l1_scaling")
    R.rule_alias(rep, an.model, "dreye.api.estimator", "ReceptorEstimator", "gamut_dist_scaling", "hull_dist_scaling")
    R.rule_facet_pairs(rep, an.model, entry="hull_l1_scaling → proj_P_to_simplex")
    spec = hooks()
    for meth in ("hull_l1_scaling", "hull_dist_scaling"):
        for rel in (True, False):
            for Fax in (("F", "#2") if meth == "hull_dist_scaling" else ("F",)):
                for neutral in ((None, "given") if meth == "hull_dist_scaling" else (None,)):
                    fields = fields_for(Fax)
                    ax = Fax if Fax == "F" else ("#2",)
                    kw = dict(B=CC.target(rel, S("N", ax)), relative=flag("relative", rel))
                    kw["B"].tags["maybe_zero_rows"] = True       # "all non-negative target sets (including all-zero rows)"
                    if meth == "hull_dist_scaling":
                        kw["neutral_point"] = none() if neutral is None else arr("neutral_point", S(ax), U_REL if rel else U_CAPTURE, sign="POS")
                    cfg = cfgname(dict(relative=rel, F=Fax, neutral=neutral))
                    res = an.run(f"{EST}.{meth}", kws=kw, self_fields=fields, spec=spec, config=cfg)
                    entry = f"ReceptorEstimator.{meth}"
                    v = res.value.flat()
                    for o in ("self.K", "self.baseline"):
                        if rel:
                            rep.check("R-FORWARD", f"relative=True: result depends on {o}", o in v.deps_all(), where=res.fn.loc(),
                                      construct=f"{o} → result of {meth}", entry=entry, config=cfg)
                        else:
                            rep.check("R-FORWARD", f"relative=False: result independent of {o}", o not in v.data, where=res.fn.loc(),
                                      construct=f"{o} ↛ result of {meth}", entry=entry, config=cfg,
                                      msg=f"with relative=False the scaled absolute captures still depend on {o}: the scaling is no longer "
                                          f"one common factor on the light-induced capture")
                    if meth == "hull_l1_scaling":
                        # the reference is the smallest single-source maximum — each source alone at its UPPER bound: lb has no part in it
                        rep.check("R-NOFLOW", "the intensity reference is taken at the upper bounds (independent of lb)",
                                  "self.lb" not in {o.split("|")[0] for o in v.data}, where=res.fn.loc(), construct="self.lb ↛ result of hull_l1_scaling",
                                  entry=entry, config=cfg,
                                  msg="the common factor depends on the lower bounds (e.g. A·(ub − lb)): the largest light-induced capture is then "
                                      "not the smallest single-source maximum A·ub whenever lb ≠ 0")
                    # internal calls to estimator methods that take `relative`
                    for ev in res.events("call"):
                        fn = ev.d["callee"]
                        if fn.cls and "relative" in fn.params and ev.fn.cls and R.near(ev):
                            bound = dict(ev.d["kws"])
                            for i, a in enumerate(ev.d["args"]):
                                if i + 1 < len(fn.params):
                                    bound.setdefault(fn.params[i + 1], a)
                            rv = bound.get("relative")
                            ok = rv is not None and "relative" in rv.flat().data
                            rep.check("R-FORWARD", f"relative → {fn.name}(relative=)", ok, where=ev.loc,
                                      construct=f"self.{fn.name}(…) in {meth}", entry=entry, config=cfg,
                                      msg=f"`{fn.name}` is called without forwarding `relative`: it uses its default (True) even for absolute captures")
                    if meth == "hull_dist_scaling":
                        early = [ev for ev in res.events("call") if ev.d["callee"].name == "in_hull" and ev.d["callee"].cls and R.near(ev)]
                        for ev in early:
                            nv = ev.d["kws"].get("normalized")
                            rep.check("R-FORWARD", "the early return uses the CHROMATIC membership test", nv is not None and nv.known and nv.const is True,
                                      where=ev.loc, construct="self.in_hull(…, normalized=True) in hull_dist_scaling", entry=entry, config=cfg,
                                      msg="the early in-gamut test is the plain (intensity-dependent) membership test: targets whose chromaticity is "
                                          "in gamut but whose intensity is not are needlessly desaturated, and vice versa")
                    else:
                        want = "TOTAL" if rel else None
                        if want:
                            rep.check("R-QTY", "intensity scaling returns total captures (baseline re-added once)", None if v.frame is None else v.frame == want,
                                      where=res.fn.loc(), construct="frame of the result of hull_l1_scaling", entry=entry, config=cfg,
                                      msg=f"the result is a {v.frame} capture: the baseline is not removed before / re-added after the common factor")
                    F.qty(rep, res, entry, subs=("mismatch", "centre", "frame-ratio"))
                    R.rule_type_errors(rep, res, "SHAPE", "R-SHAPE", entry)
                    R.rule_purity(rep, res, entry)
                    R.rule_index_space(rep, res, entry)
                    R.rule_effect_free(rep, res, entry, reg=_reg(an))
                    R.rule_dtype(rep, res, entry)
                    R.rule_block_cover(rep, res, entry)
                    CC.membership_frames(rep, res, entry)
                    CC.corner_subset(rep, res, entry)
                    CC.hull_spans_bounds(rep, res, entry)
                    if meth == "hull_dist_scaling":
                        CC.vertex_set(rep, res, entry)
                    if meth == "hull_dist_scaling":
                        CC.corner_map(rep, res, entry)
                    if Fax == "#2":
                        n = CC.dim1(rep, res, entry)
                    if meth == "hull_dist_scaling":
                        dist_structure(rep, res, entry, Fax)
                        CC.zero_rows(rep, res, entry)
    # matrix adaptation: the transformed baseline and capture matrix keep their (adapted receptor) axes
    from ..spec import rel_axis
    for meth in ("hull_l1_scaling", "hull_dist_scaling"):
        fields = estimator_fields(K="mat", baseline="vec")
        kw = dict(B=CC.target(True, S("N", rel_axis("mat"))), relative=flag("relative", True))
        if meth == "hull_dist_scaling":
            kw["neutral_point"] = none()
        res = an.run(f"{EST}.{meth}", kws=kw, self_fields=fields, spec=spec, config="relative=True,K=mat")
        entry = f"ReceptorEstimator.{meth}"
        R.rule_type_errors(rep, res, "SHAPE", "R-SHAPE", entry)
        F.qty(rep, res, entry, subs=("mismatch", "centre", "frame-ratio"))
        rep.holds("R-SHAPE", "matrix adaptation analysed", where=res.fn.loc(), construct=f"{meth} with a matrix K", entry=entry, config=res.config)
    rep.require("R-FORWARD", 20)
    rep.require("R-PURITY", 6)
    rep.require("R-SIGN", 2)
    rep.require("R-ZERO", 4)
    rep.require("R-QTY", 4)


def dist_structure(rep, res, entry, Fax):
    # boundary multiple: hull and targets centred on the same point
    for ev in res.events("boundary_multiple"):
        B, P = ev.d["B"], ev.d["hull_points"]
        if B is None or P is None or (B.frame is None and P.frame is None):
            rep.undecided("R-QTY", "hull and targets centred on the same point", where=ev.loc, construct=ev.text(), entry=entry, config=res.config)
        elif (B.frame is None) != (P.frame is None):
            rep.violated("R-QTY", "hull and targets centred on the same point", where=ev.loc, construct=ev.text(), entry=entry, config=res.config,
                         msg="only one of the gamut vertices / the targets is centred on the neutral point before the boundary multiple is "
                             "computed: hue directions are measured from different origins")
        else:
            rep.check("R-QTY", "hull and targets centred on the same point", B.frame == P.frame, where=ev.loc, construct=ev.text(), entry=entry,
                      config=res.config, msg=f"targets centred by {B.frame[1] if isinstance(B.frame, tuple) else B.frame}, hull by "
                                             f"{P.frame[1] if isinstance(P.frame, tuple) else P.frame}")
    # nanmin over positive-or-NaN multiples
    for ev in res.events("extremum"):
        if ev.d["name"] != "nanmin" or not any("hull_dist_scaling" in q for q in ev.path):
            continue
        a = ev.d["arg"]
        if a.tag("pos_or_nan") or a.sign == "POS":
            rep.holds("R-SIGN", "boundary multiple is positive-or-NaN", where=ev.loc, construct=ev.text(), entry=entry, config=res.config)
        elif a.tag("raw_quotient_by") is not None:
            rep.violated("R-SIGN", "boundary multiple is positive-or-NaN", where=ev.loc, construct=ev.text(), entry=entry, config=res.config,
                         msg="the smallest multiple is taken over the raw quotient by the centred chromatic coordinates: a target at the neutral "
                             "point (coordinate exactly 0 — every all-zero row is replaced by the neutral point) yields ±inf and targets on the "
                             "other side yield negative multiples; non-positive multiples must be discarded (set to NaN) before the minimum")
        else:
            rep.undecided("R-SIGN", "boundary multiple is positive-or-NaN", where=ev.loc, construct=ev.text(), entry=entry, config=res.config)
    # totals reused for the re-expansion come from the targets
    calls = [ev for ev in res.events("call") if ev.d["callee"].name == "cartesian_to_barycentric" and R.near(ev)]
    for ev in calls:
        X0 = ev.d["args"][0] if ev.d["args"] else ev.d["kws"].get("X")
        if X0 is not None and X0.tag("bary"):
            cent = isinstance(X0.frame, tuple) and X0.frame[0] == "CENT"
            rep.check("R-QTY", "the centre is added back before re-expanding", not cent, where=ev.loc, construct=ev.text(), entry=entry,
                      config=res.config,
                      msg="the scaled chromatic coordinates are still centred on the neutral point when they are converted back to captures")
        L1 = ev.d["args"][1] if len(ev.d["args"]) > 1 else ev.d["kws"].get("L1")
        rep.check("R-FLOW", "re-expansion uses the targets' own totals", L1 is not None and "B" in L1.flat().data, where=ev.loc,
                  construct=ev.text(), entry=entry, config=res.config)


def _reg(an):
    from .C14 import registration_writes
    return registration_writes(an)
