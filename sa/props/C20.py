"""C20 — irradiance ↔ photon-flux conversion is the physical law and its exact inverse (dimension typing).

Decided:
  R-QTY      the expression returned by irr2flux is of degree +1 in the spectrum and +1 in the wavelength and −1 in each of
             Planck's constant, the speed of light and Avogadro's number, with no numeric literal factor; flux2irr has exactly
             the opposite exponents (sibling inverse).  The SI dimension of I·λ/(h c N_A), computed from the unit definitions
             parsed out of units/pint.py, equals the dimension of the target unit 'E' (mol m⁻² s⁻¹ nm⁻¹), and conversely for
             'spectralirradiance' — with degree 1 in the spectrum the exponents (+1, −1, −1, −1) are the only ones that type
  alias table every unit string used in convert.py ('I', 'E', 'nm', 'spectralirradiance', the prefix target) is defined in
             pint.py or a pint built-in; wavelengths are converted to nm in both directions
  R-FORWARD  the axis path re-enters the same function with return_units, prefix and the unit argument forwarded
  R-SHAPE    with an axis argument the result has the axes of the input (the wavelength axis is moved back where it was)
  R-FLOW     a unit-carrying input is always converted with .to(units) before its magnitude is taken (no short-cut for
             'compatible' units); return_units decides only .magnitude (same number with and without units)
Not decided: pint's numerical conversion and prefix parsing; np.apply_along_axis on Quantities (see advisories)."""
from __future__ import annotations
import ast
import re
from ..spec import arr, num, intv, strv, const, none, flag, S
from .. import rules as R
from ..values import Val, Shape
from ..model import norm_text
from .common import opts, cfgname

OPTS = dict(opts(), rec_limit=2)
EXPLANATION = __doc__
RULE_TEXT = "homogeneity-degree typing of the returned expression + SI dimension algebra over the unit table parsed from units/pint.py"
CONV = "dreye.api.units.convert"
PINT = "dreye.api.units.pint"

# SI base dimensions of the pint names the definitions bottom out in (mass, length, time, substance, angle ignored)
BASE = {
    "joule": {"M": 1, "L": 2, "T": -2}, "watt": {"M": 1, "L": 2, "T": -3}, "meter": {"L": 1}, "nanometer": {"L": 1},
    "second": {"T": 1}, "mole": {"N": 1}, "steradian": {}, "nm": {"L": 1},
}
CONSTS = {"planck_constant": {"M": 1, "L": 2, "T": -1}, "speed_of_light": {"L": 1, "T": -1}, "N_A": {"N": -1}}


def dmul(a, b, k=1):
    r = dict(a)
    for x, v in b.items():
        r[x] = r.get(x, 0) + k * v
    return {x: v for x, v in r.items() if v}


PINT_PREFIXES = ("yocto", "zepto", "atto", "femto", "pico", "nano", "micro", "milli", "centi", "deci", "deca", "deka", "hecto", "kilo", "mega",
                 "giga", "tera", "peta", "exa", "zetta", "yotta", "kibi", "mebi", "gibi", "tebi", "pebi", "exbi", "zebi", "yobi",
                 "y", "z", "a", "f", "p", "n", "u", "µ", "μ", "m", "c", "d", "da", "h", "k", "M", "G", "T", "P", "E", "Z", "Y",
                 "Ki", "Mi", "Gi", "Ti", "Pi", "Ei", "Zi", "Yi")


def parse_units(model):
    """{name: dimension} from the ureg.define("a = expr = alias …") strings of units/pint.py"""
    m = model.modules.get(PINT)
    if m is None:
        raise R.AnalysisError(f"anchor lost: module {PINT}")
    defs = {}
    for n in ast.walk(m.tree):
        if isinstance(n, ast.Call) and isinstance(n.func, ast.Attribute) and n.func.attr == "define" and n.args:
            a = n.args[0]
            txt = None
            if isinstance(a, ast.Constant) and isinstance(a.value, str):
                txt = a.value
            elif isinstance(a, ast.BinOp) or isinstance(a, ast.JoinedStr):
                try:
                    txt = ast.literal_eval(a)
                except Exception:
                    txt = None
            else:
                try:
                    txt = ast.literal_eval(a)
                except Exception:
                    txt = None
            if txt:
                parts = [p.strip() for p in txt.split("=")]
                if len(parts) >= 2:
                    defs[parts[0]] = (parts[1], [p for p in parts[2:] if p])
    dims = dict(BASE)
    alias = {}
    for name, (expr, als) in defs.items():
        for a in als:
            alias[a] = name

    def dim_of(name, depth=0):
        name = alias.get(name, name)
        if name in dims:
            return dims[name]
        if name not in defs or depth > 12:
            return None
        d = eval_expr(defs[name][0], depth + 1)
        if d is not None:
            dims[name] = d
        return d

    def eval_expr(expr, depth):
        toks = re.findall(r"[A-Za-z_][A-Za-z_0-9]*|\*\*|\^|[*/()]|-?\d+", expr)
        out, sign, i = {}, 1, 0
        while i < len(toks):
            t = toks[i]
            if t == "/":
                sign = -1
            elif t == "*":
                sign = 1
            elif re.match(r"[A-Za-z_]", t):
                d = dim_of(t, depth)
                if d is None:
                    return None
                k = 1
                if i + 2 < len(toks) + 1 and i + 1 < len(toks) and toks[i + 1] in ("**", "^"):
                    k = int(toks[i + 2])
                    i += 2
                out = dmul(out, d, sign * k)
                sign = sign          # a '/' applies to the next factor only (pint: left to right)
                if sign == -1:
                    pass
            i += 1
            if t not in ("/",) and re.match(r"[A-Za-z_]", t):
                # after consuming a factor the default operator is '*', but a chain a / b / c keeps dividing
                nxt = toks[i] if i < len(toks) else None
                sign = -1 if nxt == "/" else 1
        return out

    table = {}
    for name in list(defs) + list(alias):
        d = dim_of(name)
        if d is not None:
            table[name] = d
    return table, set(defs) | set(alias)


def check(rep, an, tier):
    table, names = parse_units(an.model)
    for u in ("I", "E", "spectralirradiance"):
        rep.check("R-QTY", f"unit `{u}` is defined in units/pint.py", u in names and u in table, where=PINT.replace(".", "/") + ".py",
                  construct=f"ureg.define(… {u} …)", entry="unit table", msg="a unit string used by the converters is not defined")
    # a prefixed unit string built by the converters (f"{prefix}spectralirradiance", f"{prefix}E") must mean prefix × unit: pint resolves an
    # exactly DEFINED name before it splits off a prefix, so no defined name may spell prefix + another defined name
    shadow = [(n, p_, n[len(p_):]) for n in sorted(names) for p_ in PINT_PREFIXES
              if n.startswith(p_) and n[len(p_):] in names and n[len(p_):] != n]
    for n, p_, m_ in shadow:
        rep.violated("R-API", "no defined unit name spells a prefixed form of another unit", where=PINT.replace(".", "/") + ".py",
                     construct=f"ureg.define(… {n} …)", entry="unit table",
                     msg=f"the unit `{n}` is defined in its own right: the string `{p_}` + `{m_}` that the converters build for prefix='{p_}' now "
                         f"resolves to this definition instead of {p_}·{m_}, so the prefixed result is in a different unit than requested")
    if not shadow:
        rep.holds("R-API", "no defined unit name spells a prefixed form of another unit", where=PINT.replace(".", "/") + ".py",
                  construct=f"{len(names)} defined names × {len(PINT_PREFIXES)} prefixes", entry="unit table")
    dim_I, dim_E = table.get("I"), table.get("E")
    for fname, src, want_deg, out_unit, in_kw in (
            ("irr2flux", "irradiance", {"irradiance": 1, "wavelengths": 1, "planck_constant": -1, "speed_of_light": -1, "N_A": -1}, "E", "irr_units"),
            ("flux2irr", "photonflux", {"photonflux": 1, "wavelengths": -1, "planck_constant": 1, "speed_of_light": 1, "N_A": 1}, "spectralirradiance", "flux_units")):
        entry = fname
        for has_units in (False, True):
            for ru in (None, True, False):
                for prefix in (None, "micro"):
                    spec_ = arr(src, S("WL"), None)
                    if has_units:
                        spec_.tags.update(kind="pintq", has_units=True)
                    wl = arr("wavelengths", S("WL"), None)
                    kw = {src: spec_, "wavelengths": wl, "return_units": none() if ru is None else flag("return_units", ru),
                          "prefix": none() if prefix is None else strv("prefix", prefix), "axis": none()}
                    cfg = cfgname(dict(units=has_units, return_units=ru, prefix=prefix))
                    res = an.run(f"{CONV}:{fname}", kws=kw, spec=hooks(), config=cfg)
                    formula(rep, res, entry, want_deg, out_unit, table, dim_I, dim_E, fname, ru, has_units)
        # the unit the caller declares for the input (irr_units / flux_units) is used for plain numbers AND for quantities
        for has_units in (False, True):
            spec_ = arr(src, S("WL"), None)
            if has_units:
                spec_.tags.update(kind="pintq", has_units=True)
            kw = {src: spec_, "wavelengths": arr("wavelengths", S("WL"), None), "return_units": none(), "prefix": none(), "axis": none(),
                  in_kw: strv(in_kw, "I" if fname == "irr2flux" else "E")}
            res = an.run(f"{CONV}:{fname}", kws=kw, spec=hooks(), config=cfgname(dict(units=has_units, declared_unit="given")))
            # … and with the wavelengths given as a quantity (any length unit)
            kwq = dict(kw)
            kwq["wavelengths"] = arr("wavelengths", S("WL"), None)
            kwq["wavelengths"].tags.update(kind="pintq", has_units=True)
            resq = an.run(f"{CONV}:{fname}", kws=kwq, spec=hooks(), config=cfgname(dict(units=has_units, wavelengths="quantity")))
            convq = [ev for ev in resq.events("pint_to") if ev.d.get("target") is not None and ev.d["target"].known and ev.d["target"].const == "nm"
                     and ev.d.get("base") is not None and "wavelengths" in ev.d["base"].flat().data]
            rawq = [ev for ev in resq.events("raw_magnitude") if "wavelengths" in ev.d["of"].flat().data]
            rep.check("R-QTY", "wavelengths given as a quantity are converted to nm", bool(convq) and not rawq, where=resq.fn.loc(),
                      construct=f"wavelengths.to('nm') in {fname}", entry=entry, config=resq.config,
                      msg="a wavelength quantity (µm, m, Å) is not converted to nanometres before its number enters λ/(h c N_A)")
            dv = {o.split("|")[0] for o in res.value.flat().deps_all()}
            rep.check("R-FLOW", f"the declared input unit ({in_kw}) is applied", in_kw in dv, where=res.fn.loc(), construct=f"{in_kw} → result of {fname}",
                      entry=entry, config=res.config,
                      msg=f"for {'quantities' if has_units else 'plain numbers'} the result does not depend on `{in_kw}`: the input is labelled with a "
                          f"fixed unit, so values given in another prefix (e.g. 'uE') come out wrong by that factor and the inverse no longer "
                          f"undoes the forward conversion")
        # broadcasting path with wavelength-major spectra: a COLUMN of wavelengths (n_wl, 1) scales the rows of (n_wl, n_samples)
        kwc = {src: arr(src, S("WL", "NS"), None), "wavelengths": arr("wavelengths", S("WL", "1"), None), "return_units": none(),
               "prefix": none(), "axis": none()}
        resc = an.run(f"{CONV}:{fname}", kws=kwc, spec=hooks(), config="wavelengths as a column, spectra (WL, NS)")
        R.rule_type_errors(rep, resc, "SHAPE", "R-SHAPE", entry)
        sc = resc.value.flat().shape
        rep.check("R-SHAPE", "column wavelengths broadcast along the first axis", None if sc is None else sc == S("WL", "NS"), where=resc.fn.loc(),
                  construct=f"shape of {fname}((WL, NS), wavelengths (WL, 1))", entry=entry, config=resc.config, msg=f"computed {sc}")
        # axis path
        for axis in (0, 1, -1):
            shp = {0: S("WL", "P", "Q"), 1: S("P", "WL", "Q"), -1: S("P", "Q", "WL")}[axis]
            kw = {src: arr(src, shp, None), "wavelengths": arr("wavelengths", S("WL"), None), "return_units": flag("return_units", False),
                  "prefix": strv("prefix", "micro"), "axis": const(axis), in_kw: strv(in_kw, "I" if fname == "irr2flux" else "E")}
            res = an.run(f"{CONV}:{fname}", kws=kw, spec=hooks(), config=f"axis={axis}")
            aa = res.events("apply_along_axis")
            rec = [ev for ev in res.events("call") if ev.d["callee"].name == fname and R.near(ev)]
            if aa:
                for ev in aa:
                    fnv = ev.d["fn"]
                    rep.check("R-FORWARD", "axis path re-enters the same converter", fnv.tag("repofunc") is not None and fnv.tag("repofunc").name == fname,
                              where=ev.loc, construct=ev.text()[:70], entry=entry, config=res.config)
                    ax = ev.d["axis"]
                    rep.check("R-FORWARD", "the requested axis is the one iterated", ax is not None and "axis" in ax.flat().data | {"axis"} and ax.known and ax.const == axis,
                              where=ev.loc, construct=ev.text()[:70], entry=entry, config=res.config)
                    for p in ("return_units", "prefix", in_kw):
                        v = ev.d["kws"].get(p)
                        rep.check("R-FORWARD", f"{p} forwarded on the axis path", v is not None and p in v.flat().data, where=ev.loc,
                                  construct=f"np.apply_along_axis({fname}, …) {p}=", entry=entry, config=res.config,
                                  msg=f"`{p}` is not forwarded when an axis is given: the converter runs with its default ({p}=None) per slice")
                    w = ev.d["rest"][0] if ev.d["rest"] else ev.d["kws"].get("wavelengths")
                    rep.check("R-FORWARD", "wavelengths forwarded on the axis path", w is not None and "wavelengths" in w.flat().data, where=ev.loc,
                              construct=f"np.apply_along_axis({fname}, …) wavelengths", entry=entry, config=res.config)
            elif rec:
                for ev in rec:
                    for p in ("return_units", "prefix", in_kw):
                        v = ev.d["kws"].get(p)
                        rep.check("R-FORWARD", f"{p} forwarded on the axis path", v is not None and p in v.flat().data, where=ev.loc,
                                  construct=f"{fname}(…) {p}= on the axis path", entry=entry, config=res.config)
                v = res.value.flat()
                ok = None if v.shape is None else v.shape == shp
                rep.check("R-SHAPE", "axis path returns the axes of the input", ok, where=res.fn.loc(), construct=f"axis handling of {fname}",
                          entry=entry, config=res.config,
                          msg=f"input axes {shp}, result axes {v.shape}: the wavelength axis is not moved back by the inverse permutation")
            else:
                rep.violated("R-FORWARD", "axis path re-enters the same converter", where=res.fn.loc(), construct=f"axis branch of {fname}",
                             entry=entry, config=res.config, msg="an axis argument neither iterates slices nor re-enters the converter")
    # optional_to: always convert
    for units in ("nm",):
        q = Val(data={"obj"}, tags={"kind": "pintq", "has_units": True, "notnone": True}, term=("in", "obj"))
        res = an.run(f"{CONV}:optional_to", kws=dict(obj=q, units=strv("units", units)), spec=hooks(), config="quantity, units given")
        rets = [r for r in res.events("return") if len(r.path) == 1]
        for r in rets:
            v = r.d["val"]
            und = [g[0] for g in r.guards if len(g) > 3 and not g[3]]
            conv = bool(v.tag("pint_converted"))
            rep.check("R-FLOW", "quantities are converted with .to(units) before .magnitude", conv or not und and conv, where=r.loc,
                      construct=r.text()[:70], entry="optional_to", config=res.config,
                      msg=f"on the path guarded by {und} the magnitude of a unit-carrying input is returned without converting it to `{units}`: "
                          f"compatible but differently scaled units (mW, µm …) give wrong numbers")
    # the 'flux' context transformations of the registry (the quantity route q.to('E', 'flux', domain=wl)): the wavelengths arrive as
    # a quantity in any length unit; pint's own arithmetic converts them — their bare number must never be taken and relabelled
    for tname in ("_irr2flux", "_flux2irr"):
        if an.model.func(PINT, tname) is None:
            rep.undecided("R-QTY", "context transformation found", where=PINT.replace(".", "/") + ".py", construct=tname, entry=tname)
            continue
        x = Val(data={"x"}, tags={"kind": "pintq", "has_units": True, "notnone": True}, term=("in", "x"))
        dom = Val(data={"domain"}, tags={"kind": "pintq", "has_units": True, "notnone": True}, term=("in", "domain"))
        ur = Val(data=frozenset(), tags={"kind": "ureg", "notnone": True}, term=("in", "unit_registry"))
        res = an.run(f"{PINT}:{tname}", kws=dict(unit_registry=ur, x=x, domain=dom), spec=hooks(), config="quantity wavelengths")
        raw = [ev for ev in res.events("raw_magnitude") if "domain" in ev.d["of"].flat().data or "x" in ev.d["of"].flat().data]
        for ev in raw:
            rep.violated("R-QTY", "context transformation keeps the units of its operands", where=ev.loc, construct=ev.text(), entry=tname,
                         config=res.config,
                         msg="the bare number of a unit-carrying operand is taken without converting it first: wavelengths given in µm, m or "
                             "Å are then read as nanometres (off by 1e3, 1e9, 0.1) on the quantity route, unlike the plain-array functions")
        if not raw:
            v = res.value.flat()
            rep.check("R-QTY", "context transformation keeps the units of its operands", {"x", "domain"} <= set(v.data), where=res.fn.loc(),
                      construct=f"operands of {tname}", entry=tname, config=res.config, msg=f"result depends on {sorted(v.data)}")
    rep.advisory("np.apply_along_axis on a pint.Quantity raises TypeError / strips units (reported by an independent probe): the 'same numbers "
                 "with and without units' clause is not decided for axis != None")
    rep.require("R-QTY", 30)
    rep.require("R-FORWARD", 20)
    rep.require("R-FLOW", 1)


def hooks():
    def has_units(I, e, fn, args, kws):
        o = args[0] if args else kws.get("obj")
        v = Val(tags={"kind": "bool"}, shp=o.flat().data)
        if o.tag("has_units") is not None:
            v.const = bool(o.tag("has_units"))
        elif o.tag("kind") == "ndarray" or o.tag("isnum"):
            v.const = False
        return v
    return {"summaries": {f"{CONV}:has_units": has_units}}


def formula(rep, res, entry, want_deg, out_unit, table, dim_I, dim_E, fname, ru, has_units):
    v = res.value.flat()
    d = v.tag("deg")
    where = res.fn.loc()
    R.rule_dtype_casts(rep, res, entry)
    rep.check("R-QTY", "exponents of spectrum, wavelength, h, c, N_A", None if d is None else {k: x for k, x in d.items() if x} == want_deg,
              where=where, construct=f"expression returned by {fname}", entry=entry, config=res.config,
              msg=f"degrees {d}; the physical law needs {want_deg}")
    rep.check("R-QTY", "no numeric literal factor", not v.tag("litfactor"), where=where, construct=f"literal factors in {fname}", entry=entry,
              config=res.config, msg="a bare number multiplies the converted spectrum")
    # SI dimension of the expression vs the target unit
    if d is not None and dim_I is not None and dim_E is not None:
        src_dim = dim_I if fname == "irr2flux" else dim_E
        dim = {}
        for k, x in d.items():
            if k in ("irradiance", "photonflux"):
                dim = dmul(dim, src_dim, x)
            elif k == "wavelengths":
                dim = dmul(dim, {"L": 1}, x)
            elif k in CONSTS:
                dim = dmul(dim, CONSTS[k], x)
        tgt = table.get(out_unit)
        rep.check("R-QTY", f"dimension of the expression equals the dimension of `{out_unit}`", None if tgt is None else dim == tgt,
                  where=where, construct=f"dimension of {fname}", entry=entry, config=res.config, msg=f"expression {dim}, target {tgt}")
    # the .to(target) conversions on the path
    tos = res.events("pint_to")
    targets = []
    for ev in tos:
        t = ev.d.get("target")
        if t is None:
            continue
        parts = t.tag("fstr_parts")
        if parts is not None:
            suffix = parts[-1] if isinstance(parts[-1], str) else None
            dep = any((not isinstance(p, str)) and "prefix" in p.flat().data | ({"prefix"} if p.known else set()) for p in parts)
            targets.append((suffix, dep, ev))
        elif t.known:
            targets.append((t.const, None, ev))
    outs = [t for t in targets if t[0] == out_unit]
    rep.check("R-QTY", f"result converted to `<prefix>{out_unit}`", bool(outs), where=where, construct=f".to(f'{{prefix}}{out_unit}') in {fname}",
              entry=entry, config=res.config, msg=f"targets found: {[t[0] for t in targets]}")
    for t in outs:
        if t[1] is not None:
            rep.check("R-FLOW", "the requested prefix scales the target unit", t[1], where=t[2].loc, construct=t[2].text()[:70], entry=entry,
                      config=res.config,
                      msg="the prefix that reaches the target unit is not the caller's text itself (absent, or a case-folded / otherwise "
                          "non-injectively normalised image of it: 'M' mega and 'm' milli, 'P' peta and 'p' pico then name the same unit)")
    nm = [ev for ev in res.events("call") if ev.d["callee"].name == "optional_to" and R.near(ev) and len(ev.d["args"]) > 1
          and ev.d["args"][1].known and ev.d["args"][1].const == "nm" and "wavelengths" in ev.d["args"][0].flat().data]
    if not nm:
        # … or converted directly: wavelengths.to("nm", …) before the magnitude is taken
        for ev in tos:
            t = ev.d.get("target")
            recv = ev.d.get("recv") or ev.d.get("base")
            if t is not None and t.known and t.const == "nm" and recv is not None and "wavelengths" in recv.flat().data:
                nm.append(ev)
    wl_in = getattr(res, "inputs", {}).get("wavelengths")
    wl_units = wl_in is not None and wl_in.tag("kind") == "pintq"
    raw = [ev for ev in res.events("raw_magnitude") if "wavelengths" in ev.d["of"].flat().data]
    # plain wavelengths are nanometres by definition; a quantity must be converted to nm before its number is used
    rep.check("R-QTY", "wavelengths are converted to nm", (bool(nm) or not wl_units) and not raw, where=where,
              construct="optional_to(wavelengths, 'nm')", entry=entry, config=res.config,
              msg="the number of a unit-carrying wavelength is used without converting it to nanometres first")
    # return_units decides only .magnitude
    rets = [r for r in res.events("return") if len(r.path) == 1]
    if ru is not None:
        for r in rets:
            val = r.d["val"]
            is_mag = isinstance(val.term, tuple) and val.term and val.term[0] == "magnitude"
            rep.check("R-FLOW", "return_units decides only .magnitude", is_mag == (ru is False), where=r.loc, construct=r.text()[:70], entry=entry,
                      config=res.config)
