"""C11 — layer decomposition honours its constraints; alternation hand-over; seeding (formulation).

Decided:
  R-FLOW       the mask reaches a zero-constraint on X; the equal-L1 option reaches an equality of the layer sums that
               does not depend on the mask; lb/ub reach the X constraints; lbp/ubp reach the P constraints of BOTH
               P problems (in the loop and the full refit after subsampling)
  R-TYPESTATE  alternation: inside the loop X is solved, handed to the P problem's parameter, P is solved and handed
               back; a final X refit follows the loop; after subsampling the full-size P refit is built from the
               refitted X (not from a loop parameter); the returned fit is P @ X @ Aᵀ + baseline of the returned P, X
  R-SEED       seed reaches the subsampling generator and the NMF initialisation; no unseeded randomness
  R-PURITY     the caller's targets are not modified in place
Not decided: monotone descent, optimality of each convex step, constraints to solver tolerance."""
from __future__ import annotations
from ..spec import (rel_axis, lsq_inputs, const, none, opaque, arr, num, intv, strv, flag, estimator_fields, S, U_REL, U_INT, U_CAPTURE)
from .. import rules as R
from ..model import norm_text
from .common import LSQ, opts, cfgname, lsq_configs
from . import formulation as F
from .. import ext_models as X

OPTS = opts()
EXPLANATION = __doc__
RULE_TEXT = "dependence into each sub-problem; event-order typestate over the alternation loop; seed dependence of every RNG"
EST = "dreye.api.estimator:ReceptorEstimator"

AXES = {
    "mask": (["given", None], ["given", None]),
    "equal": ([True, False], [True, False]),
    "subsample": ([None, "fast", "number"], [None, "fast", "number"]),
    "K": (["vec", "mat", None], ["vec", "mat", None]),
    "baseline": (["vec", None], ["vec", None]),
    "W": (["mat", "vec"], ["mat", "vec", None]),
}


def run(an, cfg, ub="finite", seed="int"):
    kw = lsq_inputs(K=cfg["K"], baseline=cfg["baseline"], W=cfg.get("W", "mat"), lb="nonneg", ub=ub, bs=1)
    kw.pop("batch_size")
    kw.update(verbose=const(0), return_pred=const(True))
    kw["n_layers"] = intv("n_layers", "L")
    kw["mask"] = none() if cfg["mask"] is None else arr("mask", S("L", "SRC"), {}, sign="NONNEG")
    kw["equal_l1norm_constraint"] = flag("equal_l1norm_constraint", cfg["equal"])
    kw["lbp"] = num("lbp", {}, sign="NONNEG")
    kw["ubp"] = num("ubp", {}, sign="POS")
    kw["seed"] = intv("seed", np_scalar=(seed == "numpy integer"))
    kw["seed"].tags.pop("dim", None)
    kw["subsample"] = {None: none(), "fast": strv("subsample", "fast"), "number": num("subsample", {}, sign="POS")}[cfg["subsample"]]
    if cfg["subsample"] == "number":
        kw["subsample"].tags["truth"] = True
    kw["max_iter"] = intv("max_iter")
    kw["init_iter"] = intv("init_iter")
    kw["solver_opt"] = opaque("solver_opt")
    return an.run(f"{LSQ}:lsq_linear_decomposition", kws=kw, config=cfgname(cfg))


def check(rep, an, tier):
    # the bounds every clause below speaks of are the REGISTERED ones: registration keeps / replaces exactly what it is given
    from .C14 import register_bounds_rule
    register_bounds_rule(rep, an)
    entry = "lsq_linear_decomposition"
    d0 = {n: AXES[n][0][0] for n in AXES}
    F.mixed_upper_bounds(rep, run(an, d0, ub="mixed"), entry)
    # a numpy integer (np.int64 out of np.arange / rng.integers) is a seed like any other
    r_np = run(an, dict(d0, subsample="fast"), seed="numpy integer")
    r_np.config += ",seed=numpy integer"
    seeds(rep, r_np, entry, d0)
    for cfg in lsq_configs(tier, AXES):
        res = run(an, cfg)
        heap = res.heap
        I = R._FakeI(res)
        allp = R.problems_of(res)
        items = F.ret_items(res)
        xvars = R.sol_ids(items[0])
        pvars = R.sol_ids(items[1]) if len(items) > 1 else set()
        xprobs = [p for p in allp if X.problem_leaves(I, p[0], ("cvxvar",)) & xvars]
        # the P problems are the sub-problems that are not X problems (after subsampling the opacity variable is
        # re-created for all samples, so only the last one reaches the returned P directly)
        pprobs = [p for p in allp if p not in xprobs]
        ret_p = [p for p in pprobs if X.problem_leaves(I, p[0], ("cvxvar",)) & pvars]
        for p in pprobs:
            pvars = pvars | X.problem_leaves(I, p[0], ("cvxvar",))
        rep.check("R-TYPESTATE", "returned opacities are the solution of a P problem", bool(ret_p), where=res.fn.loc(),
                  construct="P returned by lsq_linear_decomposition", entry=entry, config=res.config)
        rep.check("R-TYPESTATE", "X and P sub-problems found", bool(xprobs) and bool(pprobs), where=res.fn.loc(),
                  construct="sub-problems of the decomposition", entry=entry, config=res.config)
        want_p = 2 if cfg["subsample"] else 1
        rep.check("R-TYPESTATE", f"{want_p} P problem(s) reach the returned opacities", len(pprobs) >= want_p, where=res.fn.loc(),
                  construct="P problems", entry=entry, config=res.config, msg=f"found {len(pprobs)}")
        # the returned opacities belong row by row to the caller's targets: no problem that solves them may be fitted to a
        # randomly drawn (subsampled / permuted) selection of the target rows
        for po, obj, cons in ret_p:
            drawn = [o_ for at, v, ops in R.walk_atoms(obj) for o_ in ops if not o_.tag("cvx") and o_.tag("rows_drawn")]
            rep.check("R-TYPESTATE", "returned opacities are fitted to the targets in the caller's row order", not drawn, where=F.where_po(po),
                      construct=f"objective of the problem built in {po.fn.name} that solves the returned P", entry=entry, config=res.config,
                      msg="on some path the returned opacities are the solution of the sub-problem fitted to the randomly drawn subsample "
                          "(rng.choice order): row i of P then belongs to another target row than row i of B, and was not refitted "
                          "after the last X update")
        # ---- constraint flows
        F.flow_constraints(rep, res, entry, {"lb", "ub"} | ({"mask"} if cfg["mask"] else set()), xprobs, what="X constraints")
        F.must_constraint(rep, res, entry, "lb", "lower bound", xprobs)
        F.must_constraint(rep, res, entry, "ub", "upper bound", xprobs)
        for k, pp in enumerate(pprobs):
            F.flow_constraints(rep, res, entry, {"lbp", "ubp"}, [pp], what=f"P constraints (P problem {k + 1})")
        # the opacity bounds are enforced on every path (a `pos=True` attribute only gives P ≥ 0, not P ≥ lbp)
        F.must_constraint(rep, res, entry, "lbp", "lower opacity bound", pprobs)
        F.must_constraint(rep, res, entry, "ubp", "upper opacity bound", pprobs)
        # equal-L1 equality: present iff requested; its guards must not depend on the mask
        def _is_total_equality(c):
            """layer totals set equal: `cp.diff(cp.sum(X, axis=1)) == 0`, or an equality whose two sides are both (parts of) the layer sums
            of the intensity variable (`t[1:] == t[:-1]`, `t == cp.sum(t) / n`)"""
            if c.tag("op") != "Eq":
                return False
            if "diff" in R.atoms_in(c):
                return True
            l_, r_ = c.tag("lhs"), c.tag("rhs")
            if l_ is None or r_ is None:
                return False
            def sums_x(v):
                return "sum" in R.atoms_in(v) and bool(set(v.flat().refs) & xvars)
            return sums_x(l_) and sums_x(r_)
        eq = [ev for ev in res.events("cvx_constraint") if _is_total_equality(ev.d["val"])]
        if cfg["equal"]:
            rep.check("R-FLOW", "equal-L1 request → equality of the layer sums", bool(eq), where=res.fn.loc(),
                      construct="equal_l1norm_constraint → cp.diff(cp.sum(X, axis=1)) == 0", entry=entry, config=res.config,
                      msg="no equality constraint on the layer totals is built although equal L1 was requested")
            for ev in eq:
                # what is equated are the layer TOTALS themselves: the argument of the difference depends on nothing but the variable
                # (a per-layer scale — e.g. 1 / number of unmasked sources — equates means, not totals)
                cd = {o.split("|")[0] for o in R.closure_deps(res, ev.d["val"])} - {"n_layers", "equal_l1norm_constraint"}
                rep.check("R-FLOW", "the equal-L1 equality equates the layer totals themselves", not (cd & {"mask", "lb", "ub", "A", "B"}), where=ev.loc,
                          construct=ev.text()[:80], entry=entry, config=res.config,
                          msg=f"the quantity whose layer-to-layer difference is set to zero is scaled / shifted by something computed from "
                              f"{sorted(cd & {'mask', 'lb', 'ub', 'A', 'B'})}: with rows of the mask that allow different numbers of sources the layers get "
                              f"equal MEAN intensities over their active sources, not equal totals")
                bad = [g[0] for g in ev.guards if len(g) > 4 and not g[3] and ("mask" in g[4])]
                rep.check("R-FLOW", "equal-L1 equality independent of the mask", not bad, where=ev.loc, construct=ev.text(),
                          entry=entry, config=res.config,
                          msg=f"the equality of the layer totals is only added under the mask-dependent guard {bad}: "
                              f"with a mask containing zeros the equal-L1 request is silently dropped")
        else:
            rep.check("R-FLOW", "no equal-L1 equality unless requested", not eq, where=res.fn.loc(),
                      construct="equal_l1norm_constraint=False", entry=entry, config=res.config)
        if cfg["mask"]:
            mz = [ev for ev in res.events("cvx_constraint") if "mask" in R.closure_deps(res, ev.d["val"]) or "mask" in ev.d["val"].flat().data | ev.d["val"].flat().shp]
            rep.check("R-FLOW", "mask → zero constraint", bool(mz), where=res.fn.loc(), construct="X[mask == 0] == 0", entry=entry,
                      config=res.config)
        # ---- objective flows
        need = {"A", "B"} | ({"W"} if cfg.get("W", "mat") else set()) | ({"K"} if cfg["K"] else set()) | ({"baseline"} if cfg["baseline"] else set())
        F.flow_objective(rep, res, entry, need, xprobs, label="X objective")
        F.flow_objective(rep, res, entry, need, pprobs, label="P objective")
        # the X step couples ALL samples in one objective: the weights must enter it as given (degree 1 in W) — a per-sample
        # normalisation of W (harmless for row-separable fits) changes the relative weight of the samples here
        for ev in res.events("cvx_entry"):
            for o_ in ev.d["operands"]:
                if "W" in o_.flat().data and o_.tag("deg") is not None:
                    dW = o_.tag("deg").get("W")
                    rep.check("R-QTY", "sample weights enter the coupled objective as given (degree 1 in W)", dW == 1, where=ev.loc,
                              construct=ev.text()[:80], entry=entry, config=res.config,
                              msg=f"the weight operand is homogeneous of degree {dW} in W: the weights were normalised per sample, which changes "
                                  f"the relative weighting of samples in the X sub-problem that couples them")
        # both alternating steps (and the reported loss) minimise the SAME weighted error: the exponent with which the weights enter,
        # relative to the residual's, agrees between the X and the P objectives (‖W∘R‖ ≡ Σ W²R²; Σ W·R² is a different error)
        if cfg.get("W", "mat"):
            ratios = {}
            for kind_, probs_ in (("X", xprobs), ("P", pprobs)):
                for po, obj, cons in probs_:
                    sense, expr = R.objective_nf(obj)
                    we = weight_exponent(expr)
                    if we is not None and we[1]:
                        ratios.setdefault(round(we[0] / we[1], 6), []).append((kind_, po, obj))
            if len(ratios) > 1:
                # the odd one out: the ratio used by fewer problems
                odd = min(ratios.items(), key=lambda kv: len(kv[1]))
                for kind_, po, obj in odd[1][:1]:
                    node = obj.tag("node")
                    rep.violated("R-QTY", "X step and P step minimise the same weighted error", where=F.where_po(po),
                                 construct=norm_text(node)[:80] if node is not None else f"{kind_} objective", entry=entry, config=res.config,
                                 msg=f"in the {kind_} objective the weights enter with exponent {odd[0]:g} relative to the residual, in the other "
                                     f"sub-problem with {[k for k in ratios if k != odd[0]][0]:g}: the alternation minimises two different errors, so "
                                     f"a step can increase the other step's (and the reported) error and the last factor is not optimal for it")
            elif ratios:
                rep.holds("R-QTY", "X step and P step minimise the same weighted error", where=res.fn.loc(), construct="weight exponent of both objectives",
                          entry=entry, config=res.config)
        # ---- alternation order inside the loop
        alternation(rep, res, entry, xprobs, pprobs, xvars, pvars, cfg)
        # ---- returned fit
        if len(items) > 2:
            pr = R.sol_ids(items[2])
            rp = R.sol_ids(items[1])
            rep.check("R-TYPESTATE", "returned fit = capture of returned P and X", xvars <= pr and rp <= pr and bool(rp), where=res.fn.loc(),
                      construct="fitted capture returned by lsq_linear_decomposition", entry=entry, config=res.config)
        urel = U_REL if cfg["K"] else U_CAPTURE
        F.return_types(rep, res, entry, [("X", None, U_INT, None), ("P", None, None, None),
                                         ("fit", S("N", rel_axis(cfg["K"])), urel, "TOTAL" if cfg["baseline"] else None)])
        F.qty(rep, res, entry)
        F.solve_kwargs(rep, res, entry)
        F.hygiene(rep, res, entry, refresh=False)
        seeds(rep, res, entry, cfg)
        # advisory: convergence gate on the wrong problem
    rep.advisory("after the full-size P refit the code tests x_problem.value instead of p_problem.value: a failed P solve "
                 "surfaces as a TypeError rather than the documented RuntimeError (not a violation of C11)")
    fields = estimator_fields(K="vec", baseline="vec")
    kw = dict(B=arr("B", S("N", "F"), U_REL, "TOTAL"), n_layers=intv("n_layers", "L"), mask=arr("mask", S("L", "SRC"), {}),
              lbp=num("lbp", {}), ubp=num("ubp", {}), seed=intv("seed"), subsample=strv("subsample", "fast"),
              equal_l1norm_constraint=flag("equal_l1norm_constraint", True), verbose=const(0), max_iter=intv("max_iter"),
              init_iter=intv("init_iter"), xtol=num("xtol", {}), ftol=num("ftol", {}))
    res = an.run(f"{EST}.fit_decomposition", kws=kw, self_fields=fields, config="estimator")
    F.forwards(rep, res, "ReceptorEstimator.fit_decomposition", {"lsq_linear_decomposition"},
               {"A": "self.A", "lb": "self.lb", "ub": "self.ub", "W": "self.W", "K": "self.K", "baseline": "self.baseline", "B": "B",
                "n_layers": "n_layers", "mask": "mask", "lbp": "lbp", "ubp": "ubp", "seed": "seed", "subsample": "subsample",
                "equal_l1norm_constraint": "equal_l1norm_constraint", "max_iter": "max_iter", "xtol": "xtol", "ftol": "ftol"})
    F.wrapper_returns_solution(rep, res, "ReceptorEstimator.fit_decomposition", {"lsq_linear_decomposition"}, ("X", "P", "B"))
    F.qty(rep, res, "ReceptorEstimator.fit_decomposition")
    # … also when the registered weights are per sample (two-dimensional) and the targets are passed explicitly
    res2 = an.run(f"{EST}.fit_decomposition", kws=kw, self_fields=estimator_fields(K="vec", baseline="vec", W="mat"), config="estimator, W per sample")
    F.forwards(rep, res2, "ReceptorEstimator.fit_decomposition", {"lsq_linear_decomposition"}, {"W": "self.W", "A": "self.A", "B": "B"})
    rep.require("R-FLOW", 60)
    rep.require("R-TYPESTATE", 30)
    rep.require("R-SEED", 8)


def alternation(rep, res, entry, xprobs, pprobs, xvars, pvars, cfg):
    heap = res.heap
    xids = {p[0].id for p in xprobs}
    pids = {p[0].id for p in pprobs}
    solves = res.events("solve")
    loop_solves = [s for s in solves if s.loops]
    if not loop_solves:
        rep.violated("R-TYPESTATE", "alternation loop", where=res.fn.loc(), construct="solve inside the alternation loop",
                     entry=entry, config=res.config, msg="no sub-problem is solved inside a loop")
        return
    loop = loop_solves[0].loops[-1]
    seq = []
    for ev in res.trace.events:
        if not ev.loops or ev.loops[-1] != loop:
            continue
        if ev.kind == "solve":
            seq.append(("solve", "X" if ev.d["problem"] in xids else ("P" if ev.d["problem"] in pids else "?"), ev))
        elif ev.kind == "attr_store" and ev.d["attr"] == "value":
            v = ev.d["val"].flat()
            src = v.tag("value_of")
            tgt = [o for o in ev.d["base"].refs if o in heap and heap[o].kind == "cvxparam"]
            if tgt:
                seq.append(("store", "X" if src in xvars else ("P" if src in pvars else "?"), ev))
    one = []
    for kind, who, ev in seq:
        if one and (kind, who) == one[0][:2]:
            break               # second loop round of the abstract interpretation
        one.append((kind, who, ev))
    pat = [(k, w) for k, w, _ in one]
    want = [("solve", "X"), ("store", "X"), ("solve", "P"), ("store", "P")]
    ok = pat == want
    rep.check("R-TYPESTATE", "alternation: solve X → hand X over → solve P → hand P over", ok, where=one[0][2].loc if one else res.fn.loc(),
              construct="body of the alternation loop", entry=entry, config=res.config,
              msg=f"order found in the loop body: {pat}")
    # the loop is left (convergence `break`) only AFTER the new P was handed over: the X refit that follows the loop is solved against the
    # P that is returned
    evs_ = [e_ for e_ in res.trace.events if e_.loops and e_.loops[-1] == loop]
    stP = [e_ for k_, w_, e_ in one if (k_, w_) == ("store", "P")]
    slP = [e_ for k_, w_, e_ in one if (k_, w_) == ("solve", "P")]
    if stP and slP:
        i_solve, i_store = evs_.index(slP[0]), evs_.index(stP[0])
        early = [e_ for e_ in evs_[i_solve:i_store] if e_.kind == "break"]
        rep.check("R-TYPESTATE", "the loop is left only after the new P was handed over", not early, where=(early[0].loc if early else stP[0].loc),
                  construct=(early[0].text() if early else stP[0].text())[:80], entry=entry, config=res.config,
                  msg="a `break` of the alternation loop lies between the P solve and the hand-over `Ppar.value = P`: when the loop converges the "
                      "final X refit is solved against the PREVIOUS P while the newest P is returned — the returned X is not optimal for the returned P")
    # the parameter that receives X must belong to a P problem and vice versa
    I = R._FakeI(res)
    for kind, who, ev in one:
        if kind != "store":
            continue
        tgt = {o for o in ev.d["base"].refs if o in heap and heap[o].kind == "cvxparam"}
        other = pprobs if who == "X" else xprobs
        used = any(tgt & X.problem_leaves(I, p[0], ("cvxparam",)) for p in other)
        rep.check("R-TYPESTATE", f"hand-over of {who} feeds the other sub-problem", used, where=ev.loc, construct=ev.text(),
                  entry=entry, config=res.config)
    # final X refit after the loop
    after = [s for s in solves if not s.loops and s.d["problem"] in xids]
    rep.check("R-TYPESTATE", "final X refit after the last P update", bool(after), where=res.fn.loc(),
              construct="x_problem.solve after the loop", entry=entry, config=res.config)
    # full-size P refit (subsampling): its objective is built from the refitted X itself
    if cfg["subsample"]:
        full = [p for p in pprobs if not any(s.loops for s in solves if s.d["problem"] == p[0].id)]
        rep.check("R-TYPESTATE", "full-size P refit exists after subsampling", bool(full), where=res.fn.loc(),
                  construct="P refit on all samples", entry=entry, config=res.config)
        for po, obj, cons in full:
            direct = set(obj.flat().refs)
            params = {r for r in direct if r in heap and heap[r].kind == "cvxparam"}
            ok = bool(xvars & R.sol_ids(obj)) and not params
            rep.check("R-TYPESTATE", "full-size P refit uses the refitted X", ok, where=F.where_po(po),
                      construct=norm_text(obj.tag("node"))[:80] if obj.tag("node") is not None else "P refit objective", entry=entry,
                      config=res.config,
                      msg="the full-size P problem is built from a loop Parameter (the last loop iterate) instead of the refitted, "
                          "returned X: the returned P is not optimal for the returned X" if not ok else "")


def weight_exponent(expr, depth=0):
    """(exponent of the weights, exponent of the residual) of a cvx objective expression, or None when not understood"""
    if expr is None or depth > 30:
        return None
    a = expr.tag("atom")
    if not expr.tag("cvx"):
        d_ = expr.flat().data
        # (a constant that depends on W only through an earlier SOLUTION — the other factor — is not the weight operand)
        return (1, 0) if ("W" in {o.split("|")[0] for o in d_} and not any(o.startswith("sol#") for o in d_)) else (0, 0)
    if a is None:
        return (0, 1)                       # a leaf (variable / parameter): the residual's own degree
    name, ops = a[0], a[1]
    if name in ("sum", "neg", "T", "reshape", "index", "vec", "hstack", "vstack", "diff", "abs") or name.startswith("norm"):
        return weight_exponent(ops[0], depth + 1)
    if name in ("sum_squares", "square", "quad_over_lin"):
        r = weight_exponent(ops[0], depth + 1)
        return None if r is None else (2 * r[0], 2 * r[1])
    if name in ("pow", "power"):
        r = weight_exponent(ops[0], depth + 1)
        p_ = ops[1] if len(ops) > 1 else None
        if r is None or p_ is None or not p_.known or not isinstance(p_.const, (int, float)):
            return None
        return (p_.const * r[0], p_.const * r[1])
    if name in ("multiply", "mul", "matmul", "div"):
        rs = [weight_exponent(o, depth + 1) for o in ops]
        if any(r is None for r in rs):
            return None
        return (sum(r[0] for r in rs), max(r[1] for r in rs))
    if name in ("add", "sub"):
        rs = [weight_exponent(o, depth + 1) for o in ops]
        rs = [r for r in rs if r is not None]
        if not rs:
            return None
        return (max(r[0] for r in rs), max(r[1] for r in rs))
    return None


def seeds(rep, res, entry, cfg):
    for ev in res.events("rng_create"):
        seed = ev.d.get("seed")
        ok = seed is not None and "seed" in seed.flat().data
        rep.check("R-SEED", "generator seeded from `seed`", ok, where=ev.loc, construct=ev.text(), entry=entry, config=res.config,
                  msg="a random generator on the decomposition path is not derived from the seed argument: same seed, different result")
    for ev in res.events("ext_call"):
        d = ev.d["dotted"]
        if d.startswith("numpy.random.") and d.split(".")[-1] in X.GLOBAL_RNG and d not in X.RNG_CTORS:
            rep.violated("R-SEED", "no global RNG", where=ev.loc, construct=ev.text(), entry=entry, config=res.config,
                         msg=f"`{d}` draws from NumPy's global generator, which the seed argument does not control")
