"""C10 — adaptive fit: common intensity and chroma scales (formulation).

Decided:
  R-API       the default solver of the adaptive fit is an installed cvxpy solver
  R-FLOW      bounds reach constraints (on every path when finite); delta_norm1 and delta_radius reach their
              constraints; scale_w reaches the objective; the neutral point reaches the radial constraint;
              A, B, K, baseline reach the constraints
  R-DISPATCH  'unity' | None → Minimize Σ(scale_w·(scales − 1))², 'max' → Maximize Σ scale_w·scales, anything else
              raises; the two scales are declared positive; the intensity constraint uses only the first scale, the
              radial constraint both
  R-QTY       frames: the prediction inside the constraints is the TOTAL capture (baseline included) and is compared
              with TOTAL targets; the neutral reference is homogeneous of degree 0 in the neutral point (a direction)
  R-FORWARD   ReceptorEstimator.fit_adaptive binds every option to the same-named parameter of the fitting layer
  R-TYPESTATE the returned prediction is computed from the returned intensities
Not decided: feasibility / optimality of the scale pair, tolerance attainment by the solver."""
from __future__ import annotations
from ..spec import (rel_axis, lsq_inputs, const, none, opaque, arr, num, strv, estimator_fields, S, U_REL, U_INT, U_CAPTURE)
from .. import rules as R
from ..model import norm_text
from .common import LSQ, opts, base_kws, cfgname, lsq_configs
from . import formulation as F

OPTS = opts()
EXPLANATION = __doc__
RULE_TEXT = "dependence into constraints/objective; dispatch; frame algebra; homogeneity degree of the neutral reference"
EST = "dreye.api.estimator:ReceptorEstimator"

AXES = {
    "objective": (["unity", None, "max"], ["unity", None, "max"]),
    "neutral": ([None, "given"], [None, "given"]),
    "K": (["vec", "mat", None, "scalar"], ["vec", "mat", None, "scalar"]),
    "baseline": (["vec", None], ["vec", None, "scalar"]),
    "lb": (["nonneg", "any"], ["nonneg", "any"]),
    "ub": (["finite", "inf"], ["finite", "inf"]),
    "dn": (["pos", "zero"], ["pos", "zero"]),
    "dr": (["pos", "zero"], ["pos", "zero"]),
}


def run(an, cfg):
    kw = lsq_inputs(K=cfg["K"], baseline=cfg["baseline"], W="mat", lb=cfg["lb"], ub=cfg["ub"], bs=1)
    kw.pop("batch_size")
    kw.update(verbose=const(0), return_pred=const(True))
    urel = U_REL if cfg["K"] else U_CAPTURE
    kw["adaptive_objective"] = none() if cfg["objective"] is None else strv("adaptive_objective", cfg["objective"])
    kw["neutral_point"] = none() if cfg["neutral"] is None else arr("neutral_point", S(rel_axis(cfg["K"])), urel, sign="POS")
    kw["scale_w"] = num("scale_w", None, sign="POS")
    for name, key in (("delta_norm1", "dn"), ("delta_radius", "dr")):
        if cfg[key] == "pos":
            v = num(name, urel, sign="POS")
            v.tags["truth"] = True
        else:
            v = const(0)
            v.data = frozenset({name})
        kw[name] = v
    return an.run(f"{LSQ}:lsq_linear_adaptive", kws=kw, config=cfgname(cfg))


def check(rep, an, tier):
    # the bounds every clause below speaks of are the REGISTERED ones: registration keeps / replaces exactly what it is given
    from .C14 import register_bounds_rule
    register_bounds_rule(rep, an)
    entry = "lsq_linear_adaptive"
    results = []
    for cfg in lsq_configs(tier, AXES):
        res = run(an, cfg)
        results.append(res)
        probs = F.final_problems(res)
        if not probs:
            rep.violated("R-DISPATCH", "objective option reaches a problem", where=res.fn.loc(),
                         construct=f"adaptive_objective={cfg['objective']}", entry=entry, config=res.config,
                         msg="no problem reaches the returned intensities")
            continue
        need = {"lb"} | ({"ub"} if cfg["ub"] == "finite" else set())
        F.flow_constraints(rep, res, entry, need | {"A", "B"} | ({"K"} if cfg["K"] else set())
                           | ({"baseline"} if cfg["baseline"] else set()) | ({"neutral_point"} if cfg["neutral"] else set())
                           | ({"delta_norm1"} if cfg["dn"] == "pos" else set()) | ({"delta_radius"} if cfg["dr"] == "pos" else set()), probs)
        for o in sorted(need):
            F.must_constraint(rep, res, entry, o, f"bound {o}", probs)
        F.flow_objective(rep, res, entry, {"scale_w"}, probs)
        for po, obj, cons in probs:
            sense, expr = R.objective_nf(obj)
            a = expr.tag("atom") if expr is not None else None
            node = obj.tag("node")
            text = norm_text(node)[:80] if node is not None else "objective"
            if cfg["objective"] in ("unity", None):
                ok = sense == "Minimize" and bool(a) and a[0] == "sum_squares"
                want = "Minimize Σ(scale_w(scales−1))²"
                # (scales − 1): the distance is to one, not to zero
                subs = [(v, ops) for at, v, ops in R.walk_atoms(expr) if at == "sub" and ops[1].known and ops[1].const == 1]
                minus1 = bool(subs)
                rep.check("R-DISPATCH", "unity: distance of the scales to 1", minus1, where=F.where_po(po), construct=text,
                          entry=entry, config=res.config)
                # … of the SCALES themselves: the weights multiply the difference (scale_w·(s − 1)), they are not applied before 1 is taken off
                for v_, ops in subs:
                    wd = "scale_w" in {o.split("|")[0] for o in ops[0].flat().data}
                    rep.check("R-DISPATCH", "unity: 1 is subtracted from the bare scales", not wd, where=F.where_po(po), construct=text,
                              entry=entry, config=res.config,
                              msg="the objective is Σ(scale_w·s − 1)²: its minimiser is s = 1/scale_w, not s = 1 — in-gamut targets are no longer "
                                  "returned with scales (1, 1) whenever scale_w ≠ 1")
            else:
                ok = sense == "Maximize" and bool(a) and a[0] == "sum"
                want = "Maximize Σ scale_w·scales"
            rep.check("R-DISPATCH", f"objective '{cfg['objective']}': {want}", ok, where=F.where_po(po), construct=text,
                      entry=entry, config=res.config, msg=f"normal form {sense}({a[0] if a else '?'}(…))")
            # scales: the 2-vector variable in the objective must be declared positive
            pv, vv = R.leaf_kinds(res, obj)
            for vid in vv:
                o = res.heap[vid]
                rep.check("R-SIGN", "scales declared positive", bool(o.attrs.get("pos")), where=f"{o.fn.module.relpath}:{o.node.lineno}",
                          construct=norm_text(o.node), entry=entry, config=res.config)
            scale_ids = vv
            # the totals and offsets that get scaled are those of the TARGET (total capture, baseline included)
            if cfg["baseline"]:
                seen_fr = set()
                for c in cons:
                    for at, v, ops in R.walk_atoms(c):
                        for o_ in ops:
                            if o_.tag("cvx") or "B" not in o_.flat().data or isinstance(o_.frame, tuple):
                                continue
                            k_ = (o_.frame, tuple(sorted(o_.flat().data)))
                            if k_ in seen_fr:
                                continue
                            seen_fr.add(k_)
                            cn = c.tag("node")
                            rep.check("R-QTY", "the scaled totals are those of the total target capture", None if o_.frame is None else o_.frame == "TOTAL",
                                      where=F.where_po(po), construct=f"target-derived operand of {norm_text(cn)[:60] if cn is not None else 'constraint'}",
                                      entry=entry, config=res.config,
                                      msg=f"the target-derived quantity that is multiplied by a scale is a {o_.frame} capture (computed from "
                                          f"{sorted(o_.flat().data)}): the fitted total equals scale × (target − baseline) total, not scale × target total")
            # which scale enters which constraint
            for c in cons:
                deps = R.closure_deps(res, c)
                idx = set()
                for at, v, ops in R.walk_atoms(c):
                    if at == "index" and (set(ops[0].flat().refs) & scale_ids) and v.tag("index_const") is not None:
                        idx.add(v.tag("index_const"))
                if not idx:
                    continue
                cn = c.tag("node")
                ctext = norm_text(cn)[:70] if cn is not None else "constraint"
                sums = "sum" in R.atoms_in(c)
                if sums:
                    rep.check("R-DISPATCH", "intensity constraint scales the total by the first scale only", idx == {0},
                              where=F.where_po(po), construct=ctext, entry=entry, config=res.config, msg=f"uses scales{sorted(idx)}")
                else:
                    rep.check("R-DISPATCH", "radial constraint uses the intensity scale for the neutral point and the chroma scale for the offset",
                              idx == {0, 1}, where=F.where_po(po), construct=ctext, entry=entry, config=res.config, msg=f"uses scales{sorted(idx)}")
                # the neutral reference must be a direction: degree 0 in the neutral point
                if cfg["neutral"]:
                    for at, v, ops in R.walk_atoms(c):
                        for o_ in ops:
                            if not o_.tag("cvx") and "neutral_point" in o_.flat().data:
                                d = o_.tag("deg")
                                st = None if d is None else (d.get("neutral_point", 0) == 0)
                                rep.check("R-QTY", "neutral reference is scale-free in the neutral point", st, where=F.where_po(po),
                                          construct=f"neutral reference in {ctext}", entry=entry, config=res.config,
                                          msg=(f"the neutral reference is homogeneous of degree {d.get('neutral_point')} in the supplied "
                                               f"neutral point: a neutral point that does not sum to 1 changes the decomposition "
                                               f"into total and offset") if st is False else "")
        # the "intensity" of a target is its SIGNED total capture (the same linear functional as Σ of the prediction): not a norm of it
        norms = [ev for ev in res.events("ext_call") if ev.d["dotted"].endswith("linalg.norm") and ev.d["args"]
                 and "B" in {o.split("|")[0] for o in ev.d["args"][0].flat().data}]
        norms = [ev for ev in norms if any(q.endswith(":lsq_linear_adaptive") for q in ev.path[:1]) and len(ev.path) <= 2]
        for ev in norms:
            o_ = ev.d["kws"].get("ord") or (ev.d["args"][1] if len(ev.d["args"]) > 1 else None)
            if o_ is not None and o_.known and o_.const == 1:
                rep.violated("R-QTY", "the scaled total is the signed total capture of the target", where=ev.loc, construct=ev.text()[:80],
                             entry=entry, config=res.config,
                             msg="the target's 'intensity' is taken as an L1 norm (Σ|b|) while the constrained total of the prediction is the signed "
                                 "sum: for targets with a negative component the total constraint aims at the wrong value")
        F.qty(rep, res, entry)
        urel = U_REL if cfg["K"] else U_CAPTURE
        F.return_types(rep, res, entry, [("X", S("N", "SRC"), U_INT, None), ("scales", None, None, None),
                                         ("prediction", S("N", rel_axis(cfg["K"])), urel, "TOTAL" if cfg["baseline"] else None)])
        F.pred_from_X(rep, res, entry, 0, 2)
        F.hygiene(rep, res, entry, refresh=False)
        R.rule_rowsep(rep, res, entry)
    R.rule_api(rep, results, entry)
    # unknown objective raises
    d = {n: AXES[n][0][0] for n in AXES}
    res = run(an, dict(d, objective="bogus"))
    rep.check("R-DISPATCH", "unknown adaptive_objective raises", F.raises(res),
              where=res.fn.loc(), construct="adaptive_objective='bogus'", entry=entry, config="objective=bogus")
    # estimator wrapper: same-named options
    fields = estimator_fields(K="vec", baseline="vec")
    kw = dict(B=arr("B", S("N", "F"), U_REL, "TOTAL"), neutral_point=arr("neutral_point", S("F"), U_REL),
              delta_norm1=num("delta_norm1", U_REL, sign="POS"), delta_radius=num("delta_radius", U_REL, sign="POS"),
              adaptive_objective=strv("adaptive_objective", "unity"), verbose=const(0), scale_w=num("scale_w", None, sign="POS"),
              solver_opt=opaque("solver_opt"))
    res = an.run(f"{EST}.fit_adaptive", kws=kw, self_fields=fields, config="estimator")
    F.forwards(rep, res, "ReceptorEstimator.fit_adaptive", {"lsq_linear_adaptive"},
               {"A": "self.A", "lb": "self.lb", "ub": "self.ub", "K": "self.K", "baseline": "self.baseline", "B": "B",
                "neutral_point": "neutral_point", "delta_norm1": "delta_norm1", "delta_radius": "delta_radius",
                "adaptive_objective": "adaptive_objective", "scale_w": "scale_w"})
    F.solve_kwargs(rep, res, "ReceptorEstimator.fit_adaptive")
    F.wrapper_returns_solution(rep, res, "ReceptorEstimator.fit_adaptive", {"lsq_linear_adaptive"}, ("X", "scales", "B"))
    rep.require("R-FLOW", 40)
    rep.require("R-DISPATCH", 20)
    rep.require("R-API", 5)
    rep.require("R-FORWARD", 10)
