"""C19 — domain equalisation (second sentence: capture from a signal on its own domain).

Decided:
  R-TYPESTATE  in capture / uncertainty_capture / register_system / register_background_adaptation the three arguments of
               the integration are the three results of ONE equalisation of [filter domain, given domain] with
               [filters, signals] in corresponding positions; re-sampled arrays are never paired with the caller's
               original domain; the equalisation is skipped only when no domain is given or the filter domain is a
               scalar step
  R-FLOW       _interpolate_domains pairs domains[i] with arrs[i] and axes[i], evaluates every interpolator on the same
               new domain, and a scalar `axes` argument (including 0) reaches every interpolator; the common domain is a
               function of the SET of sample points of each input domain (min / max / sort), never of the k-th stored
               sample (descending and unsorted domains are inputs of the property)
  R-VALUE      structural parts of the first sentence: the number of grid intervals is overlap / coarsest step rounded to
               NEAREST (np.around / rint / int(x + 0.5); int() of a raw quotient, floor, ceil are violations); the grid
               handed to the interpolators is a closed np.linspace(start, stop, num) — pinned to both ends of the
               overlap by construction — not an accumulated start + k·step
  R-DTYPE      the computed grid is not produced in a dtype taken from the input arrays; no input is cast to another
               input's dtype; "same domain" is not decided with an absolute tolerance on domain coordinates
Not decided (numerical): linear-interpolation values, exact end points for arbitrary float inputs, rejection of
non-overlapping domains."""
from __future__ import annotations
from ..spec import arr, num, const, none, flag, estimator_fields, S, U_FILTER, U_SIGNAL, U_LAMBDA
from .. import rules as R
from ..values import Val
from ..model import norm_text
from .common import opts, cfgname
from . import domains as D

OPTS = opts()
EXPLANATION = __doc__
RULE_TEXT = "domain-identity typestate: arrays carry the identity of the domain they are sampled on; equalisation mints a new identity"
EST = "dreye.api.estimator:ReceptorEstimator"


def est_fields(filter_domain="array", uncertainty=None):
    f = estimator_fields(domain=filter_domain, uncertainty=uncertainty)
    f["domain"] = D.domain_val("self.domain", filter_domain)
    f["filters"] = D.on(arr("self.filters", S("F", "D@self.domain"), U_FILTER), "self.domain")
    if uncertainty:
        f["filters_uncertainty"] = D.on(arr("self.filters_uncertainty", S("F", "D@self.domain"), U_FILTER), "self.domain")
    for k in ("A", "Epsilon", "sources", "sources_domain", "lb", "ub", "sources_labels"):
        f.pop(k, None)
    return f


def check(rep, an, tier):
    spec = D.hooks()
    n = 0
    for meth, argname in (("capture", "signals"), ("uncertainty_capture", "signals"), ("register_system", "sources"),
                          ("register_background_adaptation", "background")):
        for given in ("array", None):
            for unc in ((None, "given") if meth in ("uncertainty_capture", "register_system") else (None,)):
                if meth == "uncertainty_capture" and unc is None:
                    continue
                fields = est_fields("array", unc)
                sig_dom = "domain" if given else "self.domain"
                sig = D.on(arr(argname, S("S", "D@" + sig_dom) if meth != "register_background_adaptation" else S("D@" + sig_dom), U_SIGNAL), sig_dom)
                kw = {argname: sig, "domain": D.domain_val("domain") if given else none()}
                if meth == "register_system":
                    kw.update(lb=none(), ub=none(), labels=none(), Epsilon=none())
                res = an.run(f"{EST}.{meth}", kws=kw, self_fields=fields, spec=spec, config=f"given={given},uncertainty={unc}")
                entry = f"ReceptorEstimator.{meth}"
                n += D.consistency(rep, res, entry)
                eqs = res.events("eq_call")
                if given:
                    rep.check("R-TYPESTATE", "a foreign domain triggers an equalisation", bool(eqs), where=res.fn.loc(),
                              construct=f"equalize_domains in {meth}", entry=entry, config=res.config,
                              msg="a signal supplied on its own domain is integrated without equalising it with the filters")
                for tv in res.events("abs_tolerance"):
                    if tv.d.get("dimensioned") and tv.fn.cls:
                        rep.violated("R-TYPESTATE", "a foreign domain triggers an equalisation", where=tv.loc, construct=tv.text(), entry=entry,
                                     config=res.config,
                                     msg="whether the supplied domain is 'the same' as the filter domain is decided with an absolute tolerance on "
                                         "domain coordinates: for domains in small units (metres) different grids are treated as identical and the "
                                         "signal is integrated on the wrong grid")
                R.rule_dtype_casts(rep, res, entry)
                caps = res.events("cap_call")
                rep.check("R-TYPESTATE", "the integration is reached", bool(caps), where=res.fn.loc(), construct=f"calculate_capture in {meth}",
                          entry=entry, config=res.config)
    interpolation(rep, an)
    stacking(rep, an)
    rep.require("R-TYPESTATE", 30)
    rep.require("R-FLOW", 8)


def interpolation(rep, an):
    entry = "equalize_domains"
    for axes_cfg in (None, 0, -1, "list"):
        d1, d2 = D.domain_val("dom1"), D.domain_val("dom2")
        if axes_cfg in (0,):
            a1 = D.on(arr("arr1", S("D@dom1", "M"), U_SIGNAL), "dom1")
            a2 = D.on(arr("arr2", S("D@dom2", "M"), U_SIGNAL), "dom2")
        else:
            a1 = D.on(arr("arr1", S("M", "D@dom1"), U_SIGNAL), "dom1")
            a2 = D.on(arr("arr2", S("M", "D@dom2"), U_SIGNAL), "dom2")
        doms = Val(items=[d1, d2], tags={"kind": "list"})
        arrs = Val(items=[a1, a2], tags={"kind": "list"})
        if axes_cfg is None:
            axes = none()
        elif axes_cfg == "list":
            axes = Val(items=[const(-1), const(-1)], tags={"kind": "list"})
        else:
            axes = const(axes_cfg)
            axes.tags["isnum"] = True
        res = an.run("dreye.api.domain:equalize_domains", kws=dict(domains=doms, arrs=arrs, axes=axes), spec=D.hooks(),
                     config=f"axes={axes_cfg}")
        want_axis = {None: -1, 0: 0, -1: -1, "list": -1}[axes_cfg]
        ievs = res.events("interp1d")
        rep.check("R-FLOW", "one interpolator per (domain, array) pair", True if len({(ev.loc, id(ev.d['y'])) for ev in ievs}) >= 2 else None, where=res.fn.loc(),
                  construct="interp1d(domain, arr, axis=axis, …)", entry=entry, config=res.config, msg=f"{len(ievs)} interpolators built")
        for ev in ievs:
            x, y, ax = ev.d["x"], ev.d["y"], ev.d["axis"]
            did, lon = x.tag("domain_id"), y.tag("lives_on")
            rep.check("R-FLOW", "interpolator pairs domains[i] with arrs[i]", None if None in (did, lon) else did == lon, where=ev.loc,
                      construct=ev.text(), entry=entry, config=res.config,
                      msg=f"array living on {lon} is interpolated from sample points {did}")
            axc = ax.const if (ax is not None and ax.known) else None
            rep.check("R-FLOW", "requested axis reaches the interpolator", None if axc is None else axc == want_axis, where=ev.loc,
                      construct=ev.text(), entry=entry, config=res.config,
                      msg=f"axes={axes_cfg!r} was requested but the interpolation runs along axis {axc}")
        # every interpolator is evaluated on the same new domain
        calls = [ev for ev in res.events("opaque_callee") if ev.d["callee"].tag("kind") == "interp"]
        terms = {repr(ev.d["args"][0].term) for ev in calls if ev.d["args"]}
        rep.check("R-FLOW", "all interpolators evaluated on the same new domain", None if not calls else len(terms) == 1, where=res.fn.loc(),
                  construct="interpolator(new_domain)", entry=entry, config=res.config)
        R.rule_dtype_casts(rep, res, entry)
        R.rule_iterator_reuse(rep, res, entry)
        R.rule_last_iteration_wins(rep, res, entry)
        # the step of a domain is the MEAN of its sample spacings (the statement's "coarsest mean input step"): no other statistic of them
        for sv in res.events("ext_call"):
            if sv.d["args"] and sv.d["args"][0].tag("spacings_of") is not None and sv.d["dotted"].split(".")[-1] in (
                    "median", "min", "max", "amin", "amax", "percentile", "quantile", "nanmedian", "nanmin", "nanmax", "std", "ptp"):
                rep.violated("R-VALUE", "the step of a domain is the mean of its spacings", where=sv.loc, construct=sv.text()[:80], entry=entry,
                             config=res.config,
                             msg=f"the spacings of an input domain are summarised with `{sv.d['dotted'].split('.')[-1]}`: for a non-uniform domain that "
                                 f"is not its mean step, so the common grid is not built with the coarsest MEAN input step")
        R.rule_every_iteration_reaches(rep, res, "interp1d", "the interpolation onto the common domain", entry, fn_name="_interpolate_domains")
        for tv in res.events("abs_tolerance"):
            at = tv.d.get("atol")
            if tv.d.get("dimensioned") and not (at is not None and at.known and at.const == 0):
                rep.violated("R-TYPESTATE", "different domains are never declared equal", where=tv.loc, construct=tv.text(), entry=entry,
                             config=res.config,
                             msg="whether the input domains are 'the same' is decided with an absolute tolerance on domain coordinates: grids in "
                                 "small units (metres) or with sub-tolerance offsets are declared identical and the arrays are returned "
                                 "un-interpolated on the first domain")
        equality_decision(rep, res, entry)
        order_invariance(rep, res, entry)
        grid_construction(rep, res, entry)


WHOLE_ARRAY = {"array_equal", "array_equiv", "allclose", "isclose", "all", "any", "max", "amax", "min", "amin", "sum", "count_nonzero",
               "nonzero", "norm", "equal", "not_equal", "setdiff1d", "setxor1d", "tobytes", "tolist", "ptp", "alltrue"}


def equality_decision(rep, res, entry):
    """the decision that skips the interpolation ("the domains are the same") compares the domains ENTRY BY ENTRY: a decision taken on
    extents / sizes and individually indexed entries (first and last value) declares grids with equal end points and different spacing
    identical, and their arrays are returned un-interpolated.  Decided on the syntax of the function(s) called in the test that guards
    `_interpolate_domains` (resolved callees), or on the test itself when it is written inline."""
    import ast
    fn = res.fn
    guards = [n for n in ast.walk(fn.node) if isinstance(n, ast.If) and any(
        isinstance(c, ast.Call) and "interpolate" in norm_text(c.func) for b in n.body + n.orelse for c in ast.walk(b))]
    callees = {ev.d["callee"].name: ev.d["callee"] for ev in res.events("call")}
    for g in guards[:1]:
        bodies = []
        for c in ast.walk(g.test):
            if isinstance(c, ast.Call):
                nm = c.func.attr if isinstance(c.func, ast.Attribute) else getattr(c.func, "id", None)
                if nm in callees and callees[nm].module.name == fn.module.name:
                    bodies.append((callees[nm], callees[nm].node))
        if not bodies:
            bodies = [(fn, g.test)]
        for f, node in bodies:
            names = set()
            for c in ast.walk(node):
                if isinstance(c, ast.Call):
                    names.add(c.func.attr if isinstance(c.func, ast.Attribute) else getattr(c.func, "id", ""))
            ok = bool(names & WHOLE_ARRAY)
            rep.check("R-TYPESTATE", "different domains are never declared equal", ok, where=f.loc(node if hasattr(node, "lineno") else None),
                      construct=f"equality decision in {f.name}", entry=entry, config=res.config,
                      msg="the test that lets equalize_domains skip the interpolation contains no comparison over all entries of the domains "
                          "(array_equal / all(a == b) / allclose …): sizes, shapes and individually indexed end points agree for grids of "
                          "different spacing, whose arrays are then returned un-interpolated on the first domain")


def stacking(rep, an):
    """stack / concatenate options: the arrays are handed to np.stack / np.concatenate as they are (no buffer with the first array's dtype)"""
    entry = "equalize_domains"
    for conc in (False, True):
        d1, d2 = D.domain_val("dom1"), D.domain_val("dom2")
        a1 = D.on(arr("arr1", S("M", "D@dom1"), U_SIGNAL), "dom1")
        a2 = D.on(arr("arr2", S("M", "D@dom2"), U_SIGNAL), "dom2")
        res = an.run("dreye.api.domain:equalize_domains",
                     kws=dict(domains=Val(items=[d1, d2], tags={"kind": "list"}), arrs=Val(items=[a1, a2], tags={"kind": "list"}), axes=none(),
                              stack_axis=const(0), concatenate=flag("concatenate", conc)), spec=D.hooks(), config=f"stack_axis=0,concatenate={conc}")
        R.rule_dtype(rep, res, entry)
        R.rule_dtype_casts(rep, res, entry)
        calls = [ev for ev in res.events("ext_call") if ev.d["dotted"] in ("numpy.stack", "numpy.concatenate", "numpy.vstack", "numpy.hstack")]
        rep.check("R-FLOW", "stacking is delegated to numpy (common result dtype)", True if calls else None, where=res.fn.loc(),
                  construct=f"np.{'concatenate' if conc else 'stack'}(arrs, axis=stack_axis)", entry=entry, config=res.config)


def order_invariance(rep, res, entry):
    """unsorted / descending domains are inputs of the property: the common domain (bounds, step, number of samples) must be a
    function of the SET of sample points of every domain — min, max, sort, diff-of-sort — never of which sample is stored first or last"""
    items = res.value.items
    newdom = items[0] if items else res.value
    nf = newdom.flat()
    picks = sorted(o for o in (nf.data | nf.shp) if o.startswith("pick@"))       # values and number of grid points (not mere branching)
    evs = {f"pick@{ev.fn.module.relpath}:{ev.node.lineno}": ev for ev in res.events("positional_pick")}
    if picks:
        for o in picks:
            ev = evs.get(o)
            rep.violated("R-FLOW", "the common domain does not depend on the storage order of the input domains", where=ev.loc if ev else res.fn.loc(),
                         construct=ev.text() if ev else o, entry=entry, config=res.config,
                         msg="the k-th stored sample of an input domain (first / last element, no sort) flows into the returned common domain: "
                             "for a descending or unsorted domain the step / bounds are wrong (negative or arbitrary step)")
    else:
        rep.holds("R-FLOW", "the common domain does not depend on the storage order of the input domains", where=res.fn.loc(),
                  construct="new domain returned by equalize_domains", entry=entry, config=res.config,
                  msg="only order-invariant reductions (min, max, sort) of the input domains reach the common domain")


def grid_construction(rep, res, entry):
    """the common grid (i) has the number of intervals NEAREST to overlap / coarsest step — 'the step closest to the coarsest mean
    input step that fits' — and (ii) is pinned to both ends of the overlap by construction (np.linspace with its end point), not
    accumulated as start + k·step whose last sample is a rounded product"""
    items = res.value.items
    newdom = items[0] if items else res.value
    grid_fns = {ev.fn.qual for ev in res.events("linspace")} | {ev.fn.qual for ev in res.events("int_cast")}
    for ev in res.events("linspace"):
        n_ = ev.d.get("num")
        if n_ is None or not ({"dom1", "dom2"} & (n_.flat().data | n_.flat().shp)):
            continue
        how = n_.tag("count_how")          # set by int(<rounding>(quotient)) ± constant; lost through any selection between candidates
        st = None if how is None else (how == "nearest")
        rep.check("R-VALUE", "number of grid intervals = overlap / coarsest step rounded to NEAREST", st, where=ev.loc, construct=ev.text(),
                  entry=entry, config=res.config,
                  msg=f"the number of samples is the quotient overlap / step converted with `{how}` (towards zero / one-sided) plus a constant: "
                      f"whenever the overlap is not a near-integer multiple of the coarsest step the grid has one interval too few or too many "
                      f"and its step is not the one closest to the coarsest mean input step")
    # the coarsest step is the coarsest over ALL listed domains (the first one included): the step handed to the grid builder depends on
    # every domain
    for ev in res.events("call"):
        fn = ev.d["callee"]
        if fn.name != "arange_with_interval":
            continue
        bound = dict(ev.d["kws"])
        for i, a in enumerate(ev.d["args"]):
            if i < len(fn.params):
                bound.setdefault(fn.params[i], a)
        stepv = bound.get(fn.params[2]) if len(fn.params) > 2 else None
        if stepv is None:
            continue
        have = {o.split("|")[0] for o in (stepv.flat().data | stepv.flat().shp)}
        miss = sorted({"dom1", "dom2"} - have)
        rep.check("R-FLOW", "the coarsest step is taken over every listed domain", not miss, where=ev.loc, construct=ev.text()[:80], entry=entry,
                  config=res.config,
                  msg=f"the step of the common grid does not depend on {miss}: when that domain is the coarsest one (e.g. it is listed first) the "
                      f"grid is finer than the coarsest input and the result depends on the order of the arguments")
    # judged where the grid is built: every array handed on as `new_domain` to the interpolators
    grids = {}
    for ev in res.events("opaque_callee"):
        if ev.d["callee"].tag("kind") == "interp" and ev.d["args"]:
            g = ev.d["args"][0]
            grids[repr(g.term)] = (ev, g)
    if not grids:
        rep.undecided("R-VALUE", "the common grid is pinned to both ends of the overlap", where=res.fn.loc(), construct="new domain", entry=entry,
                      config=res.config)
    for ev, g in grids.values():
        nf = g.flat()
        lin = nf.tag("linspace")
        if lin is not None:
            rep.check("R-VALUE", "the common grid is pinned to both ends of the overlap", lin == "closed", where=ev.loc,
                      construct=f"new domain evaluated by {ev.text()[:40]}", entry=entry, config=res.config,
                      msg="linspace is called with endpoint=False: the common domain stops one step before the end of the overlap")
        elif nf.tag("affine_grid"):
            rep.violated("R-VALUE", "the common grid is pinned to both ends of the overlap", where=ev.loc,
                         construct=f"new domain evaluated by {ev.text()[:40]}", entry=entry, config=res.config,
                         msg="the grid is accumulated as start + k·step: its last sample is a rounded product that can exceed the overlap's end by "
                             "one ulp — the interpolators (fill_value outside their range) then zero-fill the end sample of the limiting array, "
                             "and the domain does not end exactly at the overlap")
        else:
            rep.undecided("R-VALUE", "the common grid is pinned to both ends of the overlap", where=ev.loc, construct="new domain", entry=entry,
                          config=res.config)
