"""C04 — the default fit is the bounded weighted least-squares problem (formulation, not optimality).

Decided for every abstract configuration (K ∈ {None, vector, matrix} × baseline × weights × bounds × batch):
  R-FLOW       A, B, W, K, baseline DATA-reach the objective; lb/ub reach a constraint whenever finite
  R-FORWARD    extra solver keywords reach problem.solve(); ReceptorEstimator.fit passes its live
               A, lb, ub, W, K, baseline, batch_size into the fitting layer
  R-QTY        units/frames: weights on both sides of the residual, K applied to A and baseline exactly
               once, baseline removed from the target exactly once; declared return types
               X:(N,SRC)[s], prediction:(N,F)[ρ] TOTAL
  R-TYPESTATE  the returned prediction is computed from the returned intensities
  R-SIGN       a Parameter declared positive never receives target − baseline
Not decided: global optimality, bounds respected to tolerance, solver accuracy."""
from __future__ import annotations
from ..spec import rel_axis, lsq_inputs, const, none, opaque, arr, estimator_fields, S, U_REL, U_INT, U_CAPTURE
from .. import rules as R
from ..model import norm_text
from ..values import Shape
from .common import LSQ, opts, base_kws, cfgname, lsq_configs
from . import formulation as F

OPTS = opts()
EXPLANATION = __doc__
RULE_TEXT = ("must-influence by over-approximated dependence (p ∉ closure ⇒ definite non-influence); units-of-measure "
             "and frame typing of the cvxpy expression tree against the declared signature of lsq_linear")
EST = "dreye.api.estimator:ReceptorEstimator"

AXES = {
    "K": (["vec", "mat", None, "scalar"], ["vec", "mat", None, "scalar"]),
    "baseline": (["vec", None, "scalar"], ["vec", None, "scalar"]),
    "W": (["mat", "vec", None], ["mat", "vec", None]),
    "lb": (["nonneg", "any"], ["nonneg", "any"]),
    "ub": (["finite", "inf"], ["finite", "inf"]),
    "bs": ([1, "sym"], [1, "sym"]),
}


def check(rep, an, tier):
    # the bounds every clause below speaks of are the REGISTERED ones: registration keeps / replaces exactly what it is given
    from .C14 import register_bounds_rule
    register_bounds_rule(rep, an)
    cfgs = list(lsq_configs(tier, AXES))
    if tier == "quick":
        d0 = {n: AXES[n][0][0] for n in AXES}
        cfgs.append(dict(d0, K="mat", baseline="scalar"))       # matrix adaptation × scalar baseline
    for cfg in cfgs:
        kw = lsq_inputs(K=cfg["K"], baseline=cfg["baseline"], W=cfg["W"], lb=cfg["lb"], ub=cfg["ub"], bs=cfg["bs"])
        kw.update(base_kws(model=const("gaussian")))
        kw["solver_opt"] = opaque("solver_opt")
        res = an.run(f"{LSQ}:lsq_linear", kws=kw, config=cfgname(cfg))
        entry = "lsq_linear[gaussian]"
        need = {"A", "B"} | ({"W"} if cfg["W"] else set()) | ({"K"} if cfg["K"] else set()) \
            | ({"baseline"} if cfg["baseline"] else set())
        F.flow_objective(rep, res, entry, need)
        # the default fit is LEAST SQUARES: Minimize Σ (residual)² in normal form (positive scalings / −Maximize folded)
        for po, obj, cons in F.final_problems(res):
            sense, expr = R.objective_nf(obj)
            a_ = expr.tag("atom") if expr is not None else None
            top = a_[0] if a_ else None
            sq_of_sum = top == "sum" and a_[1] and (a_[1][0].tag("atom") or (None,))[0] in ("square",)
            pw = top == "power" or top == "quad_over_lin"
            st = None if (top is None or pw) else (sense == "Minimize" and (top in ("sum_squares", "norm2", "norm_fro") or sq_of_sum))
            node = obj.tag("node")
            rep.check("R-DISPATCH", "gaussian model: Minimize the sum of squared weighted residuals", st, where=F.where_po(po),
                      construct=norm_text(node)[:90] if node is not None else "objective", entry=entry, config=res.config,
                      msg=f"normal form {sense}({top}(…)): not a least-squares objective — the returned intensities do not minimise "
                          f"Σ w²(K(Ax + baseline) − b)²")
        F.flow_constraints(rep, res, entry, {"lb"} | ({"ub"} if cfg["ub"] == "finite" else set()))
        F.must_constraint(rep, res, entry, "lb", "lower bound")
        if cfg["ub"] == "finite":
            F.must_constraint(rep, res, entry, "ub", "upper bound")
        F.solve_kwargs(rep, res, entry)
        F.qty(rep, res, entry)
        F.count_typed(rep, res, entry)
        urel = U_REL if cfg["K"] else U_CAPTURE
        F.return_types(rep, res, entry, [("X", S("N", "SRC"), U_INT, None),
                                         ("prediction", S("N", rel_axis(cfg["K"])), urel, "TOTAL" if cfg["baseline"] else None)])
        F.pred_from_X(rep, res, entry)
        F.sign_attrs(rep, res, entry)
        F.hygiene(rep, res, entry)
        R.rule_rowsep(rep, res, entry)
        if cfg["bs"] == "sym":
            R.rule_stack(rep, res, entry)
    # an upper bound that is finite for some sources only
    d0 = {n: AXES[n][0][0] for n in AXES}
    kw = lsq_inputs(K=d0["K"], baseline=d0["baseline"], W=d0["W"], lb=d0["lb"], ub="mixed", bs=d0["bs"])
    kw.update(base_kws(model=const("gaussian")))
    kw["solver_opt"] = opaque("solver_opt")
    F.mixed_upper_bounds(rep, an.run(f"{LSQ}:lsq_linear", kws=kw, config=cfgname(dict(d0, ub="mixed"))), "lsq_linear[gaussian]")
    # estimator wrapper
    for Kk in (["vec", "mat"] if tier == "quick" else ["vec", "mat", "scalar"]):
        for internal in (False, True):
            fields = estimator_fields(K=Kk if Kk != "scalar" else None, baseline="vec")
            kw = dict(model=const("gaussian"), batch_size=lsq_inputs()["batch_size"], verbose=const(0))
            kw["B"] = none() if internal else arr("B", S("N", rel_axis(Kk)), U_REL, "TOTAL")
            kw["solver_opt"] = opaque("solver_opt")
            res = an.run(f"{EST}.fit", kws=kw, self_fields=fields, config=f"K={Kk},internal={internal}")
            entry = "ReceptorEstimator.fit[gaussian]"
            F.forwards(rep, res, entry, {"lsq_linear"},
                       {"A": "self.A", "lb": "self.lb", "ub": "self.ub", "W": "self.W", "K": "self.K",
                        "baseline": "self.baseline", "batch_size": "batch_size", "B": "self.B" if internal else "B"})
            F.wrapper_returns_solution(rep, res, entry, {"lsq_linear"}, ("X", "B")) if not internal else None
            F.solve_kwargs(rep, res, entry)
            F.flow_objective(rep, res, entry, {"self.A", "self.W", "self.K", "self.baseline", "self.B" if internal else "B"})
            F.flow_constraints(rep, res, entry, {"self.lb", "self.ub"})
            F.qty(rep, res, entry)
            F.sign_attrs(rep, res, entry)
            R.rule_purity(rep, res, entry)
    rep.require("R-FLOW", 40)
    rep.require("R-FORWARD", 20)
    rep.require("R-QTY", 20)
    rep.require("R-PURITY", 8)
    rep.require("R-TYPESTATE", 8)
    rep.require("R-SIGN", 8)
