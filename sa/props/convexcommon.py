"""Shared obligations for the gamut geometry properties (C03, C06, C12, C13, C15)."""
from __future__ import annotations
from ..spec import rel_axis, lsq_inputs, arr, num, intv, strv, const, none, flag, estimator_fields, S, U_REL, U_INT, U_CAPTURE, ONE
from .. import rules as R
from ..values import Val, ustr
from ..model import norm_text

CONVEX = "dreye.api.convex"
EST = "dreye.api.estimator:ReceptorEstimator"


def hooks():
    def pre_in_hull(I, e, fn, args, kws):
        bound = dict(kws)
        for i, a in enumerate(args):
            if i < len(fn.params):
                bound.setdefault(fn.params[i], a)
        I.emit("membership_call", e, P=bound.get("P"), B=bound.get("B"), bounded=bound.get("bounded"))
    def post_P(I, e, fn, args, kws, r):
        r = r.copy()
        r.tags["corner_cloud"] = True        # one row per corner of the intensity box, in the order of itertools.product
        r.tags["maybe_zero_rows"] = True     # the dark corner (all sources at lb = 0, no baseline) is an all-zero capture
        return r
    return {"pre": {f"{CONVEX}:in_hull": pre_in_hull}, "post": {f"{CONVEX}:get_P_from_A": post_P}}


def corner_subset(rep, res, entry):
    """rows of the corner cloud may be dropped by VALUE (exactly-zero rows carry no chromaticity) but never by POSITION:
    which corner sits in which row is an accident of the enumeration order, and the first row (all sources at lb) is the zero
    capture only when lb = 0 and baseline = 0"""
    n = 0
    for ev in res.events("membership_call") + [x for x in res.events("return") if x.fn.name in ("_get_P_from_A",)]:
        P = ev.d.get("P") if ev.kind == "membership_call" else ev.d.get("val")
        if P is None:
            continue
        pf = P.flat()
        if not pf.tag("corner_cloud"):
            continue
        n += 1
        cz = pf.tag("coordinate_zero_subset")
        if cz is not None:
            rep.violated("R-FLOW", "only all-zero rows are removed from the corner cloud", where=ev.loc, construct=ev.text(), entry=entry,
                         config=res.config,
                         msg=f"`{cz}` selects rows by whether ANY coordinate is zero: every corner whose capture has a zero in some channel (a "
                             f"source that does not excite one receptor) is dropped, not only the all-zero (dark) corner — the chromatic hull "
                             f"loses genuine vertices")
        ps = pf.tag("positional_subset")
        rep.check("R-FLOW", "no corner of the box is dropped by position", ps is None, where=ev.loc, construct=ev.text(), entry=entry,
                  config=res.config,
                  msg=f"the vertex cloud passed on is the positional slice `{ps}` of the corner set: a genuine vertex of the gamut is "
                      f"dropped whenever the dropped row is not redundant (non-zero lb or baseline)")
    return n


def geometry_inputs(K="vec", baseline="vec", ub="finite", lb="nonneg", Brank=2, F="F"):
    kw = lsq_inputs(K=K, baseline=baseline, W=None, lb=lb, ub=ub, bs=1)
    kw = {k: kw[k] for k in ("B", "A", "lb", "ub", "K", "baseline")}
    if Brank == 1:
        b = kw["B"]
        kw["B"] = arr("B", S(rel_axis(K)), b.unit, b.frame)
    return kw


def membership_frames(rep, res, entry, rule="R-QTY"):
    """both operands of every membership test are in the same frame and unit (same offset removed from both)"""
    n = 0
    # membership is decided in ALL capture coordinates: no selection along the receptor axis of vertices / targets
    seen = set()
    for ev in res.events("axis_subset"):
        if ev.d["axis"] not in (("F",), ("Fr",)) or ev.fn.module.name not in (CONVEX, EST.split(":")[0]):
            continue
        bd = ev.d["base"].flat().data
        if not ({"A", "B", "self.A"} & {o.split("|")[0] for o in bd}) or (ev.loc, ev.text()) in seen:
            continue
        seen.add((ev.loc, ev.text()))
        rep.violated("R-SHAPE", "membership is decided in all capture coordinates", where=ev.loc, construct=ev.text(), entry=entry,
                     config=res.config,
                     msg=f"a {ev.d['how']} selects a subset of the receptor axis of the gamut vertices / targets before the membership test: "
                         f"a target that differs from every reproducible capture only in a dropped coordinate is reported in-gamut")
    for ev in res.events("membership_call"):
        P, B = ev.d["P"], ev.d["B"]
        if P is None or B is None:
            continue
        pf, bf = P.flat(), B.flat()
        if not seen:
            rep.holds("R-SHAPE", "membership is decided in all capture coordinates", where=ev.loc, construct=ev.text(), entry=entry, config=res.config)
        if pf.unit is not None and bf.unit is not None:
            n += 1
            from ..values import ueq
            rep.check(rule, "membership operands share a unit", ueq(pf.unit, bf.unit)[0], where=ev.loc, construct=ev.text(), entry=entry,
                      config=res.config, msg=f"vertex cloud in [{ustr(pf.unit)}], targets in [{ustr(bf.unit)}]")
        if pf.frame is not None and bf.frame is not None:
            n += 1
            ok = pf.frame == bf.frame
            rep.check(rule, "membership operands share a frame", ok, where=ev.loc, construct=ev.text(), entry=entry, config=res.config,
                      msg=(f"the gamut vertices are in frame {_fr(pf.frame)} but the targets in frame {_fr(bf.frame)}: "
                           f"one of them was not shifted by the common offset / does not include the baseline") if not ok else "")
        elif (pf.frame is None) != (bf.frame is None):
            kn = pf.frame if pf.frame is not None else bf.frame
            other = bf if pf.frame is not None else pf
            if other.unit == "POLY" or other.tag("zero_init"):
                continue        # the origin (zeros) is a point of every centred frame
            if isinstance(kn, tuple) and kn[0] in ("DIFF", "CENT"):
                n += 1
                rep.violated(rule, "membership operands share a frame", where=ev.loc, construct=ev.text(), entry=entry,
                             config=res.config,
                             msg=f"one operand of the membership test is offset-subtracted ({_fr(kn)}) and the other is not")
    return n


def _fr(f):
    if isinstance(f, tuple):
        o = f[1]
        if isinstance(o, tuple) and len(o) > 2 and o[0] == "off":
            return f"{f[0]}(offset computed at line {o[2]} of {str(o[1]).split(':')[-1]})"
        return f"{f[0]}(…)"
    return str(f)


def bounded_consistency(rep, res, entry, ub):
    """`bounded` is derived from the finiteness of ub and the same value steers vertex construction and membership"""
    calls = [ev for ev in res.events("call") if ev.d["callee"].module.name == CONVEX and "bounded" in ev.d["callee"].params
             and ev.d["callee"].name in ("get_P_from_A", "in_hull", "convex_combination") and ev.fn.module.name == CONVEX]
    vals = []
    for ev in calls:
        fn = ev.d["callee"]
        b = ev.d["kws"].get("bounded")
        if b is None:
            i = fn.params.index("bounded")
            b = ev.d["args"][i] if i < len(ev.d["args"]) else None
        if b is None:
            # not passed: the callee's default applies
            from ..values import const as _c
            d = fn.defaults.get("bounded")
            b = _c(d.value) if d is not None and hasattr(d, "value") else None
            if b is None:
                continue
            b.tags["defaulted"] = True
        vals.append((ev, b))
    want = (ub == "finite")
    for ev, b in vals:
        if b.known:
            rep.check("R-FLOW", "bounded ⇔ finite upper bounds", b.const == want, where=ev.loc,
                      construct=f"{ev.d['callee'].name}(… bounded=…) in {ev.fn.name}", entry=entry, config=res.config,
                      msg=f"bounded={b.const}" + (" (callee default: the flag is not forwarded)" if b.tag("defaulted") else "")
                          + f" although the upper bounds are {ub}")
        else:
            rep.check("R-FLOW", "bounded ⇔ finite upper bounds", True if "ub" in b.flat().data or "self.ub" in b.flat().data else None,
                      where=ev.loc, construct=f"{ev.d['callee'].name}(… bounded=…)", entry=entry, config=res.config)


def as_dim_(v):
    from ..extern import as_dim
    return as_dim(v) if v is not None else None


def vertex_set(rep, res, entry):
    """the vertex cloud is the image of ALL 2^n corners of the intensity box: product over a two-element literal set with
    repeat = number of sources, affinely mapped by (ub − lb), + lb"""
    # every source takes part: no selection along the source axis of A / lb / ub while the vertices are built
    seen = set()
    for ev in res.events("axis_subset"):
        if ev.d["axis"] != ("SRC",) or not any("get_P_from_A" in q for q in ev.path) or (ev.loc, ev.text()) in seen:
            continue
        if not ({"A", "lb", "ub", "self.A", "self.lb", "self.ub"} & {o.split("|")[0] for o in ev.d["base"].flat().data}):
            continue
        seen.add((ev.loc, ev.text()))
        rep.violated("R-FLOW", "every source contributes to every vertex", where=ev.loc, construct=ev.text(), entry=entry, config=res.config,
                     msg=f"a {ev.d['how']} drops sources from A / the bounds while the gamut vertices are built: the capture those sources "
                         f"contribute at their (fixed, non-zero) intensity is missing from every vertex, the assumed gamut is displaced / too large")
    evs = [ev for ev in res.events("ext_call") if ev.d["dotted"] == "itertools.product" and ev.fn.module.name == CONVEX
           and ev.fn.name == "all_combinations_of_bounds"]
    if not evs:
        evs = [ev for ev in res.events("ext_call") if ev.d["dotted"] == "itertools.product" and any(
            "get_P_from_A" in q for q in ev.path)]
    if not evs:
        # the same table written as the binary digits of 0 … 2^n − 1
        for ev in res.events("corner_table")[:1]:
            rep.check("R-FLOW", "corner set {0,1}^n", bool(ev.d["complete"]), where=ev.loc, construct=ev.text(), entry=entry, config=res.config,
                      msg="the digit table does not enumerate all 2^n rows of n digits")
            d = as_dim_(ev.d["repeat"])
            rep.check("R-FLOW", "one factor per source", None if d is None else d == ("SRC",), where=ev.loc, construct=ev.text(),
                      entry=entry, config=res.config, msg=f"digits per row: {d}")
            corner_map(rep, res, entry)
            return
        rep.undecided("R-FLOW", "all corners of the intensity box", entry=entry, config=res.config, construct="product([0, 1], repeat=n)")
        return
    for ev in evs[:1]:
        out = ev.d["result"]
        po = out.tag("product_of")
        lits = po[0] if po else None
        rep_ = po[1] if po else None
        ok = lits is not None and sorted(float(x) for x in lits) == [0.0, 1.0]
        rep.check("R-FLOW", "corner set {0,1}^n", ok, where=ev.loc, construct=ev.text(), entry=entry, config=res.config,
                  msg=f"corner factors {lits}")
        d = rep_.tag("dim") if rep_ is not None else None
        rep.check("R-FLOW", "one factor per source", None if d is None else d == ("SRC",), where=ev.loc, construct=ev.text(),
                  entry=entry, config=res.config, msg=f"repeat has extent {d}")
    corner_map(rep, res, entry)


def corner_map(rep, res, entry, lb_syms=("lb", "self.lb"), ub_syms=("ub", "self.ub")):
    """the corner indicator t∈{0,1} is mapped affinely onto the box: t=0 ↦ lb, t=1 ↦ ub (POLY facet evaluated at the two
    literals; nothing is executed)"""
    from ..extern import poly_subst
    calls = [ev for ev in res.events("call") if ev.d["callee"].name == "all_combinations_of_bounds" and ev.d.get("result") is not None]
    seen = set()
    for ev in calls:
        r = ev.d["result"].flat()
        p = r.tag("poly")
        k = ev.loc
        if k in seen:
            continue
        seen.add(k)
        if p is None or not any("corner" in m for m in p):
            rep.undecided("R-FLOW", "corners map onto [lb, ub]", where=ev.loc, construct=ev.text(), entry=entry, config=res.config)
            continue
        at0, at1 = poly_subst(p, "corner", 0), poly_subst(p, "corner", 1)
        # the unbounded-cone generators replace ub by (1 + lb): accept ub-free forms only at that enumerated site
        ok0 = any(at0 == {(s_,): 1} for s_ in lb_syms)
        ok1 = any(at1 == {(s_,): 1} for s_ in ub_syms) or any(at1 == {(s_,): 1, (): 1} for s_ in lb_syms)
        rep.check("R-FLOW", "corners map onto [lb, ub]", ok0 and ok1, where=ev.d["callee"].loc(), construct="affine map of the box corners",
                  entry=entry, config=res.config,
                  msg=f"the corner indicator t is mapped to {_pstr(at0)} at t=0 and {_pstr(at1)} at t=1; the vertices of the intensity box are "
                      f"lb (t=0) and ub (t=1)")


def _pstr(p):
    if not p:
        return "0"
    return " + ".join((f"{c:g}·" if c != 1 else "") + ("·".join(m) if m else "1") for m, c in sorted(p.items()))


def target(rel, shape=None, name="B"):
    """declared target captures: relative total capture [ρ] TOTAL, or absolute light-induced capture [c] LIGHT"""
    shape = shape or S("N", "F")
    return arr(name, shape, U_REL if rel else U_CAPTURE, "TOTAL" if rel else "LIGHT", sign="NONNEG")


def relative_forwarding(rep, an, method, kws_of, callee_names, tier, extra_fields=None, spec=None, entry=None):
    """R-FORWARD: K= and baseline= at every call into the geometry layer are the estimator's live K / baseline when
    relative=True and None when relative=False — both conditioned on the same flag."""
    out = []
    for rel in (True, False):
        fields = estimator_fields(K="vec", baseline="vec")
        if extra_fields:
            fields.update(extra_fields)
        kw = kws_of(rel)
        kw["relative"] = flag("relative", rel)
        res = an.run(f"{EST}.{method}", kws=kw, self_fields=fields, spec=spec, config=f"relative={rel}")
        out.append(res)
        ent = entry or f"ReceptorEstimator.{method}"
        # only the calls made by the estimator's own methods: deeper layers legitimately omit K once it is applied
        calls = [ev for ev in res.events("call") if ev.d["callee"].name in callee_names and ("K" in ev.d["callee"].params)
                 and ev.fn.cls is not None]
        if not calls:
            rep.undecided("R-FORWARD", "call into the geometry layer", entry=ent, config=res.config, construct=",".join(callee_names))
        for ev in calls:
            fn = ev.d["callee"]
            bound = dict(ev.d["kws"])
            for i, a in enumerate(ev.d["args"]):
                if i < len(fn.params):
                    bound.setdefault(fn.params[i], a)
            for p, origin in (("K", "self.K"), ("baseline", "self.baseline")):
                v = bound.get(p)
                va = bound.get("A")
                adata = set(va.flat().data) if va is not None else set()
                if rel:
                    ok = v is not None and origin in v.flat().data and not (v.known and v.const is None)
                    if not ok and p == "K" and (v is None or (v.known and v.const is None)) and "self.K" in adata and "self.A" in adata:
                        ok = True        # the adaptation was applied by the wrapper itself (the matrix handed over is K·A)
                    msg = f"relative=True but {p}= is " + ("absent" if v is None else f"{'None' if v.known else sorted(v.flat().data)}")
                else:
                    ok = v is None or (v.known and v.const is None) or (origin not in {o.split("|")[0] for o in v.flat().data}
                                                                        and "self.K" not in adata)
                    msg = f"relative=False but {p}= still carries {sorted(v.flat().data) if v is not None else ''}: absolute captures are " \
                          f"tested against a gamut that includes the {'adaptation' if p == 'K' else 'baseline'}"
                rep.check("R-FORWARD", f"relative → {fn.name}({p}=)", ok, where=ev.loc, construct=f"{fn.name}(… {p}= …) in {ev.fn.name}",
                          entry=ent, config=res.config, msg=msg if not ok else "")
            for p, origin in (("A", "self.A"), ("lb", "self.lb"), ("ub", "self.ub")):
                v = bound.get(p)
                rep.check("R-FORWARD", f"live {origin} → {fn.name}({p}=)", v is not None and origin in v.flat().data, where=ev.loc,
                          construct=f"{fn.name}(… {p}= …) in {ev.fn.name}", entry=ent, config=res.config)
            vb = bound.get("B")
            if vb is not None and "B" in kw and any(o == "B" or o.startswith("B|") for o in vb.flat().data):
                from ..values import plain_dep
                okb, how = plain_dep(vb.flat().data, "B")
                if not okb and not how:
                    how = sorted(o for o in vb.flat().data if o.startswith("B|"))
                rep.check("R-FORWARD", f"targets reach {fn.name} as given", okb, where=ev.loc, construct=f"{fn.name}(B, …) in {ev.fn.name}",
                          entry=ent, config=res.config,
                          msg=f"the targets handed to the geometry layer are a clamped / rounded / projected image of the caller's targets "
                              f"({', '.join(how)}): the answer is computed for different captures (an absolute quantisation also breaks unit "
                              f"equivariance)")
    return out


def hull_spans_bounds(rep, res, entry, rule="R-FLOW", limit=4):
    """every hull a membership test of the estimator is run against is spanned by the captures of the bound combinations: it depends on
    the capture matrix and on BOTH registered bounds"""
    seen = set()
    for mv in res.events("membership_call"):
        if (mv.loc, mv.text()) in seen or len(seen) >= limit:
            continue
        seen.add((mv.loc, mv.text()))
        Pv = mv.d.get("P")
        if Pv is None:
            continue
        pd = {x.split("|")[0] for x in Pv.flat().data}
        if not ({"self.A", "self.lb", "self.ub"} & pd):
            continue            # not a hull of the registered system (e.g. a caller's own point cloud)
        for o in ("self.A", "self.lb", "self.ub"):
            rep.check(rule, f"{o} → vertices of the hull tested for membership", o in pd, where=mv.loc, construct=f"{o} → P of {mv.text()[:50]}",
                      entry=entry, config=res.config,
                      msg=f"the point set handed to the membership test depends on {sorted(pd)} but not on {o}: it is not the set of captures of "
                          f"all bound combinations (single sources at their upper bound span the gamut's chromaticities only for lb = 0 and "
                          f"baseline = 0)")


def dim1(rep, res, entry, rule="R-DIM1"):
    """1-wide data (dichromat chromaticities) must not reach qhull"""
    n = 0
    for ev in res.events("qhull"):
        pts = ev.d["points"]
        s = pts.flat().shape
        if s is None or not s.axes or s.axes[-1] is None:
            rep.undecided(rule, "width of the data handed to qhull", where=ev.loc, construct=ev.text(), entry=entry, config=res.config)
            continue
        n += 1
        one = s.axes[-1] == ()
        caught = any("ValueError" in h or "Exception" in h for h in ev.handlers)
        rep.check(rule, "no 1-wide data reaches qhull", not one or caught, where=ev.loc, construct=ev.text(), entry=entry, config=res.config,
                  msg="for two receptors the chromatic coordinates are one-dimensional; qhull raises ValueError('Need at least 2-D data') "
                      "and only QhullError is handled here" if one and not caught else f"last axis {s.axes[-1]}")
    return n


def rank_of_extents(rep, res, entry, rule="R-SHAPE"):
    """per-source extents keep the source axis: a scalar extremum must not be broadcast over several sources"""
    seen = {}
    for ev in res.events("inplace"):
        v = ev.d["value"]
        idx = ev.d.get("index")
        if ev.d.get("how") != "subscript" or v.tag("extremum") is None:
            continue
        k = (ev.loc, ev.text())
        known = v.shape is not None and v.tag("reduced_from") is not None
        if k in seen and (seen[k] or not known):
            continue            # one obligation per construct; a typed occurrence supersedes untyped ones
        seen[k] = known
        vs = v.shape
        src = v.tag("reduced_from")
        multi = idx is not None and (idx.tag("boolarr") or idx.tag("kind") == "ndarray" or idx.shape is not None and idx.shape.rank == 1)
        if not multi:
            continue
        if vs is None or src is None:
            continue
        ok = not (vs.rank == 0 and src.rank is not None and src.rank >= 2)
        rep.check(rule, "per-source extremum keeps the source axis", ok, where=ev.loc, construct=ev.text(), entry=entry, config=res.config,
                  msg=f"one extremum over all entries of a {src.rank}-D array is stored into several per-source slots: the minimum/maximum "
                      f"of different sources are mixed" if not ok else f"reduction {src} → {vs}")


def no_projected_decision(rep, res, entry, fname="in_hull", origin="B"):
    """a membership answer must depend on the targets themselves: an answer computed from a rank-truncated projection of the
    targets only (coordinates in the span of the vertex set) is the same for every target with that projection — targets off the
    span are accepted.  Checked per path: at every return, at the end of every exception handler and of every conditional arm of the membership routine."""
    import ast as _ast
    n = 0
    fns = {ev.fn for ev in res.events("return") if ev.fn.name == fname and ev.fn.module.name == CONVEX}
    retnames = {}
    for fn in fns:
        retnames[fn.qual] = {r.value.id for r in _ast.walk(fn.node) if isinstance(r, _ast.Return) and isinstance(r.value, _ast.Name)}
    sites = []
    for ev in res.events("return"):
        if ev.fn in fns:
            sites.append((ev, ev.d["val"]))
    for ev in res.events("handler_exit") + res.events("branch_exit"):
        if ev.fn in fns:
            for nm in retnames.get(ev.fn.qual, ()):
                if nm in ev.d["env"]:
                    sites.append((ev, ev.d["env"][nm]))
    for ev, v in sites:
        d = v.flat().data
        if origin + "|proj" in d:
            n += 1
            rep.check("R-FLOW", "membership is decided on the targets, not only on their projection", origin in d, where=ev.loc,
                      construct=f"answer of {fname} at the end of `{ev.text()[:60]}`", entry=entry, config=res.config,
                      msg=f"on this path the membership answer depends on `{origin}` only through a rank-truncated projection (coordinates in "
                          f"the span of the vertex set): the component of a target orthogonal to the span is ignored, so targets off a flat "
                          f"gamut whose projection falls inside it are reported in gamut")
    return n


def zero_rows(rep, res, entry):
    """rows without a chromaticity (all-zero captures: all-zero targets, the dark corner of the gamut when lb = 0 and there is no
    baseline) never reach the L1 normalisation of the chromatic reduction, where a zero row is mapped onto a simplex corner"""
    n = 0
    for ev in res.events("zero_rows_to_chroma"):
        n += 1
        rep.violated("R-ZERO", "all-zero rows never reach the chromatic reduction", where=ev.loc,
                     construct=f"{ev.text()} (reached via {' → '.join(q.split('.')[-1] for q in ev.path)})", entry=entry, config=res.config,
                     msg="an array that may contain all-zero rows (no chromaticity) is L1-normalised: the zero row is mapped onto the simplex "
                         "corner of the first receptor and takes part in the in-gamut test / the common factor")
    for ev in res.events("chroma_of_targets"):
        n += 1
        rep.holds("R-ZERO", "all-zero rows never reach the chromatic reduction", where=ev.loc, construct=ev.text(), entry=entry,
                  config=res.config, msg="zero rows were removed or replaced before the reduction")
    return n


def exact_triangulation(rep, res, entry):
    """the membership decision rests on the triangulation of the points AS GIVEN: qhull's joggle option (QJ) perturbs the input, so
    the triangulation of a flat vertex set becomes a sliver that does not contain the points of the gamut's own plane"""
    for ev in res.events("qhull"):
        opts = (ev.d.get("kws") or {}).get("qhull_options")
        if opts is None and len(ev.d.get("args") or ()) > 3:
            opts = ev.d["args"][3]
        if opts is None:
            continue
        if opts.known and isinstance(opts.const, str) and "QJ" in opts.const:
            rep.violated("R-VALUE", "membership is decided on the un-perturbed vertex set", where=ev.loc, construct=ev.text(), entry=entry,
                         config=res.config,
                         msg="qhull is asked to joggle its input (QJ): for a flat vertex set (fewer independent sources than receptors) the "
                             "joggled triangulation is a sliver of thickness ~1e-11 and find_simplex rejects every point of the gamut's own plane")
        elif opts.known or "qhull_options" in opts.flat().data:
            rep.holds("R-VALUE", "membership is decided on the un-perturbed vertex set", where=ev.loc, construct=ev.text(), entry=entry,
                      config=res.config, msg="options are the caller's (default None)")
