"""C06 — range of solutions (necessary structure).

Decided:
  R-QTY       the in-gamut gate is computed as in C03 (same offset on vertices and targets, K/baseline exactly once); the
              enumeration receives the LIGHT target (baseline removed exactly once) with the adapted A and bounds; inside it,
              offsets·A_restᵀ is subtracted as LIGHT − LIGHT, solve(A*, ·) yields intensities and is compared with bounds in
              intensity units; the out-of-gamut fallback is fitted with the already transformed (A, LIGHT target, lb, ub) and
              no second K / baseline; spaced solutions are inset by a relative (not absolute) epsilon
  R-DISPATCH  error ∉ {'ignore','warn'} raises (default 'raise'); 'warn' warns and 'ignore' is silent, both return the best fit
              as both ends
  R-FORWARD   n and eps reach the spaced-solution builder; the estimator forwards its live A, lb, ub and K/baseline under one
              `relative` flag, plus error, n, eps
  R-SHAPE     per-source extrema keep the source axis (no scalar extremum broadcast over several sources)
  R-PURITY    caller arrays / registered targets are not modified
Not decided: extremality and attainment, min ≤ max, boundary targets (exact comparisons on solver output), that spaced
solutions reproduce the target (see known findings for the ≥ 2 surplus-source permutation defect)."""
from __future__ import annotations
from ..spec import rel_axis, arr, num, intv, strv, const, none, flag, estimator_fields, S, U_REL, U_INT, U_CAPTURE, ONE
from .. import rules as R
from ..model import norm_text
from .common import opts, cfgname, lsq_configs
from . import formulation as F
from . import convexcommon as CC
from .C03 import allow

OPTS = opts()
EXPLANATION = __doc__
RULE_TEXT = "frame/units typing through the enumeration helpers reached from the public entry; dispatch; forwarding"
EST = CC.EST

AXES = {
    "K": (["vec", "mat", None], ["vec", "mat", None]),
    "baseline": (["vec", None], ["vec", None]),
    "error": (["raise", "warn", "ignore"], ["raise", "warn", "ignore", "other"]),
    "n": ([None, "given"], [None, "given"]),
    "Brank": ([2, 1], [2, 1]),
    "lb": (["nonneg", "any"], ["nonneg", "any"]),
}


def run(an, cfg, spec):
    kw = CC.geometry_inputs(K=cfg["K"], baseline=cfg["baseline"], ub="finite", lb=cfg["lb"], Brank=cfg["Brank"])
    kw["error"] = strv("error", cfg["error"] if cfg["error"] != "other" else "bogus")
    kw["n"] = none() if cfg["n"] is None else intv("n", "NS")
    kw["eps"] = num("eps", ONE, sign="POS")
    return an.run(f"{CC.CONVEX}:range_of_solutions", kws=kw, spec=spec, config=cfgname(cfg))


def check(rep, an, tier):
    # the bounds every clause below speaks of are the REGISTERED ones: registration keeps / replaces exactly what it is given
    from .C14 import register_bounds_rule
    register_bounds_rule(rep, an)
    spec = CC.hooks()
    entry = "range_of_solutions"
    for cfg in lsq_configs(tier, AXES):
        res = run(an, cfg, spec)
        CC.membership_frames(rep, res, entry)
        CC.vertex_set(rep, res, entry)
        CC.bounded_consistency(rep, res, entry, "finite")
        F.qty(rep, res, entry, allow=allow, subs=("mismatch", "literal"))
        R.rule_type_errors(rep, res, "SHAPE", "R-SHAPE", entry)
        R.rule_purity(rep, res, entry)
        R.rule_index_space(rep, res, entry)
        R.rule_count_denominator(rep, res, entry)
        R.rule_extremum_siblings(rep, res, entry)
        R.rule_fixed_column(rep, res, entry)
        R.rule_min_vs_max_exact(rep, res, entry)
        CC.rank_of_extents(rep, res, entry)
        R.rule_dtype(rep, res, entry)
        R.rule_iterator_reuse(rep, res, entry)
        R.rule_no_global_state(rep, res, entry)
        from .C15 import tolerances
        tolerances(rep, res, entry)
        # the gate and the enumeration agree: the enumeration accepts a basic solution by EXACT comparison with the bounds, so a gate
        # that is widened by an explicit tolerance lets targets through for which no basic solution is accepted
        mt = res.events("membership_tolerance")
        for ev in mt:
            rep.violated("R-VALUE", "the in-gamut gate is not wider than what the enumeration accepts", where=ev.loc, construct=ev.text(), entry=entry,
                         config=res.config,
                         msg="the inside-simplex test is given an explicit tolerance: targets just outside the gamut pass the gate, but every "
                             "basic solution is then rejected by the exact bounds test of the enumeration — the call returns min = ub, max = lb "
                             "(min > max, no reproducing solution) instead of raising / fitting")
        if not mt:
            rep.holds("R-VALUE", "the in-gamut gate is not wider than what the enumeration accepts", where=res.fn.loc(), construct="membership tests of range_of_solutions",
                      entry=entry, config=res.config)
        # a square sub-system of the enumeration may be singular (proportional sources, a source that alone drives a channel): such a
        # choice of sources is no basis of the feasible polytope and is skipped — it must not abort the call for an in-gamut target
        import ast as _ast
        for ev in res.events("ext_call"):
            if ev.d["dotted"] in ("numpy.linalg.lstsq", "scipy.linalg.lstsq", "numpy.linalg.pinv", "scipy.linalg.pinv") and ev.loops:
                lq0, lno0 = ev.loops[-1]
                loop0 = _loop_node(res, lq0, lno0)
                if loop0 is not None and "combinations(" in norm_text(loop0.iter):
                    rep.violated("R-DISPATCH", "vertices of the solution set are exact solutions of their sub-system", where=ev.loc,
                                 construct=ev.text()[:80], entry=entry, config=res.config,
                                 msg="the enumerated square sub-systems are solved in the least-squares sense: for a singular sub-system the "
                                     "least-squares point does not reproduce the target, yet it is accepted as a vertex when it lies within the "
                                     "bounds — a source pinned by the target is reported with min = lb and max = ub")
                continue
            if ev.d["dotted"] not in ("numpy.linalg.solve", "scipy.linalg.solve", "numpy.linalg.inv") or not ev.loops:
                continue
            # which kind of loop encloses the solve: an enumeration of source subsets (itertools.combinations) or a walk along a range?
            lq, lno = ev.loops[-1]
            loop = _loop_node(res, lq, lno)
            it = norm_text(loop.iter) if loop is not None else ""
            if "combinations(" in it:
                hs = [x for h in ev.handlers for x in (h if isinstance(h, (tuple, list)) else (h,))]
                caught = any(("LinAlgError" in x) or x.split(".")[-1] in ("Exception", "BaseException") for x in hs)
                rep.check("R-DISPATCH", "a singular sub-system of the enumeration is skipped, not raised", caught, where=ev.loc,
                          construct=ev.text()[:80], entry=entry, config=res.config,
                          msg="np.linalg.solve of an enumerated square sub-system is not guarded: for systems with proportional sources (or a "
                              "source that alone drives a channel) some sub-system is singular and an in-gamut target raises LinAlgError")
            elif cfg["n"] is not None and ev.d["args"]:
                # spaced solutions along the solution segment: the source that parametrises the segment must be one that VARIES on it (chosen
                # from the computed ranges) — with a fixed choice the remaining sub-system is singular whenever the target pins that source
                md = {o.split("|")[0] for o in (ev.d["args"][0].flat().data | ev.d["args"][0].flat().shp)}
                rep.check("R-DISPATCH", "spaced solutions are parametrised by a source that varies on the solution segment", "B" in md, where=ev.loc,
                          construct=ev.text()[:80], entry=entry, config=res.config,
                          msg="the square sub-system solved for the spaced solutions leaves out a FIXED source (its choice does not depend on the "
                              "solution ranges): when the target pins that source the sub-system is singular and the call raises LinAlgError")
        # error dispatch
        # the out-of-gamut error: a raise in the entry (or its private helpers) that is guarded by the membership result — identified
        # by what it depends on, not by its message
        def gamut_guarded(e):
            for g in e.guards:
                deps = set(g[4]) if len(g) > 4 and g[4] is not None else set()
                if {"B", "A"} <= deps or "inhull" in g[0] or "in_hull" in g[0]:
                    return True
            return False
        top_raise = [e for e in res.events("raise") if R.near(e) and e.d.get("exc") in ("ValueError", "RuntimeError", "Exception") and gamut_guarded(e)]
        warns = [e for e in res.events("warn") if R.near(e)]
        fits = [e for e in res.events("call") if e.d["callee"].name == "lsq_linear" and R.near(e)]
        if cfg["error"] in ("raise", "other"):
            rep.check("R-DISPATCH", f"error='{cfg['error']}' raises for out-of-gamut targets", True if (top_raise and not fits) else (False if not top_raise else None),
                      where=res.fn.loc(), construct=f"error={cfg['error']!r}", entry=entry, config=res.config,
                      msg="out-of-gamut targets are silently fitted although the caller asked for an error (default)")
        else:
            rep.check("R-DISPATCH", f"error='{cfg['error']}' returns the best fit", bool(fits) and not top_raise, where=res.fn.loc(),
                      construct=f"error={cfg['error']!r}", entry=entry, config=res.config)
            rep.check("R-DISPATCH", f"error='{cfg['error']}' warns iff 'warn'", bool(warns) == (cfg["error"] == "warn"), where=res.fn.loc(),
                      construct=f"warning for error={cfg['error']!r}", entry=entry, config=res.config)
            # the best fit returned for out-of-gamut targets lies within the bounds: both bound constraints exist on every path
            F.must_constraint(rep, res, entry, "lb", "lower bound (best-fit fallback)", local_only=True)
            F.must_constraint(rep, res, entry, "ub", "upper bound (best-fit fallback)", local_only=True)
            R.rule_every_iteration_solves(rep, res, entry)      # … and every out-of-gamut row is really fitted
            F.every_row_solved(rep, res, entry)
            for ev in fits:
                fn = ev.d["callee"]
                bound = dict(ev.d["kws"])
                for i, a in enumerate(ev.d["args"]):
                    bound.setdefault(fn.params[i], a)
                for p in ("K", "baseline"):
                    v = bound.get(p)
                    rep.check("R-QTY", f"fallback fit does not re-apply {p}", v is None or (v.known and v.const is None), where=ev.loc,
                              construct=f"lsq_linear(… {p}= …) in range_of_solutions", entry=entry, config=res.config,
                              msg=f"{p} is applied a second time in the best-fit fallback")
                for p_, o_ in (("A", "A"), ("lb", "lb"), ("ub", "ub")):
                    v = bound.get(p_)
                    rep.check("R-FORWARD", f"fallback fit is bounded by {o_}" if p_ != "A" else "fallback fit uses the adapted A",
                              v is not None and o_ in v.flat().data, where=ev.loc, construct=f"lsq_linear(… {p_}= …) in range_of_solutions",
                              entry=entry, config=res.config, msg=f"`{p_}` is not passed to the best-fit fallback: the 'best fit' ignores the bounds")
                b = bound.get("B")
                if b is not None and cfg["baseline"]:
                    rep.check("R-QTY", "fallback fit receives the baseline-free target", None if b.flat().frame is None else b.flat().frame == "LIGHT",
                              where=ev.loc, construct="lsq_linear(A, B, …) in range_of_solutions", entry=entry, config=res.config,
                              msg=f"the fallback is fitted against a {b.flat().frame} target with the baseline-free model")
        # enumeration receives LIGHT target
        enum = [e for e in res.events("call") if R.near(e) and e.fn.name not in ("_spaced_solutions", "_range_of_solutions")
                and e.d["callee"].module.name == CC.CONVEX
                and e.d["callee"].name not in ("get_P_from_A", "in_hull", "lsq_linear") and not e.d["callee"].name.startswith("transform")]
        for ev in enum:
            fn = ev.d["callee"]
            bound = dict(ev.d["kws"])
            for i, a in enumerate(ev.d["args"]):
                if i < len(fn.params):
                    bound.setdefault(fn.params[i], a)
            b = bound.get("b")
            if b is not None and cfg["baseline"]:
                fr = b.flat().frame
                rep.check("R-QTY", "enumeration receives the baseline-free target", None if fr is None else fr == "LIGHT", where=ev.loc,
                          construct=f"{fn.name}(…, b, …) in range_of_solutions", entry=entry, config=res.config, msg=f"target frame {fr}")
            for p in ("n", "eps"):
                if p in fn.params and cfg["n"] is not None:
                    v = bound.get(p)
                    rep.check("R-FORWARD", f"{p} → spaced-solution builder", v is not None and p in v.flat().data, where=ev.loc,
                              construct=f"{fn.name}(… {p}= …)", entry=entry, config=res.config)
        # declared results
        items = F.ret_items(res)
        for i, lab in enumerate(("Xmin", "Xmax")):
            if i < len(items) and cfg["n"] is not None:
                # the reported ends are a function of the system and the target: the request for spaced solutions (n, eps) changes nothing
                dd = {o.split("|")[0] for o in items[i].flat().data}
                rep.check("R-NOFLOW", f"{lab} does not depend on the spaced-solution request", not ({"n", "eps"} & dd), where=res.fn.loc(),
                          construct=f"n, eps ↛ {lab} returned by range_of_solutions", entry=entry, config=res.config,
                          msg=f"the returned {lab} data-depends on {sorted({'n', 'eps'} & dd)}: some row of it is taken from the spaced solutions "
                              f"(e.g. a temporary that overwrote the batch of best fits), not from the range computation / the fallback fit")
        for i, lab in enumerate(("Xmin", "Xmax")):
            if i < len(items):
                v = items[i].flat()
                rep.check("R-QTY", f"{lab} in intensity units", None if v.unit in (None, "POLY") else v.unit == U_INT, where=res.fn.loc(),
                          construct=f"{lab} returned by range_of_solutions", entry=entry, config=res.config)
    d = {n: AXES[n][0][0] for n in AXES}
    permutation_restore(rep, run(an, dict(d, n="given"), spec))
    rep.require("R-PERM", 1)
    # estimator
    def kws_of(rel):
        return dict(B=CC.target(rel), error=strv("error", "ignore"), n=intv("n", "NS"), eps=num("eps", ONE, sign="POS"))
    ress = CC.relative_forwarding(rep, an, "range_of_solutions", kws_of, {"range_of_solutions"}, tier, spec=spec)
    for res in ress:
        ent = "ReceptorEstimator.range_of_solutions"
        for ev in [e for e in res.events("call") if e.d["callee"].name == "range_of_solutions" and e.fn.cls]:
            for p in ("error", "n", "eps"):
                v = ev.d["kws"].get(p)
                rep.check("R-FORWARD", f"{p} → range_of_solutions({p}=)", v is not None and p in v.flat().data, where=ev.loc,
                          construct=f"range_of_solutions(… {p}= …) in {ev.fn.name}", entry=ent, config=res.config)
        R.rule_purity(rep, res, ent)
        R.rule_index_space(rep, res, ent)
        R.rule_effect_free(rep, res, ent, reg=_reg(an))
        F.qty(rep, res, ent, allow=allow, subs=("mismatch", "literal"))
    rep.require("R-QTY", 20)
    rep.require("R-DISPATCH", 4)
    rep.require("R-FORWARD", 10)


def _loop_node(res, qual, lineno):
    """the `for` statement a loop id (function qual, line) refers to — the loop may live in a caller of the function that holds the event"""
    import ast as _ast
    mod, _, name = qual.partition(":")
    fn = res.ctx.model.method(mod, *name.split(".")) if "." in name else res.ctx.model.func(mod, name)
    if fn is None:
        return None
    return next((n for n in _ast.walk(fn.node) if isinstance(n, _ast.For) and n.lineno == lineno), None)


def permutation_restore(rep, res):
    """R-PERM: solutions assembled column-wise as [fixed source | remaining sources] are brought back to source order with the
    INVERSE of the 'move to front' permutation (np.argsort of it, or a scatter) — never gathered with the permutation itself."""
    import ast
    model = res.ctx.model
    for q in sorted(res.ctx.calls_seen):
        mod, _, name = q.partition(":")
        if mod != CC.CONVEX or "." in name:
            continue
        fn = model.func(mod, name)
        if fn is None:
            continue
        assigns = {}
        for n in ast.walk(fn.node):
            if isinstance(n, ast.Assign) and len(n.targets) == 1 and isinstance(n.targets[0], ast.Name):
                assigns.setdefault(n.targets[0].id, []).append(n.value)
        for n in ast.walk(fn.node):
            if not (isinstance(n, ast.Subscript) and isinstance(n.slice, ast.Tuple) and len(n.slice.elts) == 2
                    and isinstance(n.slice.elts[0], ast.Slice) and isinstance(n.ctx, ast.Load)):
                continue
            base_txt = norm_text(n.value)
            if "hstack" not in base_txt and "column_stack" not in base_txt and "concatenate" not in base_txt:
                continue
            idx = n.slice.elts[1]
            exprs = [idx] + (assigns.get(idx.id, []) if isinstance(idx, ast.Name) else [])
            txts = [norm_text(x) for x in exprs]
            is_forward = any(isinstance(x, ast.Call) and norm_text(x.func).endswith("concatenate") and x.args
                             and isinstance(x.args[0], ast.List) and x.args[0].elts and isinstance(x.args[0].elts[0], ast.List)
                             and len(x.args[0].elts[0].elts) == 1 for x in exprs)
            inverse = "argsort(" in txts[0]
            if not is_forward and not inverse:
                continue
            rep.check("R-PERM", "assembled columns restored with the inverse permutation", inverse, where=fn.loc(n),
                      construct=norm_text(n)[:100], entry="range_of_solutions", config=res.config,
                      msg="the columns [fixed source | remaining sources] are gathered with the 'move to front' permutation itself; "
                          "for a fixed source index ≥ 2 the columns end up scrambled and the spaced solutions do not reproduce the target")


def _reg(an):
    from .C14 import registration_writes
    return registration_writes(an)
