"""Shared configuration builders for the lsq_* family."""
from __future__ import annotations
import itertools
from ..spec import lsq_inputs, const, none, flag, strv, num, arr, intv, S, U_INT, U_W, U_REL
from ..values import Val
from ..rules import cvxpy_reshape_default

LSQ = "dreye.api.optimize.lsq_linear"
OPTS = {"cvxpy_reshape_default": None}      # filled lazily from the installed cvxpy


def opts():
    if OPTS["cvxpy_reshape_default"] is None:
        OPTS["cvxpy_reshape_default"] = cvxpy_reshape_default()
    return OPTS


def base_kws(**over):
    kw = dict(n_jobs=none(), verbose=const(0), return_pred=const(True))
    kw.update(over)
    return kw


def cfgname(d):
    return ",".join(f"{k}={v}" for k, v in sorted(d.items()))


def lsq_configs(tier, axes):
    """axes: dict name -> (quick values, thorough values).  quick = default + one-at-a-time boundary values;
    thorough = full cross product."""
    names = list(axes)
    if tier == "thorough":
        for combo in itertools.product(*[axes[n][1] for n in names]):
            yield dict(zip(names, combo))
    else:
        default = {n: axes[n][0][0] for n in names}
        yield dict(default)
        for n in names:
            for v in axes[n][0][1:]:
                d = dict(default)
                d[n] = v
                yield d
        # interacting pairs that one-at-a-time variation misses (each was a defect of the pinned tree)
        for pair in PAIRS:
            if all(n in axes and v in axes[n][1] for n, v in pair.items()):
                d = dict(default)
                d.update(pair)
                yield d


PAIRS = [
    {"K": "mat", "baseline": "scalar"},      # fix fb87363: K @ (one-element baseline)
]
