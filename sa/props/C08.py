"""C08 — underdetermined fit and its secondary objective (formulation and dispatch).

Decided:
  R-DISPATCH  underdetermined_opt ∈ {None→'l2','l2','min','max','var',Number,ndarray}: every documented option reaches
              an objective; unknown strings / types raise; per option the sense (normalised through a leading minus)
              and the reducer class match the documented goal: min → Minimize Σx, max → Maximize Σx, l2 → Minimize ‖x‖₂,
              var → Minimize Σ(x − mean x)² (the centring term is Σx / n, i.e. the mean), Number → Minimize (Σx − v)²,
              ndarray → Minimize Σ(x − v)²; the option value reaches the objective in the last two
  R-FLOW      l2_eps reaches a constraint whose left side depends on A, B, W, K, baseline (the weighted residual of
              the default fit); bounds reach constraints
  R-QTY       that residual is unit/frame homogeneous (LIGHT − LIGHT, weights on both sides)
  R-FORWARD   ReceptorEstimator.fit_underdetermined forwards underdetermined_opt, l2_eps and its live fields
Not decided: optimality over the solution polytope; tolerance attainment."""
from __future__ import annotations
from ..spec import rel_axis, lsq_inputs, const, none, opaque, arr, num, strv, estimator_fields, S, U_REL, U_INT, U_CAPTURE
from .. import rules as R
from ..model import norm_text
from .common import LSQ, opts, base_kws, cfgname, lsq_configs
from . import formulation as F

OPTS = opts()
EXPLANATION = __doc__
RULE_TEXT = "dispatch table ↔ branches with objective sense/reducer classification on the cvxpy atom tree"
EST = "dreye.api.estimator:ReceptorEstimator"

OPTIONS = {
    # label: (abstract value, expected sense, expected top reducers, needs option in objective)
    "None": (lambda: none(), "Minimize", ("norm2", "sum_squares"), False),
    "l2": (lambda: strv("underdetermined_opt", "l2"), "Minimize", ("norm2", "sum_squares"), False),
    "min": (lambda: strv("underdetermined_opt", "min"), "Minimize", ("sum",), False),
    "max": (lambda: strv("underdetermined_opt", "max"), "Maximize", ("sum",), False),
    "var": (lambda: strv("underdetermined_opt", "var"), "Minimize", ("sum_squares",), False),
    "number": (lambda: num("underdetermined_opt", U_INT, np_scalar=False), "Minimize", ("sum_squares", "square", "abs"), True),
    # a NumPy scalar (np.float64 from X.sum(), np.mean, …) is a Number AND an np.generic
    "number (numpy scalar)": (lambda: num("underdetermined_opt", U_INT, np_scalar=True), "Minimize", ("sum_squares", "square", "abs"), True),
    "vector": (lambda: arr("underdetermined_opt", S("SRC"), U_INT), "Minimize", ("sum_squares", "norm2"), True),
}

AXES = {
    "K": (["vec", "mat", None, "scalar"], ["vec", "mat", None, "scalar"]),
    "baseline": (["vec", None], ["vec", None, "scalar"]),
    "W": (["mat", "vec"], ["mat", "vec", None]),
    "lb": (["nonneg", "any"], ["nonneg", "any"]),
}


def run(an, opt_val, cfg):
    kw = lsq_inputs(K=cfg["K"], baseline=cfg["baseline"], W=cfg["W"], lb=cfg["lb"], ub="finite", bs=1)
    kw.update(base_kws())
    kw["underdetermined_opt"] = opt_val
    ueps = {"rho" if cfg["K"] else "c": 1}
    if cfg["W"]:
        ueps["w"] = 1          # without weights the residual is unweighted
    kw["l2_eps"] = num("l2_eps", ueps, sign="POS")
    return an.run(f"{LSQ}:lsq_linear_underdetermined", kws=kw, config=cfgname(cfg))


def check(rep, an, tier):
    # the bounds every clause below speaks of are the REGISTERED ones: registration keeps / replaces exactly what it is given
    from .C14 import register_bounds_rule
    register_bounds_rule(rep, an)
    entry = "lsq_linear_underdetermined"
    default = {n: AXES[n][0][0] for n in AXES}
    selection_option(rep, an, default, entry)
    for label, (mk, sense, reducers, needs_opt) in OPTIONS.items():
        res = run(an, mk(), default)
        res.config = f"opt={label}"
        probs = F.final_problems(res)
        if not probs:
            rep.violated("R-DISPATCH", f"option {label} reaches an objective", where=res.fn.loc(),
                         construct=f"underdetermined_opt={label}", entry=entry, config=res.config,
                         msg="no problem is built for this documented option value")
            continue
        for po, obj, cons in probs:
            s, expr = R.objective_nf(obj)
            a = expr.tag("atom") if expr is not None else None
            node = obj.tag("node")
            text = norm_text(node)[:90] if node is not None else "objective"
            where = f"{node and po.fn.module.relpath}:{getattr(node, 'lineno', 0)}"
            # where the objective was built (may be a helper): report that construct
            rep.check("R-DISPATCH", f"option {label}: sense {sense}", None if s is None else s == sense, where=where,
                      construct=f"{label}: {text}", entry=entry, config=res.config,
                      msg=f"objective for '{label}' is {s}(…) in normal form; documented goal needs {sense}")
            top = a[0] if a else None
            rep.check("R-DISPATCH", f"option {label}: reducer", None if top is None else top in reducers, where=where,
                      construct=f"{label}: {text}", entry=entry, config=res.config,
                      msg=f"top reducer `{top}`, documented: one of {reducers}")
            if needs_opt:
                deps = R.closure_deps(res, obj)
                rep.check("R-FLOW", f"option {label}: value reaches the objective", "underdetermined_opt" in deps,
                          where=where, construct=f"{label}: {text}", entry=entry, config=res.config,
                          msg="the requested value/vector never reaches the objective")
            if label == "var":
                var_structure(rep, res, expr, where, text, entry)
            if label in ("min", "max", "number", "number (numpy scalar)"):
                # Σx over ALL sources: the summed operand must be the bare variable
                sums = [(v, ops) for at, v, ops in R.walk_atoms(expr) if at == "sum"]
                ok = bool(sums) and all(ops[0].tag("cvx") in ("leaf", "expr") and R.leaf_kinds(res, ops[0])[1] for v, ops in sums)
                rep.check("R-DISPATCH", f"option {label}: total intensity Σx", ok, where=where, construct=f"{label}: {text}",
                          entry=entry, config=res.config)
    for label, v in (("bad string", strv("underdetermined_opt", "bogus")),):
        res = run(an, v, default)
        res.config = f"opt={label}"
        rep.check("R-DISPATCH", f"{label} raises", F.raises(res),
                  where=res.fn.loc(), construct=f"underdetermined_opt={label}", entry=entry, config=res.config)
    # fit-quality constraint, bounds, units — over the configuration axes
    for cfg in lsq_configs(tier, AXES):
        for label in (("l2", "max") if tier == "quick" else list(OPTIONS)):
            mk = OPTIONS[label][0]
            res = run(an, mk(), cfg)
            res.config = cfgname(dict(cfg, opt=label))
            probs = F.final_problems(res)
            F.flow_constraints(rep, res, entry, {"lb", "ub", "l2_eps"}, probs)
            F.must_constraint(rep, res, entry, "lb", "lower bound", probs)
            F.must_constraint(rep, res, entry, "ub", "upper bound", probs)
            F.must_constraint(rep, res, entry, "l2_eps", "fit-quality tolerance", probs)
            need = {"A", "B"} | ({"W"} if cfg["W"] else set()) | ({"K"} if cfg["K"] else set()) \
                | ({"baseline"} if cfg["baseline"] else set())
            for po, obj, cons in probs:
                fit = [c for c in cons if "l2_eps" in R.closure_deps(res, c)]
                for c in fit:
                    deps = R.closure_deps(res, c)
                    # the requested tolerance bounds the EUCLIDEAN size of the weighted residual (the quantity the default fit minimises):
                    # a bound on the largest channel (norm_inf / max) admits residuals √F times larger, a bound on norm1 fewer
                    for side in (c.tag("lhs"), c.tag("rhs")):
                        at = side.flat().tag("atom") if side is not None else None
                        if not at or side is None or "l2_eps" in R.closure_deps(res, side):
                            continue
                        if at[0] in ("norm_inf", "max", "norm1"):
                            rep.violated("R-FLOW", "tolerance bounds the Euclidean norm of the weighted residual", where=F.where_po(po),
                                         construct=norm_text(c.tag("node"))[:90], entry=entry, config=res.config,
                                         msg=f"the fit-quality constraint bounds `{at[0]}` of the residual by l2_eps: with F channels the Euclidean "
                                             f"miss of the returned fit can reach √F·l2_eps (norm_inf / max) — not the requested tolerance")
                        elif at[0] in ("norm2", "sum_squares", "norm_fro"):
                            rep.holds("R-FLOW", "tolerance bounds the Euclidean norm of the weighted residual", where=F.where_po(po),
                                      construct=norm_text(c.tag("node"))[:90], entry=entry, config=res.config)
                    for o in sorted(need):
                        rep.check("R-FLOW", f"{o} → fit-quality constraint", o in deps, where=F.where_po(po),
                                  construct=f"{o} → {norm_text(c.tag('node'))[:70]}", entry=entry, config=res.config,
                                  msg=f"the tolerance constraint does not depend on `{o}`: it is not the weighted residual of the default fit")
            F.qty(rep, res, entry)
            F.count_typed(rep, res, entry)
            urel = U_REL if cfg["K"] else U_CAPTURE
            F.return_types(rep, res, entry, [("X", S("N", "SRC"), U_INT, None),
                                             ("prediction", S("N", rel_axis(cfg["K"])), urel, "TOTAL" if cfg["baseline"] else None)])
            F.pred_from_X(rep, res, entry)
            F.sign_attrs(rep, res, entry)
            F.hygiene(rep, res, entry)
            R.rule_rowsep(rep, res, entry)
    # estimator wrapper
    fields = estimator_fields(K="vec", baseline="vec")
    kw = dict(B=arr("B", S("N", "F"), U_REL, "TOTAL"), underdetermined_opt=strv("underdetermined_opt", "max"),
              l2_eps=num("l2_eps", {"rho": 1, "w": 1}, sign="POS"), batch_size=lsq_inputs(bs=1)["batch_size"], verbose=const(0))
    for label, optv in (("max", strv("underdetermined_opt", "max")),
                        ("vector", arr("underdetermined_opt", S("SRC"), U_INT)),
                        ("number", num("underdetermined_opt", U_INT))):
        kw["underdetermined_opt"] = optv
        res = an.run(f"{EST}.fit_underdetermined", kws=kw, self_fields=fields, config=f"estimator,opt={label}")
        F.forwards(rep, res, "ReceptorEstimator.fit_underdetermined", {"lsq_linear_underdetermined"},
                   {"A": "self.A", "lb": "self.lb", "ub": "self.ub", "W": "self.W", "K": "self.K", "baseline": "self.baseline",
                    "underdetermined_opt": "underdetermined_opt", "l2_eps": "l2_eps", "B": "B"})
        F.wrapper_returns_solution(rep, res, "ReceptorEstimator.fit_underdetermined", {"lsq_linear_underdetermined"}, ("X", "B"))
        R.rule_effect_free(rep, res, "ReceptorEstimator.fit_underdetermined") if label == "vector" else None
        if label in ("number", "vector"):
            # the option keeps its KIND through the wrapper: a number is the wanted TOTAL intensity (the objective contains Σx), a vector the
            # wanted intensities themselves (no total)
            for po, obj, cons in F.final_problems(res):
                sense, expr = R.objective_nf(obj)
                if expr is None:
                    continue
                tot = [1 for at, v_, ops_ in R.walk_atoms(expr) if at == "sum" and ops_ and ops_[0].tag("cvx") in ("leaf", "expr")
                       and not any(a2 == "sum_squares" for a2, _, _ in R.walk_atoms(ops_[0]))]
                rep.check("R-DISPATCH", f"option given as a {label} reaches the {label} objective through the estimator", bool(tot) == (label == "number"),
                          where=F.where_po(po), construct=norm_text(obj.tag("node"))[:80] if obj.tag("node") is not None else "objective",
                          entry="ReceptorEstimator.fit_underdetermined", config=res.config,
                          msg=("a plain number handed to the estimator arrives as an array (np.asarray turns it into a 0-d array) and is routed to "
                               "the 'closest to this vector' objective: every intensity is pulled towards the number instead of their TOTAL")
                              if label == "number" else "a vector option is routed to the total-intensity objective")
    rep.require("R-DISPATCH", 14)
    rep.require("R-FLOW", 30)
    rep.require("R-FORWARD", 8)
    rep.require("R-QTY", 10)


def selection_option(rep, an, default, entry):
    """underdetermined_opt = (wanted intensities, selected sources): the k-th wanted value belongs to the k-th LISTED source — the
    selection indexes the variable as the caller gave it (sorting / de-duplicating it re-pairs values and sources)"""
    from ..values import Val as _Val
    from ..spec import ONE
    want = arr("underdetermined_opt", S("SEL"), U_INT)
    idcs = arr("idcs", S("SEL"), ONE)
    idcs.tags["indices"] = True
    opt = _Val(items=[want, idcs], tags={"kind": "tuple", "notnone": True, "notstr": True}, data=frozenset({"underdetermined_opt", "idcs"}))
    res = run(an, opt, default)
    res.config = "opt=(vector, indices)"
    n = 0
    for po, obj, cons in F.final_problems(res):
        for at, v, ops in R.walk_atoms(obj):
            if at != "index":
                continue
            iv = v.tag("index_val")
            if iv is None or "idcs" not in {o.split("|")[0] for o in iv.flat().data}:
                continue
            n += 1
            node = obj.tag("node")
            rep.check("R-FLOW", "option (values, sources): the selection keeps the caller's order", not iv.tag("sorted"), where=F.where_po(po),
                      construct="x_[idcs] in the secondary objective", entry=entry, config=res.config,
                      msg="the selected source indices are sorted / de-duplicated (np.unique, np.sort) before they index the variable: the k-th "
                          "wanted intensity is then paired with a different source whenever the caller's list is not ascending")
    if not n:
        rep.undecided("R-FLOW", "option (values, sources): the selection keeps the caller's order", where=res.fn.loc(),
                      construct="x_[idcs] in the secondary objective", entry=entry, config=res.config)
    # the selection may be a boolean mask over the sources: it indexes the variable AS a mask
    mask = arr("idcs", S("SRC"), ONE)
    mask.tags["boolarr"] = True
    opt = _Val(items=[strv("underdetermined_opt", "min"), mask], tags={"kind": "tuple", "notnone": True, "notstr": True},
               data=frozenset({"underdetermined_opt", "idcs"}))
    res = run(an, opt, default)
    res.config = "opt=('min', boolean mask)"
    for po, obj, cons in F.final_problems(res):
        for at, v, ops in R.walk_atoms(obj):
            if at != "index":
                continue
            iv = v.tag("index_val")
            if iv is None or "idcs" not in {o.split("|")[0] for o in iv.flat().data}:
                continue
            rep.check("R-FLOW", "option (objective, mask): a boolean selection indexes the variable as a mask", not iv.flat().tag("mask_as_numbers"),
                      where=F.where_po(po), construct="x_[idcs] in the secondary objective", entry=entry, config=res.config,
                      msg="the selection is cast to numbers before it indexes the variable: a boolean mask becomes the positions 0 / 1, so the "
                          "secondary objective runs over the first two sources instead of the masked ones")


def var_structure(rep, res, expr, where, text, entry):
    """Σ (x − x̄)²: the squared operand is x minus (Σx divided by the number of sources)."""
    if expr is None:
        return          # objective not resolved to a single expression tree: reported as undecided by the reducer obligation
    a = expr.tag("atom")
    if not a or a[0] != "sum_squares":
        return
    inner = a[1][0].tag("atom")
    if not inner or inner[0] != "sub":
        rep.undecided("R-DISPATCH", "option var: centred on the mean", where=where, construct=f"var: {text}", entry=entry,
                      config=res.config)
        return
    x, centre = inner[1]
    ca = centre.tag("atom")
    # centre must be Σx / n  (a division whose numerator is a sum over the variable)
    ok = bool(ca) and ca[0] == "div" and (ca[1][0].tag("atom") or ("",))[0] == "sum" and x.tag("cvx") in ("leaf", "expr")
    if ok:
        den = ca[1][1]
        ok = den.tag("dim") is not None or den.tag("kind") == "int" or den.known
    rep.check("R-DISPATCH", "option var: centred on the mean", ok, where=where, construct=f"var: {text}", entry=entry,
              config=res.config,
              msg="the 'var' objective is not Σ(x − Σx/n)²: the subtracted centre is not the mean across sources")
