"""C02 — a registered system is the exact linear model of the receptor responses.

Decided:
  R-SHAPE/R-FLOW  register_system stores A as (filters × sources) computed once from the capture of the sources on the
                  equalised domain (one equalisation feeds the integration), linear (degree 1) in the sources, and from
                  nothing that can be re-registered (K, baseline, bounds, targets) — "A stores absolute captures only"
  R-SHAPE         system_capture contracts the source axis of X with the source axis of A (orientation), for single
                  vectors and batches; relative capture is K·(Q + baseline) in that order, element-wise for a vector K
                  and a contraction over the capture axis (not its transpose) for a matrix K, in _relative_capture AND in
                  apply_linear_transform (sibling agreement)
  R-QTY           frames: LIGHT + BASE = TOTAL before K is applied; adaptation stores K := 1/(Q_b [+ baseline]) with the
                  TOTAL capture of the background when the baseline is included, added to the old K when add=True; no
                  absolute clamp/epsilon on the capture that is inverted
Not decided: that the relative capture of the adapting background equals 1 to rounding; run-time size assertions."""
from __future__ import annotations
from ..spec import (rel_axis, arr, num, const, none, flag, estimator_fields, S, U_FILTER, U_SIGNAL, U_LAMBDA, U_INT, U_CAPTURE,
                    U_REL, U_K, U_GAIN)
from .. import rules as R
from ..values import Shape, ustr
from ..model import norm_text
from .common import opts, cfgname
from . import domains as D
from .C19 import est_fields

OPTS = opts()
EXPLANATION = __doc__
RULE_TEXT = "named-axis orientation typing (matrix K maps axis F to Fr), frame algebra, dependence of the stored model"
EST = "dreye.api.estimator:ReceptorEstimator"


def check(rep, an, tier):
    spec = D.hooks()
    api_results = []
    # ---- register_system: A
    for given in (None, "array", "step"):
        fields = est_fields("array" if given != "step" else "scalar", None)
        if given == "step":
            given = None
            step = True
        else:
            step = False
        fields["K"] = arr("self.K", S("F"), U_K)
        fields["baseline"] = arr("self.baseline", S("F"), U_CAPTURE, "BASE")
        dom = "domain" if given else "self.domain"
        src = D.on(arr("sources", S("SRC", "D@" + dom), U_SIGNAL), dom)
        kw = dict(sources=src, domain=D.domain_val("domain") if given else none(), lb=arr("lb", S("SRC"), U_INT),
                  ub=arr("ub", S("SRC"), U_INT), labels=none(), Epsilon=none())
        res = an.run(f"{EST}.register_system", kws=kw, self_fields=fields, spec=spec, config=f"domain={given}" + (",step" if step else ""))
        api_results.append(res)
        entry = "ReceptorEstimator.register_system"
        st = [e for e in res.events("self_store") if e.d["attr"] == "A"]
        if not st:
            rep.violated("R-EFFECT", "register_system stores A", where=res.fn.loc(), construct="self.A = …", entry=entry,
                         config=res.config, msg="A is not assigned")
            continue
        v = st[-1].d["val"].flat()
        ev = st[-1]
        need = {"self.filters", "self.domain", "sources"} | ({"domain"} if given else set())
        R.rule_dtype(rep, res, "ReceptorEstimator.register_system")
        for o in sorted(need):
            rep.check("R-FLOW", f"{o} → A", o in v.data, where=ev.loc, construct=f"{o} → {ev.text()}", entry=entry, config=res.config,
                      msg=f"A depends on {sorted(v.data)}")
        stale = {"self.K", "self.baseline", "lb", "ub", "self.lb", "self.ub", "self.B", "self.W"} & set(v.data)
        rep.check("R-NOFLOW", "A stores absolute captures only", not stale, where=ev.loc, construct=ev.text(), entry=entry,
                  config=res.config,
                  msg=f"the stored capture matrix depends on {sorted(stale)}, which can be re-registered independently: "
                      f"later registrations would leave A stale")
        if given is None:
            rep.check("R-SHAPE", "A is (filters × sources)", None if v.shape is None else v.shape == S("F", "SRC"), where=ev.loc,
                      construct=ev.text(), entry=entry, config=res.config, msg=f"computed {v.shape}")
            deg = v.tag("deg")
            rep.check("R-QTY", "A is linear in the sources and in the filters", None if deg is None else
                      (deg.get("sources") == 1 and deg.get("self.filters") == 1), where=ev.loc, construct=ev.text(), entry=entry,
                      config=res.config, msg=f"degrees {deg}")
        # the spectra are integrated AS GIVEN (resampled at most): they are not divided by a functional of themselves on any path —
        # a re-normalisation makes A homogeneous of degree 0 in the sources, so A no longer carries the intensity unit of the spectra
        for dv in res.events("self_quotient"):
            if "sources" in dv.d["origins"]:
                rep.violated("R-QTY", "A carries the scale of the source spectra", where=dv.loc, construct=dv.text()[:80], entry=entry,
                             config=res.config,
                             msg="the source spectra are divided by a quantity computed from themselves (their own integral / norm) before the "
                                 "capture matrix is built: A is then invariant to the scale of the spectra — the capture of x·source is no longer x·A")
        D.consistency(rep, res, entry)
        R.rule_type_errors(rep, res, "SHAPE", "R-SHAPE", entry)
        R.rule_type_errors(rep, res, "QTY", "R-QTY", entry)
        for tv in res.events("abs_tolerance"):
            at = tv.d.get("atol")
            if tv.d.get("dimensioned") and not (at is not None and at.known and at.const == 0):
                rep.violated("R-TYPESTATE", "sources on their own domain are always re-aligned with the filters", where=tv.loc, construct=tv.text(),
                             entry=entry, config=res.config,
                             msg="whether the source domain equals the filter domain is decided with an absolute tolerance on domain coordinates: "
                                 "grids in small units (metres) shifted by a few nm count as identical, the sources are not re-aligned and the "
                                 "capture matrix A is not the integral of filter × source")
        from .C01 import gradient_weights
        gradient_weights(rep, res, entry)
        R.rule_dtype_casts(rep, res, entry)
    # ---- system_capture / system_relative_capture / relative_capture / apply_linear_transform
    for Kk in ("vec", "mat", "scalar"):
        for bl in ("vec", "scalar"):
            for xr in ("vector", "batch", "stack of batches"):
                fields = estimator_fields(K=Kk if Kk != "scalar" else None, baseline=bl if bl == "vec" else None)
                FR = rel_axis(Kk)
                X = arr("X", {"vector": S("SRC"), "batch": S("N", "SRC"), "stack of batches": S("Bt", "N", "SRC")}[xr], U_INT)
                cfgs = cfgname(dict(K=Kk, baseline=bl, X=xr))
                res = an.run(f"{EST}.system_capture", kws=dict(X=X), self_fields=fields, config=cfgs)
                v = res.value.flat()
                want = {"vector": S("F"), "batch": S("N", "F"), "stack of batches": S("Bt", "N", "F")}[xr]
                rep.check("R-SHAPE", "system_capture contracts the source axes", None if v.shape is None else v.shape == want,
                          where=res.fn.loc(), construct="X @ self.A.T", entry="ReceptorEstimator.system_capture", config=cfgs,
                          msg=f"declared {want}, computed {v.shape}")
                rep.check("R-QTY", "system_capture is the light-induced capture [c]", None if v.unit is None else (v.unit == U_CAPTURE and v.frame == "LIGHT"),
                          where=res.fn.loc(), construct="unit/frame of system_capture", entry="ReceptorEstimator.system_capture", config=cfgs,
                          msg=f"[{ustr(v.unit)}] {v.frame}")
                R.rule_type_errors(rep, res, "SHAPE", "R-SHAPE", "ReceptorEstimator.system_capture")
                # the prediction uses the LIVE capture matrix: no cached copy is written by (or read instead of) the query
                R.rule_effect_free(rep, res, "ReceptorEstimator.system_capture", reg=_reg(an))
                rep.check("R-FLOW", "system_capture reads the registered capture matrix", "self.A" in v.data, where=res.fn.loc(),
                          construct="self.A → system_capture", entry="ReceptorEstimator.system_capture", config=cfgs,
                          msg=f"the prediction depends on {sorted(v.data)}, not on the registered capture matrix self.A")
                if xr == "vector" and Kk == "mat":
                    continue         # documented for batches (B.T of a vector is the vector itself)
                res = an.run(f"{EST}.system_relative_capture", kws=dict(X=X), self_fields=fields, config=cfgs)
                entry = "ReceptorEstimator.system_relative_capture"
                v = res.value.flat()
                want = {"vector": S(FR), "batch": S("N", FR), "stack of batches": S("Bt", "N", FR)}[xr]
                rep.check("R-SHAPE", "relative capture axes", None if v.shape is None else v.shape == want, where=res.fn.loc(),
                          construct="return of system_relative_capture", entry=entry, config=cfgs, msg=f"declared {want}, computed {v.shape}")
                rep.check("R-QTY", "relative capture = K·(Q + baseline): unit [ρ], TOTAL", None if v.unit is None else (v.unit == U_REL and v.frame == "TOTAL"),
                          where=res.fn.loc(), construct="unit/frame of system_relative_capture", entry=entry, config=cfgs,
                          msg=f"[{ustr(v.unit)}] {v.frame}")
                R.rule_type_errors(rep, res, "SHAPE", "R-SHAPE", entry)
                R.rule_type_errors(rep, res, "QTY", "R-QTY", entry)
                R.rule_effect_free(rep, res, entry, reg=_reg(an))
                R.rule_purity(rep, res, entry)
                for tv in res.events("abs_tolerance"):
                    if tv.d.get("dimensioned"):
                        at = tv.d.get("atol")
                        if at is not None and at.known and at.const == 0:
                            continue
                        rep.violated("R-QTY", "how K and the baseline are applied does not depend on an absolute tolerance", where=tv.loc,
                                     construct=tv.text(), entry=entry, config=cfgs,
                                     msg="an absolute tolerance on a quantity with physical units (gains in inverse capture units, captures) selects "
                                         "the formula of the relative capture: for small units entries that matter compare as zero and the result "
                                         "is not K·(Q + baseline)")
    # ---- register_adaptation: the gain is stored as given (scalar, per receptor, or the full matrix with all its entries)
    from ..values import plain_dep
    for Kk in ("vec", "mat"):
        Kv = arr("K", S("F") if Kk == "vec" else S("Fr", "F"), U_K)
        res = an.run(f"{EST}.register_adaptation", kws=dict(K=Kv), self_fields=estimator_fields(K="vec", baseline="vec"), config=f"K={Kk}")
        entry = "ReceptorEstimator.register_adaptation"
        st = [e for e in res.events("self_store") if e.d["attr"] == "K"]
        if not st:
            rep.violated("R-EFFECT", "register_adaptation stores K", where=res.fn.loc(), construct="self.K = …", entry=entry, config=res.config,
                         msg="K is not assigned")
            continue
        v = st[-1].d["val"].flat()
        okp, how = plain_dep(v.data, "K")
        rep.check("R-FLOW", "the registered adaptation is the given K itself", okp, where=st[-1].loc, construct=st[-1].text(), entry=entry,
                  config=res.config,
                  msg=(f"on some path the stored gain is a projection of the given matrix ({', '.join(how)}: its diagonal / a triangle): entries of "
                       f"K that the test does not look at are dropped, relative capture is then not K(Q + baseline)") if how else
                      "the stored K does not depend on the given K")
        if Kk == "mat":
            rep.check("R-SHAPE", "a matrix adaptation is stored as a matrix", None if v.shape is None else v.shape == S("Fr", "F"), where=st[-1].loc,
                      construct=st[-1].text(), entry=entry, config=res.config, msg=f"stored shape {v.shape}")
    # sibling: apply_linear_transform
    for Kk in ("vec", "mat"):
        FR = rel_axis(Kk)
        A = arr("A", S("F", "SRC"), U_GAIN, "GAIN")
        K = arr("K", S("F") if Kk == "vec" else S("Fr", "F"), U_K)
        b = arr("baseline", S("F"), U_CAPTURE, "BASE")
        res = an.run("dreye.api.utils:apply_linear_transform", kws=dict(A=A, K=K, baseline=b), config=f"K={Kk}")
        entry = "apply_linear_transform"
        it = res.value.items or []
        if len(it) == 2:
            a2, b2 = it[0].flat(), it[1].flat()
            rep.check("R-SHAPE", "K·A keeps (adapted filters × sources)", None if a2.shape is None else a2.shape == S(FR, "SRC"),
                      where=res.fn.loc(), construct="transformed A", entry=entry, config=res.config, msg=f"computed {a2.shape}")
            rep.check("R-SHAPE", "K·baseline is a vector over the adapted filters", None if b2.shape is None else b2.shape == S(FR),
                      where=res.fn.loc(), construct="transformed baseline", entry=entry, config=res.config, msg=f"computed {b2.shape}")
            rep.check("R-QTY", "units of the transformed model", None if (a2.unit is None or b2.unit is None) else
                      (a2.unit == {"rho": 1, "s": -1} and b2.unit == U_REL), where=res.fn.loc(), construct="units of apply_linear_transform",
                      entry=entry, config=res.config, msg=f"[{ustr(a2.unit)}], [{ustr(b2.unit)}]")
        R.rule_type_errors(rep, res, "SHAPE", "R-SHAPE", entry)
    # ---- adaptation
    for meth in ("register_background_adaptation", "register_system_adaptation"):
        for add_b, add, kprev in ((True, False, "vec"), (True, True, "vec"), (False, False, "vec"), (False, True, "vec"),
                                  (True, False, "mat"), (False, False, "mat")):
            if True:
                fields = est_fields("array", None) if meth == "register_background_adaptation" else estimator_fields(K="vec", baseline="vec")
                UC = {"phi": 1, "iota": 1, "lam": 1} if meth == "register_background_adaptation" else U_CAPTURE
                # the adaptation registered BEFORE: per receptor, or a (cross-adaptation) matrix
                fields["K"] = arr("self.K", S("F") if kprev == "vec" else S("Fr", "F"), {k: -v for k, v in UC.items()})
                fields["baseline"] = arr("self.baseline", S("F"), UC, "BASE", sign="NONNEG")
                if meth == "register_background_adaptation":
                    kw = dict(background=D.on(arr("background", S("D@self.domain"), U_SIGNAL), "self.domain"), domain=none())
                else:
                    kw = dict(x=arr("x", S("SRC"), U_INT))
                kw.update(add_baseline=flag("add_baseline", add_b), add=flag("add", add))
                res = an.run(f"{EST}.{meth}", kws=kw, self_fields=fields, spec=spec,
                             config=cfgname(dict(add_baseline=add_b, add=add, **({"Kbefore": "matrix"} if kprev == "mat" else {}))))
                entry = f"ReceptorEstimator.{meth}"
                R.rule_type_errors(rep, res, "SHAPE", "R-SHAPE", entry)
                st = [e for e in res.events("self_store") if e.d["attr"] == "K"]
                if not st:
                    rep.violated("R-EFFECT", "adaptation stores K", where=res.fn.loc(), construct="self.K = …", entry=entry, config=res.config,
                                 msg="K is not assigned")
                    continue
                v = st[-1].d["val"].flat()
                src = "background" if meth == "register_background_adaptation" else "x"
                need = {src} | ({"self.baseline"} if add_b else set()) | ({"self.K"} if add else set())
                for o in sorted(need):
                    rep.check("R-FLOW", f"{o} → K", o in v.data, where=st[-1].loc, construct=f"{o} → {st[-1].text()}", entry=entry,
                              config=res.config, msg=f"K depends on {sorted(v.data)}")
                if not add_b:
                    rep.check("R-NOFLOW", "baseline excluded when add_baseline=False", "self.baseline" not in v.data, where=st[-1].loc,
                              construct=st[-1].text(), entry=entry, config=res.config)
                if not add:
                    rep.check("R-NOFLOW", "old K replaced when add=False", "self.K" not in v.data, where=st[-1].loc, construct=st[-1].text(),
                              entry=entry, config=res.config)
                    inv = v.tag("inv_of_frame")
                    want = "TOTAL" if add_b else "LIGHT"
                    rep.check("R-QTY", f"K := 1 / ({want} capture of the background)", None if inv is None else inv == want, where=st[-1].loc,
                              construct=st[-1].text(), entry=entry, config=res.config, msg=f"inverse of a {inv} capture")
                R.rule_type_errors(rep, res, "QTY", "R-QTY", entry)
                for tv in res.events("abs_tolerance"):
                    if tv.d.get("dimensioned"):
                        rep.violated("R-QTY", "no absolute tolerance on the capture that is inverted", where=tv.loc, construct=tv.text(), entry=entry,
                                     config=res.config,
                                     msg="an absolute tolerance decides whether the background capture counts as zero: for captures in small "
                                         "physical units the adaptation is silently replaced (relative capture of the background ≠ 1)")
                if add and meth == "register_system_adaptation":
                    pass
                lit = [e for e in res.events("type_error") if e.d["facet"] == "QTY"]
                D.consistency(rep, res, entry)
    R.rule_api(rep, api_results, "ReceptorEstimator.register_system")
    rep.require("R-API", 3)
    rep.require("R-SHAPE", 15)
    rep.require("R-QTY", 15)
    rep.require("R-FLOW", 20)
    rep.require("R-NOFLOW", 8)


def _reg(an):
    from .C14 import registration_writes
    return registration_writes(an)
