import warnings
warnings.filterwarnings("ignore")
import numpy as np
from scipy.stats import norm
import dreye
from dreye import ReceptorEstimator

np.set_printoptions(precision=6, suppress=False, linewidth=160, threshold=100000)
wls = np.arange(300, 700, 1.0)


def digest(name, obj):
    def fmt(o):
        if isinstance(o, ReceptorEstimator):
            keys = sorted(k for k in vars(o) if k in ("X", "B", "P", "Bvar", "scales", "K", "W", "target_B", "Epsilon", "lb", "ub", "baseline"))
            return "EST{" + "; ".join(f"{k}={fmt(getattr(o, k))}" for k in keys) + "}"
        if isinstance(o, (tuple, list)):
            return "(" + ", ".join(fmt(i) for i in o) + ")"
        if isinstance(o, np.ndarray):
            if o.dtype == object:
                return "obj[" + ", ".join(fmt(i) for i in o) + "]"
            if o.dtype.kind == "f":
                return f"arr{o.shape}" + np.array2string(np.round(o, 5) + 0.0)
            return f"arr{o.shape}{o.dtype}" + np.array2string(o)
        if isinstance(o, float):
            return repr(round(o, 6))
        return repr(o)
    print(name, "->", fmt(obj))


def attempt(name, fn):
    try:
        digest(name, fn())
    except BaseException as e:  # noqa
        print(name, "-> EXC", type(e).__name__, str(e)[:200])


def make(peaks, led_peaks, ub=0.1, lb=0.0, scale=20, **kw):
    filters = dreye.govardovskii2000_template(wls, np.array(peaks, dtype=float)[:, None])
    sources = norm.pdf(wls, loc=np.array(led_peaks, dtype=float)[:, None], scale=scale)
    sources = sources / dreye.integral(sources, wls, axis=-1, keepdims=True)
    n = len(led_peaks)
    est = ReceptorEstimator(filters, domain=wls, sources=sources, lb=np.ones(n) * lb, ub=np.ones(n) * ub, **kw)
    return est, filters, sources

print("dreye from", dreye.__file__)
rng = np.random.default_rng(2)
est, filters, sources = make([360, 450, 550], [370, 430, 500, 590], K=[1.5, 0.5, 3.0], baseline=[1e-3, 2e-3, 5e-4])
sig = np.abs(rng.normal(size=(4, wls.size)))
attempt("unc none", lambda: est.uncertainty_capture(sig))
est.register_uncertainty(filters * 0.1)
digest("unc 2d", est.uncertainty_capture(sig))
digest("unc 2d dom", est.uncertainty_capture(sig[:, ::2], domain=wls[::2]))
samples = filters[None] * (1 + 0.1 * rng.normal(size=(7, 1, 1))) + 0.01 * np.abs(rng.normal(size=(7,) + filters.shape))
est.register_uncertainty(samples)
digest("unc 3d", est.uncertainty_capture(sig))
digest("unc 3d single", est.uncertainty_capture(sig[0]))
est.register_system(sources, lb=0.0, ub=0.2)
digest("Epsilon 3d", est.Epsilon)
est.register_uncertainty(filters[0])
attempt("unc 1d", lambda: est.uncertainty_capture(sig))
est.register_uncertainty(samples[None])
attempt("unc 4d", lambda: est.uncertainty_capture(sig))

for tag, kw in [
    ("tri4", dict(peaks=[360, 450, 550], led_peaks=[370, 430, 500, 590])),
    ("tri3lb", dict(peaks=[360, 450, 550], led_peaks=[370, 450, 560], lb=0.01, ub=0.3)),
    ("di3", dict(peaks=[420, 535], led_peaks=[410, 480, 550])),
    ("tetra5", dict(peaks=[340, 420, 500, 580], led_peaks=[350, 410, 470, 530, 600], ub=1.0)),
]:
    est, filters, sources = make(**kw)
    n = est.A.shape[1]
    X = rng.uniform(-0.05, 0.35, size=(5, n))
    X[0, 0] = est.lb[0]; X[1, 1] = est.ub[1]; X[2, 0] = np.nan
    digest(tag + " in_system", est.in_system(X))
    digest(tag + " in_system 1d", est.in_system(X[3]))
    digest(tag + " in_system list", est.in_system(X.tolist()))
    for rel in (True, False):
        t = f"{tag} rel={rel}"
        digest(t + " P rz", est._get_P_from_A(relative=rel, bounded=True, remove_zero=True))
        digest(t + " P", est._get_P_from_A(relative=rel, bounded=True))
        B = est.sample_in_hull(6, seed=5, relative=rel)
        digest(t + " sample", B)
        attempt(t + " sample l1", lambda: est.sample_in_hull(6, seed=5, l1=1.0, relative=rel))
        attempt(t + " sample l1 sobol", lambda: est.sample_in_hull(8, seed=5, l1=2.5, engine="Sobol", relative=rel))
        attempt(t + " in_hull norm", lambda: est.in_hull(np.vstack([B, B[::-1] ** 3 + 1e-3]), relative=rel, normalized=True))
        attempt(t + " l1 scaling", lambda: est.hull_l1_scaling(B * 7.0, relative=rel))
        attempt(t + " l1 scaling neg", lambda: est.hull_l1_scaling(B - B.mean(), relative=rel))
        Bout = B ** 4 + 1e-4
        Bout[1] = 0
        attempt(t + " dist scaling", lambda: est.hull_dist_scaling(Bout, relative=rel))
        attempt(t + " dist scaling np", lambda: est.hull_dist_scaling(Bout, neutral_point=np.arange(1, Bout.shape[1] + 1.0), relative=rel))
    # unbounded system
    est.register_bounds(ub=np.inf)
    attempt(tag + " l1 scaling inf", lambda: est.hull_l1_scaling(B * 7.0))
    attempt(tag + " sample inf", lambda: est.sample_in_hull(4, seed=2))
    digest(tag + " in_system inf", est.in_system(X))
# matrix K
est, filters, sources = make([360, 450, 550], [370, 430, 500, 590], K=np.array([[1.0, -0.2, 0.0], [-0.1, 1.2, -0.3], [0.0, -0.4, 0.9]]), baseline=0.02)
attempt("matK l1 scaling", lambda: est.hull_l1_scaling(np.abs(rng.normal(size=(4, 3)))))
attempt("matK P rz", lambda: est._get_P_from_A(bounded=True, remove_zero=True))
e2 = ReceptorEstimator(filters, domain=wls)
attempt("unregistered in_system", lambda: e2.in_system(np.ones(3)))
attempt("unregistered l1", lambda: e2.hull_l1_scaling(np.ones((2, 3))))
