"""Equivalence script for r2: ReceptorEstimator.sample_in_hull / sample_in_gamut (plain and L1 variant)."""
import warnings
import numpy as np
from numpy.random import default_rng
from scipy.stats import norm

import dreye

warnings.filterwarnings("ignore")
np.set_printoptions(precision=6, suppress=True, linewidth=200, threshold=100000)
assert dreye.__file__.startswith("/tmp/wt/B5"), dreye.__file__


def show(tag, arr):
    arr = np.asarray(arr, dtype=float)
    arr = np.round(arr, 6) + 0.0  # + 0.0 removes negative zeros
    print(tag, arr.shape)
    print(arr)


def make_est(peaks, led_peaks, ub, lb=None, K=1.0, baseline=0.0, scale=20):
    wls = np.arange(300, 700, 1)
    filters = dreye.govardovskii2000_template(wls, np.asarray(peaks)[:, None])
    sources = norm.pdf(wls, loc=np.asarray(led_peaks)[:, None], scale=scale)
    sources = sources / dreye.integral(sources, wls, axis=-1, keepdims=True)
    return dreye.ReceptorEstimator(
        filters, domain=wls, sources=sources,
        lb=(np.zeros(len(led_peaks)) if lb is None else np.asarray(lb, dtype=float)),
        ub=np.asarray(ub, dtype=float), K=K, baseline=baseline,
    )


Kmat = np.array([[1.0, 0.1, 0.0], [0.0, 2.0, 0.2], [0.1, 0.0, 0.5]])
systems = {
    "di2": make_est([420, 535], [410, 550], [0.1, 0.2]),
    "di3": make_est([420, 535], [410, 480, 550], [0.1, 0.1, 0.1]),
    "tri3": make_est([360, 440, 540], [370, 450, 560], [1.0, 2.0, 0.5]),
    "tri4": make_est([360, 440, 540], [370, 430, 500, 580], [1.0, 0.5, 2.0, 1.0], K=[1.0, 2.0, 0.5], baseline=0.01),
    "tri4Kmat": make_est([360, 440, 540], [370, 430, 500, 580], [1.0, 0.5, 2.0, 1.0], K=Kmat, baseline=[0.0, 0.02, 0.01]),
    "tri4lb": make_est([360, 440, 540], [370, 430, 500, 580], [1.0, 0.5, 2.0, 1.0], lb=[0.1, 0.0, 0.2, 0.0]),
    "tetra5": make_est([340, 420, 480, 560], [350, 400, 450, 520, 600], [1.0, 1.0, 1.0, 1.0, 1.0], baseline=[0.0, 0.1, 0.0, 0.2]),
    "tetra6": make_est([340, 420, 480, 560], [350, 390, 430, 480, 540, 610], [0.5, 1.0, 1.5, 1.0, 0.5, 2.0]),
    "tri3unb": make_est([360, 440, 540], [370, 450, 560], [np.inf, np.inf, np.inf]),
}

for name, est in systems.items():
    for relative in (True, False):
        for engine in (None, "Sobol", "Halton", "LHC"):
            for seed in (0, 3):
                show(f"{name} rel={relative} engine={engine} seed={seed}",
                     est.sample_in_hull(5, seed=seed, engine=engine, relative=relative))
                for l1 in (0.05, 1.0, np.float64(2.5), 3):
                    try:
                        out = est.sample_in_hull(n=5, seed=seed, engine=engine, l1=l1, relative=relative)
                        show(f"{name} rel={relative} engine={engine} seed={seed} l1={l1}", out)
                        print("  totals", np.round(out.sum(-1), 6))
                    except Exception as err:  # noqa
                        print(f"{name} rel={relative} engine={engine} seed={seed} l1={l1}", type(err).__name__, str(err)[:80])
    # alias, positional arguments, defaults
    show(f"{name} alias positional", est.sample_in_gamut(4, 2, None, 0.3, False) if "unb" not in name else est.sample_in_gamut(4, 2, None, None, False))
    show(f"{name} default n", est.sample_in_hull(seed=8))
    # Generator as seed: the stream must be consumed identically
    gen = default_rng(17)
    show(f"{name} gen plain", est.sample_in_hull(3, seed=gen))
    if "unb" not in name:
        show(f"{name} gen l1", est.sample_in_hull(3, seed=gen, l1=0.4))
        show(f"{name} gen l1 array", est.sample_in_hull(3, seed=gen, l1=np.array([0.1, 0.2, 0.3])))
    show(f"{name} gen state", gen.random(2))
    # statistics of a larger draw
    big = est.sample_in_hull(1500, seed=1)
    show(f"{name} big mean/std", np.vstack([big.mean(0), big.std(0)]))
    if "unb" not in name:
        bigl1 = est.sample_in_hull(1500, seed=1, l1=0.2)
        show(f"{name} bigl1 mean/std", np.vstack([bigl1.mean(0), bigl1.std(0)]))
        print(name, "l1 in chromatic gamut", bool(est.in_hull(bigl1, normalized=True).mean() > 0.99))

# error paths
est = systems["tri4"]
for kwargs in (dict(seed="x"), dict(engine="nope", seed=1), dict(l1=0.1, engine=5, seed=1), dict(l1=0.1, seed=1.5)):
    try:
        est.sample_in_hull(3, **kwargs)
        print("ok", kwargs)
    except Exception as err:  # noqa
        print("error", kwargs, type(err).__name__, str(err)[:80])
wls = np.arange(300, 700, 1)
unreg = dreye.ReceptorEstimator(dreye.govardovskii2000_template(wls, np.array([420, 535])[:, None]), domain=wls)
try:
    unreg.sample_in_hull(3, seed=1, l1=1.0)
except Exception as err:  # noqa
    print("unregistered", type(err).__name__, str(err))
