"""C04 demo: "a target is reproduced with zero error exactly when it is in the gamut".

System without an upper bound (the default ub = inf) but with a positive lower bound
(LEDs that cannot be switched off completely) and per-channel adaptation.  The gamut is
the cone  {K * (A @ x + baseline) : x >= lb}.  Membership is decided independently with
a bounded least-squares solve (scipy); the library's in_gamut() and the zero-error
property of the default fit must agree with it.
"""
import sys
import warnings

warnings.filterwarnings("ignore")
import numpy as np
from scipy.optimize import lsq_linear as scipy_lsq

import dreye


def main():
    wls = np.arange(300.0, 701.0, 1.0)
    peaks_f = np.array([400.0, 470.0, 540.0])
    # broad, overlapping receptors: the gamut is a narrow cone
    filters = np.exp(-0.5 * ((wls[None] - peaks_f[:, None]) / 60.0) ** 2)
    peaks_s = np.array([380.0, 470.0, 560.0])
    sources = np.exp(-0.5 * ((wls[None] - peaks_s[:, None]) / 15.0) ** 2)
    sources = sources / np.trapezoid(sources, wls, axis=-1)[:, None]
    K = np.array([0.5, 1.0, 2.5])
    baseline = 0.1
    lb = np.array([0.3, 0.1, 0.4])
    est = dreye.ReceptorEstimator(
        filters, domain=wls, K=K, baseline=baseline, sources=sources, lb=lb
    )
    assert np.all(np.isposinf(est.ub))
    A = np.array(est.A, dtype=float)

    def model(X):
        return (np.atleast_2d(X) @ A.T + baseline) * K

    rng = np.random.default_rng(11)
    X_in = lb + rng.uniform(0.3, 3.0, size=(30, 3))
    B_in = model(X_in)
    # candidates outside the cone: scale single channels of reachable captures
    B_cand = np.repeat(model(X_in), 2, axis=0) * rng.choice([0.15, 0.5, 1.0, 2.0, 5.0], size=(60, 3))
    # ... and captures darker than the darkest state of the system (x = lb) in some channel
    B_dark = model(lb) * rng.uniform(0.3, 1.0, size=(20, 3))
    B = np.vstack([B_in, B_cand, B_dark])

    # independent membership: distance of b to the gamut
    Aeff = A * K[:, None]
    beff = K * baseline
    dist = np.array([
        np.sqrt(2 * scipy_lsq(Aeff, b - beff, bounds=(lb, np.inf), tol=1e-13).cost) for b in B
    ])
    # keep the unambiguous targets only: the interior points constructed above (every source
    # at least 0.3 above its lower bound) and the candidates that are clearly outside
    keep = dist > 1e-2
    keep[:len(B_in)] = True
    B, dist = B[keep], dist[keep]
    member = dist < 1e-9
    assert member[:len(B_in)].all() and member.sum() == len(B_in) and (~member).sum() >= 6, dist

    ok = True
    lib_member = np.asarray(est.in_gamut(B))
    if not np.array_equal(lib_member, member):
        ok = False
        print("   in_gamut disagrees with the reference membership:")
        print("     in-gamut targets called out of gamut:", int((member & ~lib_member).sum()), "of", int(member.sum()))
        print("     out-of-gamut targets called in gamut:", int((~member & lib_member).sum()), "of", int((~member).sum()))

    X, Bhat = est.fit(B)
    err = np.abs(model(X) - B).max(axis=-1)
    zero_err = err < 1e-4
    if not np.array_equal(zero_err, member):
        ok = False
        print("   fit: zero error is not equivalent to reference membership", err)
    if not np.array_equal(zero_err, lib_member):
        ok = False
        print("   fit reproduces targets that in_gamut calls out of gamut (or the reverse):")
        print("     targets concerned:", np.flatnonzero(zero_err != lib_member).tolist())
    if not np.all(X >= lb - 1e-4):
        ok = False
        print("   bounds violated")

    print("PASS" if ok else "FAIL")
    return 0 if ok else 1


if __name__ == "__main__":
    sys.exit(main())
