"""C13 / m1: L1 sampling must be uniform over the whole chromaticity gamut,
including the corner that is contributed by a very dim light source."""
import sys
import numpy as np
import dreye

assert dreye.__file__


def gauss(x, mu, sd):
    return np.exp(-0.5 * ((x - mu) / sd) ** 2)


def cross(o, a, b):
    return (a[..., 0] - o[..., 0]) * (b[..., 1] - o[..., 1]) - (a[..., 1] - o[..., 1]) * (b[..., 0] - o[..., 0])


def in_triangle(pts, a, b, c, tol=1e-9):
    d1, d2, d3 = cross(a, b, pts), cross(b, c, pts), cross(c, a, pts)
    s = np.sign(cross(a, b, c))
    return (s * d1 >= -tol) & (s * d2 >= -tol) & (s * d3 >= -tol)


def area(a, b, c):
    return 0.5 * abs(cross(a, b, c))


def main():
    wl = np.arange(300.0, 701.0, 1.0)
    filters = np.stack([gauss(wl, mu, 40.0) for mu in (360.0, 450.0, 540.0)])
    sources = np.stack([gauss(wl, mu, 10.0) for mu in (340.0, 430.0, 520.0, 620.0)])
    sources = sources / sources.sum(axis=1, keepdims=True)
    # the UV source is legal but very dim compared with the others
    ub = np.array([2e-9, 1.0, 1.0, 1.0])
    est = dreye.ReceptorEstimator(filters, domain=wl, sources=sources, lb=0.0, ub=ub)

    n, l1 = 20000, 3.0
    S = est.sample_in_gamut(n, seed=7, l1=l1, relative=False)
    S2 = est.sample_in_gamut(n, seed=7, l1=l1, relative=False)

    ok = True
    if S.shape != (n, 3):
        print("wrong shape", S.shape)
        ok = False
    if not np.array_equal(S, S2):
        print("not reproducible")
        ok = False
    if not np.allclose(S.sum(axis=1), l1, rtol=1e-9):
        print("wrong total")
        ok = False

    # independent description of the chromaticity gamut: with lb = 0 the set of
    # achievable chromaticities q / sum(q) is the convex hull of the
    # chromaticities of the single sources (columns of A).
    A = np.asarray(est.A)  # (n_filters, n_sources)
    C = (A / A.sum(axis=0)).T  # (n_sources, 3) chromaticities
    # affine chart of the plane sum == 1: first two coordinates (area ratios are affine invariant)
    c = C[:, :2]
    s = (S / S.sum(axis=1, keepdims=True))[:, :2]

    # sources are ordered along the spectral locus -> polygon 0-1-2-3 is convex
    turn = np.sign([cross(c[i], c[(i + 1) % 4], c[(i + 2) % 4]) for i in range(4)])
    assert np.all(turn == turn[0]), "construction: the four chromaticities must be in convex position"

    inside = in_triangle(s, c[0], c[1], c[2]) | in_triangle(s, c[0], c[2], c[3])
    if not inside.all():
        print("samples outside the gamut:", int((~inside).sum()))
        ok = False

    # region next to the dim source: triangle (c3, c0, c1) cut off by the diagonal c3-c1
    total = area(c[0], c[1], c[2]) + area(c[0], c[2], c[3])
    region = area(c[3], c[0], c[1])
    p = region / total
    k = int(in_triangle(s, c[3], c[0], c[1], tol=0.0).sum())
    sd = np.sqrt(n * p * (1 - p))
    print(f"region near dim source: expected {n * p:.1f} +- {sd:.1f}, got {k}")
    if abs(k - n * p) > 6 * sd:
        ok = False

    print("PASS" if ok else "FAIL")
    return 0 if ok else 1


if __name__ == "__main__":
    try:
        rc = main()
    except Exception as e:  # a crash is also a failure to deliver samples
        print("exception:", repr(e))
        print("FAIL")
        rc = 1
    sys.exit(rc)
