import warnings
warnings.filterwarnings("ignore")
import numpy as np
from scipy.stats import norm
import dreye


def make_est(peaks=(360, 440, 540), led_peaks=(370, 420, 470, 530, 590), ub=1.0, lb=0.0,
             K=1.0, baseline=0.0, step=2):
    wls = np.arange(300, 700, step).astype(float)
    filters = dreye.govardovskii2000_template(wls, np.array(peaks, dtype=float)[:, None])
    sources = norm.pdf(wls, loc=np.array(led_peaks, dtype=float)[:, None], scale=15)
    sources = sources / dreye.integral(sources, wls, axis=-1, keepdims=True)
    n = len(led_peaks)
    return dreye.ReceptorEstimator(
        filters, domain=wls, sources=sources, K=K, baseline=baseline,
        lb=np.broadcast_to(lb, (n,)).astype(float).copy(),
        ub=np.broadcast_to(ub, (n,)).astype(float).copy(),
    ), wls, sources


def show(tag, x):
    x = np.asarray(x)
    if x.dtype == bool:
        print(tag, x.shape, x.astype(int).tolist())
    else:
        x = np.round(np.asarray(x, dtype=float), 5) + 0.0  # +0.0 normalises -0.0
        print(tag, x.shape, x.tolist())

def run(est, tag, rs):
    nf = est.filters.shape[0]
    for relative in (True, False):
        T = est.sample_in_hull(6, seed=5, relative=relative)
        cases = {
            "inside": T,
            "sat": T * rs.uniform(0.05, 3.0, size=T.shape),
            "with_zero_rows": np.vstack([np.zeros(nf), T[:2] * np.array([3.0] + [0.2] * (nf - 1)), np.zeros(nf)]),
            "all_zero": np.zeros((3, nf)),
            "single_channel": np.eye(nf) * 0.7,
            "int": rs.integers(0, 4, size=(5, nf)),
            "partial_zero": np.vstack([np.eye(nf)[0] * 2.0, np.r_[0.0, np.ones(nf - 1)], T[0]]),
        }
        for name, B in cases.items():
            for neutral in (None, np.linspace(1.0, 2.0, nf)):
                try:
                    out = est.hull_dist_scaling(B, neutral_point=neutral, relative=relative)
                    show(f"{tag} rel={relative} {name} np={neutral is not None}", out)
                    nz = np.any(np.asarray(out) != 0, axis=-1)
                    if nz.any():
                        print("   in chromatic gamut",
                              est.in_hull(np.asarray(out)[nz] * (1 - 1e-9) + 1e-9 * np.asarray(out)[nz].sum(-1, keepdims=True) / nf,
                                          relative=relative, normalized=True).astype(int).tolist())
                        show("   l1", np.asarray(out).sum(-1))
                except Exception as e:
                    print(f"{tag} rel={relative} {name} np={neutral is not None} raises", type(e).__name__)
            try:
                show(f"{tag} rel={relative} {name} in_hull_norm", est.in_hull(np.asarray(B)[np.any(np.asarray(B) != 0, -1)], relative=relative, normalized=True))
            except Exception as e:
                print(f"{tag} rel={relative} {name} in_hull_norm raises", type(e).__name__)
        show(f"{tag} rel={relative} l1-sample", est.sample_in_hull(5, seed=2, l1=0.8, relative=relative))


rs = np.random.default_rng(42)
for peaks, leds in (((360, 440, 540), (370, 420, 470, 530, 590)),
                    ((340, 420, 480, 560), (350, 400, 450, 500, 560, 620)),
                    ((440, 540), (420, 500, 580)),
                    ((360, 440, 540), (380, 460, 560))):
    est, wls, sources = make_est(peaks, leds)
    tag = f"n{len(peaks)}x{len(leds)}"
    run(est, tag + " init", rs)
    est.register_bounds(ub=np.linspace(0.4, 1.5, len(leds)))
    run(est, tag + " bounds", rs)
    # lower bound > 0: no zero row among the vertices
    est.register_bounds(lb=np.full(len(leds), 0.05))
    run(est, tag + " lb", rs)
    est.register_bounds(lb=np.zeros(len(leds)))
    est.register_system_adaptation(np.full(len(leds), 0.25))
    run(est, tag + " adapt", rs)
    est.register_baseline(0.02)
    run(est, tag + " baseline", rs)
    est.register_baseline(0.0)
    est.register_adaptation(np.linspace(0.5, 1.5, len(peaks)))
    run(est, tag + " K", rs)
    est.register_system(sources[::-1] * 1.0, domain=wls, lb=np.zeros(len(leds)), ub=np.ones(len(leds)) * 0.7)
    run(est, tag + " resys", rs)
